"""C16 - interpolation is exact where it must be; insertion conserves the amount.

Correspondence: the real interpolation / insertion code of py-pde (`get_axis_data`,
`field.interpolate` with and without `bc` / `fill`, `make_single_interpolator(cell_coords=True)`,
`ScalarField.interpolate_to_grid`, `field.insert`, `NumbaBackend.make_inserter`) in source
semantics (NUMBA_DISABLE_JIT=1) and compiled (JIT) against `PdeVerif.Interp` evaluated over Rat.
Monitors: the property statement on the real results (exact at centres, multilinear reference,
range preserving, affine exact, periodic, outside raises or fills, linear approach to the BC value,
amount conserved, compiled = interpreted)."""
import itertools
import json
import math
import time
from fractions import Fraction

import numpy as np

from harness.common.num import q

PID = "C16"
LEVEL = "proof"
REQUIRED_THEOREMS = [
    "weights_nonneg_sum_one", "weights_clipped", "indices_in_range", "indices_in_range_ghost",
    "exact_at_centres", "exact_at_centres2", "exact_at_centres3",
    "multilinear_between_centres", "multilinear_between_centres2", "multilinear_between_centres3",
    "exact_on_affine", "exact_on_affine2", "exact_on_affine3",
    "within_data_range", "within_data_range2", "within_data_range3",
    "periodic_seam", "periodic_seam2", "periodic_seam3", "periodic_shift",
    "outside_is_rejected", "outside_is_rejected2", "outside_is_rejected3",
    "inside_is_accepted", "inside_is_accepted2", "inside_is_accepted3",
    "boundary_strip_nearest", "boundary_strip_nearest2", "boundary_strip_nearest3",
    "ghost_mode_linear_to_bc_value", "ghost_mode_linear_to_bc_value2", "ghost_mode_linear_to_bc_value3",
    "insert_conserves", "insert_conserves_compiled", "insert_conserves_compiled2", "insert_conserves_compiled3",
    "insert_conserves_compiled_ghost", "insert_conserves_compiled_ghost2",
    "insert_interpreted_eq_compiled", "insert_interpreted_eq_compiled2", "insert_interpreted_eq_compiled3",
    # periodic seam VALUE in 2 and 3 axes
    "periodic_seam_value2", "periodic_seam_both2", "periodic_seam_value3", "periodic_seam_all3",
    # Props/C16Eps.lean: the real clipping constant 0 <= eps <= 1/2 (the driver evaluates eps = 1e-15)
    "clipping_error", "clipping_error2", "clipping_error3",
    "real_eps_of_exact", "real_eps_of_exact2", "real_eps_of_exact3",
    "multilinear_between_centres_eps", "multilinear_between_centres2_eps", "multilinear_between_centres3_eps",
    "exact_on_affine_eps", "exact_on_affine2_eps", "exact_on_affine3_eps",
    "within_data_range_eps", "within_data_range2_eps", "within_data_range3_eps",
    "periodic_seam_eps", "boundary_strip_nearest_eps", "ghost_mode_linear_to_bc_value_eps",
    "ghost_mode_dirichlet_value_eps",
    "insert_compiled_integral", "insert_compiled_integral2", "insert_compiled_integral3",
    "insert_conserves_compiled_eps", "insert_conserves_compiled2_eps", "insert_conserves_compiled3_eps",
    "insert_conserves_compiled_ghost_eps", "insert_conserves_compiled_ghost2_eps",
    "insert_interpreted_eq_compiled_eps", "insert_interpreted_eq_compiled2_eps", "insert_interpreted_eq_compiled3_eps",
    "driver_floor_instance_eq",
    # Props/C16Gap.lean (gap round): ghost-mode inserter on 3 axes, interpolate_to_grid, bc mode on the padded array
    # the conditions define (both faces, value / derivative, corner square), multi-axis statements at the real eps
    "insert_compiled_ghost_integral3", "insert_conserves_compiled_ghost3", "insert_conserves_compiled_ghost3_eps",
    "interpolate_to_grid_spec", "interpolate_to_grid_same_grid", "interpolate_to_grid_same_grid2",
    "interpolate_to_grid_same_grid3", "interpolate_to_grid_affine", "interpolate_to_grid_outside",
    "padFull1", "padFull2_x", "padFull2_y", "padFull3_x", "padFull2_corner",
    "bc_mode_approaches_imposed_condition", "bc_mode_approaches_imposed_condition2",
    "bc_mode_approaches_imposed_condition2_y", "bc_mode_approaches_imposed_condition3",
    "bc_mode_approaches_imposed_condition3_y", "bc_mode_approaches_imposed_condition3_z",
    "bc_mode_approaches_imposed_condition_eps", "bc_mode_approaches_imposed_condition2_eps",
    "bc_mode_corner_square2", "bc_mode_corner_square_value_on_face", "bc_mode_corner_square_misses_imposed_value",
    "periodic_seam_both2_eps", "periodic_seam_all3_eps", "domain_corner2_eps", "boundary_strip_nearest2_eps",
]
EXTRA_PROP_FILES = ["C16Eps", "C16Gap"]
RULE = ("(a) lattice sweep: small dyadic Cartesian grids with 1 and 2 axes, every periodicity pattern, every point of "
        "a regular lattice of cell coordinates from 2 cells below to 1 cell above the domain (all integer / half-integer "
        "ties, every branch, points exactly on the boundary included for the correspondence), compared exactly; "
        "(b) random grids of every class (UnitGrid/CartesianGrid with 1-3 axes and every periodicity pattern, "
        "PolarSymGrid, SphericalSymGrid, CylindricalSymGrid, with and without inner hole, 1..7 cells per axis, "
        "dyadic or generic bounds) carrying fields of rank 0-2 (random, dyadic, affine or constant data; on every second "
        "grid also complex data and integer data with and without an integer dtype) and "
        "points drawn by class (cell centres, faces, cell corners, bulk, boundary strips, domain corners, "
        "periodic seams, wrapped periodic images, near-integer ties, uniformly random, clearly outside by "
        "1e-6 .. 10 cells; points within 1e-9 cells of a non-periodic domain boundary are not judged by the monitors); "
        "boundary conditions (value / derivative per face, auto_periodic_*) with probe lines along the inward normal of "
        "every face through a cell centre, through an arbitrary tangential position and through the corner squares "
        "(a second non-periodic axis within half a cell of its boundary); target grids of interpolate_to_grid of the "
        "same class (inside / equal / beyond) and Cartesian targets of curvilinear sources; a malformed stream (wrong "
        "number of coordinates, NaN / inf coordinates) whose expected outcome is an error class; "
        "one case = (grid, field, operation, point); it is distinct by these and non-trivial if the field is not "
        "constant and the expected outcome is a value (not an error / the fill value)")
ASSUMPTIONS = [
    "points within 1e-9 of the domain boundary are excluded from the monitors (membership ill-conditioned, as the "
    "property says); on the dyadic lattice they are still compared with the model (exact arithmetic on both sides)",
    "float results are compared with the exact (Rat) model within 1e-10 of the natural scale "
    "(max |data|, resp. max|data| + |amount|/min cell volume); on dyadic grids with dyadic data exactly",
    "at a rounding tie (cell coordinate within 1e-9 of an integer) the index pair of get_axis_data may "
    "differ from the exact one; there the index->weight distribution is compared instead of the raw tuple "
    "(with numpy's negative-index wrap-around: for a cell coordinate in (-2^-53, 0) float divmod returns (-1, 1.0), "
    "i.e. index -1 with weight 0, or - single cell - index -1 = that cell)",
    "the ghost cells behind a face are what the imposed condition defines (value v: 2v - cell, outward derivative d: "
    "cell + d dx; the defining equations themselves are property C02), edge / corner ghost cells are what "
    "set_ghost_cells(set_corners=True) documents (mean of the adjacent ghost cells): the harness builds this padded "
    "array itself, feeds it to the model and compares the real interpolation with it; the ghost layer of the real "
    "field is filled with NaN before every call",
    "compiled against interpreted: relative 1e-12 of the scale of the data (the compiler may reorder floating-point "
    "operations)",
]
TRUSTED_EXTRA = ["numpy divmod/astype/choose/ndindex semantics as read from the source (validated by the correspondence)"]

EPS = 1e-15
TOL = 1e-10

# Narrow key of the one clause the unchanged library does not meet (see notes/C16.md, "corner squares"): with
# `set_corners=True` the ghost cell in a corner / on an edge of the padded array is DEFINED as the mean of the
# adjacent ghost cells; where two non-periodic axes are both within half a cell of their boundary the bc-mode
# interpolant then neither reaches the imposed value on the face nor keeps the imposed slope.  The key is only
# attached when (1) the real value equals the interpolant of the independently padded reference (the code does
# what it documents) and (2) the point lies in such a corner square.
KNOWN_CORNER = {"site": "BoundariesList.set_ghost_cells(set_corners=True)", "region": "corner-square",
                "symptom": "imposed-condition-not-met"}


# ==========================================================================================
# grids
# ==========================================================================================
def make_grid(gs):
    import pde

    c = gs["cls"]
    if c == "UnitGrid":
        return pde.UnitGrid(gs["shape"], periodic=gs["periodic"])
    if c == "CartesianGrid":
        return pde.CartesianGrid(gs["bounds"], gs["shape"], periodic=gs["periodic"])
    if c == "PolarSymGrid":
        return pde.PolarSymGrid(tuple(gs["radius"]), gs["shape"][0])
    if c == "SphericalSymGrid":
        return pde.SphericalSymGrid(tuple(gs["radius"]), gs["shape"][0])
    if c == "CylindricalSymGrid":
        return pde.CylindricalSymGrid(tuple(gs["radius"]), tuple(gs["bounds_z"]), tuple(gs["shape"]),
                                      periodic_z=gs["periodic"][1])
    raise ValueError(c)


def field_class(rank):
    import pde

    return [pde.ScalarField, pde.VectorField, pde.Tensor2Field][rank]


GRID_KINDS = ["Unit1", "Unit2", "Unit3", "Cart1", "Cart2", "Cart3", "Polar", "Spherical", "Cylindrical"]


def gen_grid(rng, kind=None, dyadic=None, max_cells=7):
    kind = kind or rng.choice(GRID_KINDS)
    dyadic = (rng.random() < 0.4) if dyadic is None else dyadic

    def ncells(d):
        hi = {1: max_cells, 2: 5, 3: 4}[d]
        return rng.choice([1, 1, 2, 2, 3] + list(range(2, hi + 1)))

    def interval():
        if dyadic:
            dx = rng.choice([0.25, 0.5, 1.0, 2.0])
            lo = rng.randint(-8, 8) * 0.25
            return lo, dx
        lo = round(rng.uniform(-3, 3), 3)
        dx = rng.choice([0.1, 0.3, 0.7, 1.1, 1 / 3, round(rng.uniform(0.05, 2.5), 4)])
        return lo, dx

    if kind.startswith("Unit"):
        d = int(kind[-1])
        shape = [ncells(d) for _ in range(d)]
        return {"cls": "UnitGrid", "shape": shape, "periodic": [rng.random() < 0.4 for _ in range(d)], "dyadic": True}
    if kind.startswith("Cart"):
        d = int(kind[-1])
        shape = [ncells(d) for _ in range(d)]
        bounds = []
        for n in shape:
            lo, dx = interval()
            bounds.append([lo, lo + n * dx])
        return {"cls": "CartesianGrid", "shape": shape, "bounds": bounds,
                "periodic": [rng.random() < 0.4 for _ in range(d)], "dyadic": dyadic}
    if kind in ("Polar", "Spherical"):
        n = ncells(1)
        lo, dx = interval()
        r0 = 0.0 if rng.random() < 0.5 else abs(lo) + (0.25 if dyadic else 0.1)
        return {"cls": kind + "SymGrid", "shape": [n], "radius": [r0, r0 + n * dx], "periodic": [False],
                "dyadic": False}  # cell volumes contain pi: never exact
    if kind == "Cylindrical":
        shape = [ncells(2), ncells(2)]
        lo, dx = interval()
        r0 = 0.0 if rng.random() < 0.5 else abs(lo) + (0.25 if dyadic else 0.1)
        zlo, dz = interval()
        return {"cls": "CylindricalSymGrid", "shape": shape, "radius": [r0, r0 + shape[0] * dx],
                "bounds_z": [zlo, zlo + shape[1] * dz], "periodic": [False, rng.random() < 0.5], "dyadic": False}
    raise ValueError(kind)


def grid_dim(gs):
    return {"UnitGrid": len(gs["shape"]), "CartesianGrid": len(gs["shape"]), "PolarSymGrid": 2,
            "SphericalSymGrid": 3, "CylindricalSymGrid": 3}[gs["cls"]]


def grid_axes(gs):
    """[(size, periodic, lo, dx)] exactly as the real grid object reports them"""
    g = make_grid(gs)
    return [(int(g.shape[a]), bool(g.periodic[a]), float(g.axes_bounds[a][0]), float(g.discretization[a]))
            for a in range(g.num_axes)]


# ==========================================================================================
# fields
# ==========================================================================================
def gen_field(rng, gs, axes, rank=None, kind=None):
    rank = rng.choice([0, 0, 1, 2]) if rank is None else rank
    ncomp = grid_dim(gs) ** rank
    shape = [a[0] for a in axes]
    kind = kind or rng.choice(["random", "random", "dyadic", "affine", "affine", "constant"] if not gs["dyadic"]
                              else ["dyadic", "dyadic", "random", "affine", "constant"])
    ncell = int(np.prod(shape))
    coef = None
    if kind == "random":
        comps = [[rng.uniform(-5, 5) for _ in range(ncell)] for _ in range(ncomp)]
    elif kind == "dyadic":
        comps = [[rng.randint(-40, 40) / 4 for _ in range(ncell)] for _ in range(ncomp)]
    elif kind == "constant":
        comps = [[rng.choice([0.0, 1.0, -2.5, 3.75])] * ncell for _ in range(ncomp)]
    else:  # affine in the grid coordinates: a + sum_k b_k * centre_k
        coef, comps = [], []
        for _ in range(ncomp):
            if gs["dyadic"]:
                a0, b = rng.randint(-8, 8) / 2, [rng.randint(-4, 4) / 2 for _ in shape]
            else:
                a0, b = rng.uniform(-3, 3), [rng.uniform(-2, 2) for _ in shape]
            coef.append([a0] + b)
            vals = []
            for idx in itertools.product(*[range(n) for n in shape]):
                vals.append(a0 + sum(bk * (ax[2] + (i + 0.5) * ax[3]) for bk, i, ax in zip(b, idx, axes)))
            comps.append(vals)
    return {"rank": rank, "kind": kind, "comps": comps, "coef": coef}


def build_field(gs, fs):
    g = make_grid(gs)
    dim = g.dim
    data = np.array(fs["comps"], dtype=float).reshape((dim,) * fs["rank"] + tuple(g.shape))
    return g, field_class(fs["rank"])(g, data)


# ==========================================================================================
# points
# ==========================================================================================
INSIDE_KINDS = ["centre", "face", "bulk", "strip_lo", "strip_hi", "tie", "random"]


def axis_x(rng, kind, n, periodic, dyadic):
    """cell coordinate of one axis for a per-axis point kind (domain is [-0.5, n-0.5]); returns (x, kind used)"""
    def quant(x, lo, hi):
        if not dyadic:
            return x
        xq = round(x * 8) / 8
        return min(max(xq, lo), hi)

    if kind == "face" and n < 2:
        kind = "centre"
    if kind == "bulk" and n < 2:
        kind = "strip_lo" if rng.random() < 0.5 else "strip_hi"
    if kind == "centre":
        return float(rng.randrange(n)), kind
    if kind == "face":
        return rng.randrange(n - 1) + 0.5, kind
    if kind == "bulk":
        return quant(rng.uniform(0, n - 1), 0, n - 1), kind
    if kind == "strip_lo":
        return quant(-0.5 + 0.5 * rng.choice([1e-6, 1e-3, 0.25, 0.5, 0.75, rng.random() * 0.98 + 0.01]), -0.375, -0.125), kind
    if kind == "strip_hi":
        return quant(n - 0.5 - 0.5 * rng.choice([1e-6, 1e-3, 0.25, 0.5, 0.75, rng.random() * 0.98 + 0.01]), n - 0.875, n - 0.625), kind
    if kind == "tie":
        if dyadic:
            return float(rng.randrange(n)), "centre"
        return rng.randrange(n) + rng.choice([-1, 1]) * rng.choice([1e-15, 3e-14, 1e-12, 1e-9, 1e-7, 1e-6, 1e-4]), kind
    if kind == "random":
        return quant(rng.uniform(-0.5 + 1e-6, n - 0.5 - 1e-6), -0.375, n - 0.625), kind
    if kind in ("outside_lo", "outside_hi"):
        # distance beyond the boundary in cells; exactly half a cell / one cell (where the interpreted insert
        # changes its mind) only on dyadic grids, where the cell coordinate is computed without rounding
        d = rng.choice([0.125, 0.25, 0.5, 0.75, 1.0, 1.25, 2.5, 10.0] if dyadic else
                       [1e-6, 0.01, 0.3, 0.45, 0.55, 0.7, 0.95, 1.05, 1.3, 2.5, 10.0])
        return ((-0.5 - d) if kind == "outside_lo" else (n - 0.5 + d)), kind
    if kind == "wrapped":
        x0, _ = axis_x(rng, rng.choice(["centre", "face", "random", "strip_lo", "strip_hi"]), n, periodic, dyadic)
        return x0 + n * rng.choice([-2, -1, 1, 2, 3]), kind
    raise ValueError(kind)


POINT_CLASSES = ["centres", "faces", "corners", "bulk", "strip", "domain_corner", "seam", "wrapped", "tie",
                 "random", "outside"]


def gen_point(rng, axes, dyadic, cls):
    """-> (cell coords xs, grid coords p, realised class).  Falls back to a feasible class."""
    d = len(axes)
    nonper = [k for k, a in enumerate(axes) if not a[1]]
    per = [k for k, a in enumerate(axes) if a[1]]
    if cls in ("strip", "domain_corner", "outside") and not nonper:
        cls = "seam"
    if cls in ("seam", "wrapped") and not per:
        cls = "strip"
    kinds = [rng.choice(INSIDE_KINDS) for _ in range(d)]
    if cls == "centres":
        kinds = ["centre"] * d
    elif cls == "faces":
        kinds = [rng.choice(["centre", "bulk"]) for _ in range(d)]
        kinds[rng.randrange(d)] = "face"
    elif cls == "corners":
        kinds = ["face"] * d
    elif cls == "bulk":
        kinds = ["bulk"] * d
    elif cls == "strip":
        kinds[rng.choice(nonper)] = rng.choice(["strip_lo", "strip_hi"])
    elif cls == "domain_corner":
        for k in range(d):
            kinds[k] = rng.choice(["strip_lo", "strip_hi"])
    elif cls == "seam":
        kinds[rng.choice(per)] = rng.choice(["strip_lo", "strip_hi"])
    elif cls == "wrapped":
        kinds[rng.choice(per)] = "wrapped"
    elif cls == "tie":
        kinds[rng.randrange(d)] = "tie"
    elif cls == "random":
        kinds = ["random"] * d
    elif cls == "outside":
        kinds[rng.choice(nonper)] = rng.choice(["outside_lo", "outside_hi"])
    xs, used = [], []
    for k, (n, periodic, lo, dx) in enumerate(axes):
        x, u = axis_x(rng, kinds[k], n, periodic, dyadic)
        xs.append(x)
        used.append(u)
    p = [a[2] + (x + 0.5) * a[3] for x, a in zip(xs, axes)]
    return xs, p, cls, used


def classify(axes, p):
    """position of a point relative to the domain, from its grid coordinates:
    'inside' | 'outside' | 'boundary' (within 1e-9 cells of a non-periodic boundary)"""
    res = "inside"
    for (n, periodic, lo, dx), c in zip(axes, p):
        if periodic:
            continue
        x = (c - lo) / dx - 0.5
        if abs(x + 0.5) < 1e-9 or abs(x - (n - 0.5)) < 1e-9:
            return "boundary"
        if x < -0.5 or x > n - 0.5:
            res = "outside"
    return res


# ==========================================================================================
# independent reference (the property's own words, used by the monitors)
# ==========================================================================================
def ref_axis(n, periodic, x):
    """support of the multilinear interpolant on one axis: [(index, weight)]; nearest cell in the
    half-cell strips next to a non-periodic boundary; None outside"""
    i = math.floor(x)
    t = x - i
    if periodic:
        return [(i % n, 1 - t), ((i + 1) % n, t)]
    if x < -0.5 or x > n - 0.5:
        return None
    if x <= 0:
        return [(0, 1.0)]
    if x >= n - 1:
        return [(n - 1, 1.0)]
    return [(i, 1 - t), (i + 1, t)]


def ref_interp(axes, comps, p):
    """reference multilinear interpolation of every component; None outside"""
    sup = []
    for (n, periodic, lo, dx), c in zip(axes, p):
        s = ref_axis(n, periodic, (c - lo) / dx - 0.5)
        if s is None:
            return None
        sup.append(s)
    shape = [a[0] for a in axes]
    out = [0.0] * len(comps)
    for combo in itertools.product(*sup):
        w, flat = 1.0, 0
        for (i, wi), n in zip(combo, shape):
            w *= wi
            flat = flat * n + i
        for k, comp in enumerate(comps):
            out[k] += w * comp[flat]
    return out


def pad_reference(axes, comps, sides):
    """independent definition of the padded arrays `interpolate(bc=..)` works on (one numpy array per component):
    valid cells = the data; ghost cell behind a face = what the imposed condition defines (value v: `2 v - cell`,
    outward derivative d: `cell + d dx`, periodic: the cell at the other end); ghost cells on edges / in corners as
    `BoundariesList.set_ghost_cells(set_corners=True)` documents them: 2 axes - the mean of the two adjacent ghost
    cells; 3 axes - edges the mean of the two adjacent face ghost cells, corners the mean of the three adjacent edge
    cells.  Everything else stays NaN (nothing else exists)."""
    shape = [a[0] for a in axes]
    d = len(shape)
    out = []
    for comp in comps:
        full = np.full([n + 2 for n in shape], np.nan)
        full[tuple(slice(1, -1) for _ in shape)] = np.array(comp, dtype=float).reshape(shape)
        for k, (n, per, _lo, dx) in enumerate(axes):
            def sl(i, k=k):
                return tuple(i if a == k else slice(1, -1) for a in range(d))
            if per:
                full[sl(0)] = full[sl(n)]
                full[sl(n + 1)] = full[sl(1)]
                continue
            for upper in (False, True):
                kind, c = sides[k][1 if upper else 0]
                cell = full[sl(n if upper else 1)]
                full[sl(n + 1 if upper else 0)] = (2 * c - cell) if kind == "value" else (cell + c * dx)
        nxt = {0: 1, -1: -2}
        ends = list(itertools.product([0, -1], repeat=2))
        if d == 2:
            for i, j in ends:
                full[i, j] = (full[nxt[i], j] + full[i, nxt[j]]) / 2
        elif d == 3:
            for i, j in ends:
                full[1:-1, i, j] = (full[1:-1, nxt[i], j] + full[1:-1, i, nxt[j]]) / 2
                full[i, 1:-1, j] = (full[nxt[i], 1:-1, j] + full[i, 1:-1, nxt[j]]) / 2
                full[i, j, 1:-1] = (full[nxt[i], j, 1:-1] + full[i, nxt[j], 1:-1]) / 2
            for i, j, k in itertools.product([0, -1], repeat=3):
                full[i, j, k] = (full[nxt[i], j, k] + full[i, nxt[j], k] + full[i, j, nxt[k]]) / 3
        out.append(full)
    return out


def ref_interp_ghost(axes, fulls, p):
    """reference interpolation with boundary conditions: the multilinear interpolant of the padded arrays `fulls`
    (index i+1 = cell i); non-periodic axes are interpolated up to the faces (cell coordinate -0.5 .. n-0.5) using
    the ghost layer, periodic axes wrap and never touch it; None outside"""
    sup = []
    for (n, periodic, lo, dx), c in zip(axes, p):
        x = (c - lo) / dx - 0.5
        i = math.floor(x)
        t = x - i
        if periodic:
            sup.append([(i % n + 1, 1 - t), ((i + 1) % n + 1, t)])
        elif x < -0.5 or x > n - 0.5:
            return None
        else:
            sup.append([(i + 1, 1 - t), (i + 2, t)])
    out = [0.0] * len(fulls)
    for combo in itertools.product(*sup):
        w = 1.0
        for _i, wi in combo:
            w *= wi
        if w == 0.0:
            continue
        idx = tuple(i for i, _w in combo)
        for k, full in enumerate(fulls):
            out[k] += w * float(full[idx])
    return out


def strip_axes(axes, p):
    """the non-periodic axes on which the point lies within half a cell of the boundary: [(axis, upper)]"""
    out = []
    for k, ((n, periodic, lo, dx), c) in enumerate(zip(axes, p)):
        if periodic:
            continue
        x = (c - lo) / dx - 0.5
        if x < 0:
            out.append((k, False))
        elif x > n - 1:
            out.append((k, True))
    return out


def readable_ghost_cells(axes):
    """index tuples of the padded array outside the valid block which the ghost-mode interpolator can read:
    ghost index on non-periodic axes only"""
    shape = [a[0] for a in axes]
    for idx in itertools.product(*[range(n + 2) for n in shape]):
        g = [k for k, (i, n) in enumerate(zip(idx, shape)) if i in (0, n + 1)]
        if g and all(not axes[k][1] for k in g):
            yield idx


def witness_point(axes, idx):
    """a point inside the domain whose bc-mode interpolant reads the padded cell `idx` with weight >= 4^-axes:
    a quarter cell inside the face for a ghost index, the cell centre for a valid index"""
    xs = []
    for (n, _per, _lo, _dx), i in zip(axes, idx):
        xs.append(-0.25 if i == 0 else (n - 0.75 if i == n + 1 else float(i - 1)))
    return [a[2] + (x + 0.5) * a[3] for x, a in zip(xs, axes)]


# ==========================================================================================
# boundary conditions (ghost-cell mode)
# ==========================================================================================
def gen_bc(rng, gs, axes, dyadic):
    """-> (bc argument for py-pde, sides) with sides[axis] = None (periodic) or
    [(kind, const) lower, (kind, const) upper]"""
    import pde  # noqa: F401

    g = make_grid(gs)
    names = list(g.axes)
    r = rng.random()
    num = (lambda: rng.randint(-6, 6) / 2) if dyadic else (lambda: round(rng.uniform(-3, 3), 3))
    if r < 0.12:
        return "auto_periodic_neumann", [None if a[1] else [("derivative", 0.0)] * 2 for a in axes]
    if r < 0.24:
        return "auto_periodic_dirichlet", [None if a[1] else [("value", 0.0)] * 2 for a in axes]
    bc, sides = {}, []
    for name, a in zip(names, axes):
        if a[1]:
            bc[name] = "periodic"
            sides.append(None)
            continue
        s = []
        for suffix in "-+":
            kind = rng.choice(["value", "value", "derivative"])
            v = num()
            bc[name + suffix] = {kind: v}
            s.append((kind, v))
        sides.append(s)
    return bc, sides


def probe_point(axes, tang, axis, upper, t):
    """the point at distance `t` half cells from the face (axis, upper) on its inward normal; `tang` = cell
    coordinates of the foot point (the entry of `axis` is ignored)"""
    xs = list(tang)
    xs[axis] = (axes[axis][0] - 0.5 - 0.5 * t) if upper else (-0.5 + 0.5 * t)
    return [a[2] + (x + 0.5) * a[3] for x, a in zip(xs, axes)]


def gen_bc_probes(rng, axes, sides, dyadic=False):
    """lines on the inward normal of boundary faces, sampled at t = distance from the face in half cells
    (t = 1: the first / last layer of cell centres):
      'centre' - through a tangential cell centre (every face),
      'any'    - tangential position anywhere inside the domain (between centres, in the strips of other axes),
      'corner' - tangential position within half a cell of the boundary of a second non-periodic axis (the corner
                 squares / edge bars, where ghost cells set by `set_corners` are read).
    -> [{"p", "axis", "upper", "t", "tang", "cls", "line"}]"""
    probes = []
    line = [0]

    def add(k, upper, tang, cls, ts):
        line[0] += 1
        for t in ts:
            probes.append({"p": probe_point(axes, tang, k, upper, t), "axis": k, "upper": upper, "t": t,
                           "tang": [float(x) for x in tang], "cls": cls, "line": line[0]})

    nonper = [k for k, s in enumerate(sides) if s is not None]
    for k in nonper:
        for upper in (False, True):
            add(k, upper, [float(rng.randrange(a[0])) for a in axes], "centre",
                [1e-6, 0.25, 0.5, 1.0, rng.uniform(0.01, 0.99)])
    if nonper and len(axes) > 1:
        k = rng.choice(nonper)
        tang = [axis_x(rng, rng.choice(INSIDE_KINDS), a[0], a[1], dyadic)[0] for a in axes]
        add(k, rng.random() < 0.5, tang, "any", [1e-6, 0.5, 1.0, rng.uniform(0.01, 0.99)])
    if len(nonper) >= 2:
        for _ in range(2):
            k, j = rng.sample(nonper, 2)
            tang = [axis_x(rng, rng.choice(INSIDE_KINDS), a[0], a[1], dyadic)[0] for a in axes]
            tang[j] = axis_x(rng, rng.choice(["strip_lo", "strip_hi"]), axes[j][0], False, dyadic)[0]
            add(k, rng.random() < 0.5, tang, "corner", [1e-6, 0.5, 1.0, rng.uniform(0.01, 0.99)])
    return probes


# ==========================================================================================
# worker: everything that touches the real code (runs in a fresh interpreter, S or J mode)
# ==========================================================================================
def _err(e):
    return "ERR:" + type(e).__name__


def _vals(a):
    """flat list of floats; a complex or object result where a real one is due is an error, never cast away"""
    a = np.asarray(a)
    if a.dtype.kind not in "fiub":
        raise TypeError(f"result of dtype {a.dtype} where real numbers are due")
    return [float(x) for x in a.reshape(-1)]


def _cvals(a):
    """flat list of [re, im]"""
    return [[float(np.real(x)), float(np.imag(x))] for x in np.asarray(a).reshape(-1)]


def _poison_ghost_cells(f):
    """NaN in every ghost cell of the field (valid data untouched): a ghost cell the code does not set before
    it interpolates is then visible deterministically, not only when stale memory happens to be non-finite"""
    valid = np.array(f.data, copy=True)
    f._data_full[...] = np.nan
    f.data = valid


def work(spec):
    """perform the operations of `spec["ops"]` on the real code; plain floats/lists out"""
    import warnings

    warnings.simplefilter("ignore")
    cw = getattr(getattr(np, "exceptions", np), "ComplexWarning", None)
    if cw is not None:
        warnings.simplefilter("error", cw)  # never drop an imaginary part silently
    import pde
    from pde.backends.numba import numba_backend
    from pde.backends.numba.grids import make_interpolation_axis_data, make_single_interpolator

    gs, fs = spec["grid"], spec["field"]
    g, f = build_field(gs, fs)
    ncomp = g.dim ** fs["rank"]
    ops = spec["ops"]
    pts = spec.get("points", [])
    fill = spec.get("fill")
    out = {"axes": [(int(g.shape[a]), bool(g.periodic[a]), float(g.axes_bounds[a][0]), float(g.discretization[a]))
                    for a in range(g.num_axes)],
           "vol": _vals(g.cell_volumes), "jit": not bool(int(__import__("os").environ.get("NUMBA_DISABLE_JIT", "0")))}

    if "axis" in ops:
        res = {}
        for a in range(g.num_axes):
            for ghost in (False, True):
                for cc in (False, True):
                    fn = make_interpolation_axis_data(g, a, with_ghost_cells=ghost, cell_coords=cc)
                    r = []
                    for p in pts:
                        t = fn(float(p[a]))
                        r.append(None if t[0] == -42 else (int(t[0]), int(t[1]), float(t[2]), float(t[3])))
                    res[(a, ghost, cc)] = r
        out["axis"] = res

    if "interp" in ops:  # no bc, fill=None: per point (value or DomainError)
        r = []
        for p in pts:
            try:
                r.append(_vals(f.interpolate(np.array(p, dtype=float))))
            except Exception as e:  # noqa: BLE001
                r.append(_err(e))
        out["interp"] = r

    if "interp_fill" in ops:  # no bc, fill given: one batched call
        try:
            v = np.asarray(f.interpolate(np.array(pts, dtype=float).reshape(len(pts), g.num_axes), fill=fill))
            out["interp_fill"] = [_vals(v[..., i]) for i in range(len(pts))] if v.shape == f.data_shape + (len(pts),) \
                else "ERR:shape" + str(v.shape)
        except Exception as e:  # noqa: BLE001
            out["interp_fill"] = _err(e)

    if "single_cc" in ops:  # make_single_interpolator(cell_coords=True) on cell coordinates
        fl = None if fill is None else (float(fill) if fs["rank"] == 0 else np.full(f.data_shape, float(fill)))
        si = make_single_interpolator(g, fill=fl, cell_coords=True)
        r = []
        for xs in spec["cell_points"]:
            try:
                r.append(_vals(si(f.data, np.array(xs, dtype=float))))
            except Exception as e:  # noqa: BLE001
                r.append(_err(e))
        out["single_cc"] = r

    if "interp_bc" in ops:  # ghost-cell mode
        allp = pts + [pr["p"] for pr in spec.get("probes", [])]
        r = {}
        for with_fill in spec.get("bc_fills", [False, True]):
            try:
                if not with_fill:
                    vals = []
                    for p in allp:
                        _poison_ghost_cells(f)
                        try:
                            vals.append(_vals(f.interpolate(np.array(p, dtype=float), bc=spec["bc"])))
                        except Exception as e:  # noqa: BLE001
                            vals.append(_err(e))
                else:
                    _poison_ghost_cells(f)
                    v = np.asarray(f.interpolate(np.array(allp, dtype=float).reshape(len(allp), g.num_axes),
                                                 bc=spec["bc"], fill=fill))
                    vals = [_vals(v[..., i]) for i in range(len(allp))]
            except Exception as e:  # noqa: BLE001
                vals = _err(e)
            r[with_fill] = vals
        out["interp_bc"] = r
        full = np.asarray(f._data_full, dtype=float)
        out["data_full"] = [_vals(c) for c in full.reshape((ncomp,) + full.shape[fs["rank"]:])]
        out["full_shape"] = [int(n) for n in full.shape[fs["rank"]:]]

    if "to_grid" in ops:  # ScalarField.interpolate_to_grid
        g2 = make_grid(spec["grid2"])
        # the points interpolate_to_grid evaluates at (determined as the code does; the property is about
        # the interpolation at these points)
        if isinstance(g2, pde.CartesianGrid):
            tp = g.transform(g2.cell_coords, "cartesian", "grid")
        else:
            tp = g2.cell_coords
        out["grid2_points"] = [[float(c) for c in row] for row in np.asarray(tp).reshape(-1, g.num_axes)]
        r = {}
        for name, kw in (("nofill", {}), ("fill", {"fill": fill}), ("bc", {"bc": spec.get("bc"), "fill": fill})):
            if name not in spec.get("to_grid_variants", ("nofill", "fill", "bc")):
                continue
            if name == "bc" and spec.get("bc") is None:
                continue
            if name != "nofill" and fill is None:
                continue
            try:
                if name == "bc":
                    _poison_ghost_cells(f)
                res = f.interpolate_to_grid(g2, **kw)
                r[name] = _vals(res.data) if res.grid is g2 or res.grid == g2 else "ERR:grid"
            except Exception as e:  # noqa: BLE001
                r[name] = _err(e)
            if name == "bc":
                full = np.asarray(f._data_full, dtype=float)
                out["to_grid_full"] = [_vals(full)]
                out["full_shape"] = [int(n) for n in full.shape]
        out["to_grid"] = r

    if "malformed" in ops:  # malformed points on the public entry points: the outcome must be an error class
        r = []
        for item in spec["malformed"]:
            pt = np.array(item["point"], dtype=float)
            o = {}
            for name, kw in (("interp", {}), ("interp_fill", {"fill": fill}), ("interp_bc", {"bc": spec["bc"]})):
                try:
                    o[name] = _vals(f.interpolate(pt, **kw))
                except Exception as e:  # noqa: BLE001
                    o[name] = _err(e)
            _, f2 = build_field(gs, fs)
            try:
                f2.insert(pt, 1.0 if not fs["rank"] else np.ones(f2.data_shape))
                o["insert"] = _vals(f2.data)
            except Exception as e:  # noqa: BLE001
                o["insert"] = _err(e)
            r.append(o)
        out["malformed"] = r

    if "cplx" in ops:  # complex data: real and imaginary part are interpolated / inserted independently
        im = np.array(spec["imag"], dtype=float).reshape(f.data.shape)
        fc = field_class(fs["rank"])(g, f.data + 1j * im)
        cfill = complex(fill, -0.5 * fill - 1.0)
        o = {"dtype": str(fc.data.dtype), "fill": [cfill.real, cfill.imag]}
        cpts = pts[:spec.get("cplx_points", len(pts))]
        r = []
        for p in cpts:
            try:
                r.append(_cvals(fc.interpolate(np.array(p, dtype=float))))
            except Exception as e:  # noqa: BLE001
                r.append(_err(e))
        o["interp"] = r
        if not spec.get("jit"):
            try:
                v = np.asarray(fc.interpolate(np.array(cpts, dtype=float).reshape(len(cpts), g.num_axes), fill=cfill))
                o["interp_fill"] = [_cvals(v[..., i]) for i in range(len(cpts))]
            except Exception as e:  # noqa: BLE001
                o["interp_fill"] = _err(e)
        cins = numba_backend.make_inserter(g)
        r = []
        for p, amount in spec["inserts"][:3]:
            item = {}
            for which in ("interp", "comp"):
                fc2 = fc.copy()
                am = np.array(amount, dtype=float) * (1 - 0.5j)
                am = am.reshape(fc2.data_shape) if fs["rank"] else complex(am[0])
                ib = _cvals(fc2.integral)
                try:
                    if which == "interp":
                        fc2.insert(np.array(p, dtype=float), am)
                    else:
                        cins(fc2.data, np.array(p, dtype=float), am)
                    item[which] = {"after": _cvals(fc2.data), "int_before": ib, "int_after": _cvals(fc2.integral)}
                except Exception as e:  # noqa: BLE001
                    item[which] = _err(e)
            r.append(item)
        o["insert"] = r
        out["cplx"] = o

    if "intdata" in ops:  # integer-valued data, handed over as an integer array (converted to float by the
        # field) and with an explicit integer dtype (kept): the interpolant is the same real number either way
        idata = np.array(spec["ints"], dtype=int).reshape(f.data.shape)
        o = {}
        ipts = pts[:spec.get("cplx_points", len(pts))]
        for name, kw in (("converted", {}), ("int", {"dtype": int})):
            try:
                fi = field_class(fs["rank"])(g, idata, **kw)
                o[name + "_dtype"] = str(fi.data.dtype)
                r = []
                for p in ipts:
                    try:
                        v = np.asarray(fi.interpolate(np.array(p, dtype=float)))
                        o[name + "_result_kind"] = v.dtype.kind
                        r.append(_vals(v))
                    except Exception as e:  # noqa: BLE001
                        r.append(_err(e))
                o[name] = r
                if not spec.get("jit"):
                    try:
                        v = np.asarray(fi.interpolate(np.array(ipts, dtype=float).reshape(len(ipts), g.num_axes), fill=fill))
                        o[name + "_fill"] = [_vals(v[..., i]) for i in range(len(ipts))]
                    except Exception as e:  # noqa: BLE001
                        o[name + "_fill"] = _err(e)
            except Exception as e:  # noqa: BLE001
                o[name] = _err(e)
        out["intdata"] = o

    def do_inserts(which):
        r = []
        ins = None
        if which != "interp":
            ins = numba_backend.make_inserter(g, with_ghost_cells=(which == "comp_ghost"))
        for p, amount in spec["inserts"]:
            _, f2 = build_field(gs, fs)
            before = _vals(f2.data)
            ib = _vals(f2.integral)
            am = np.array(amount, dtype=float).reshape(f2.data_shape) if fs["rank"] else float(amount[0])
            try:
                if which == "interp":
                    f2.insert(np.array(p, dtype=float), am)
                elif which == "comp":
                    ins(f2.data, np.array(p, dtype=float), am)
                else:
                    f2._data_full[...] = 0.0  # ghost cells defined; valid data restored below
                    f2.data = np.array(fs["comps"], dtype=float).reshape(f2.data.shape)
                    full = np.asarray(f2._data_full, dtype=float)
                    full_before = [_vals(c) for c in full.reshape((ncomp,) + full.shape[fs["rank"]:])]
                    ins(f2._data_full, np.array(p, dtype=float), am)
                item = {"after": _vals(f2.data), "int_before": ib, "int_after": _vals(f2.integral), "before": before}
                if which == "comp_ghost":
                    full = np.asarray(f2._data_full, dtype=float)
                    item["full_before"] = full_before
                    item["full_after"] = [_vals(c) for c in full.reshape((ncomp,) + full.shape[fs["rank"]:])]
                r.append(item)
            except Exception as e:  # noqa: BLE001
                r.append(_err(e))
        return r

    if "insert" in ops:
        out["insert"] = do_inserts("interp")
    if "insert_comp" in ops:
        out["insert_comp"] = do_inserts("comp")
    if "insert_comp_ghost" in ops:
        out["insert_comp_ghost"] = do_inserts("comp_ghost")
    return out


# ==========================================================================================
# model requests
# ==========================================================================================
def jaxes(axes):
    return [{"size": n, "periodic": per, "lo": q(lo), "dx": q(dx)} for n, per, lo, dx in axes]


def req_axis(axes, a, ghost, cc, coords):
    return {"eps": q(EPS), "ghost": ghost, "cc": cc, "axis": jaxes(axes)[a], "coords": [q(c) for c in coords]}


def req_interp(axes, shape, comps, pts, ghost=False, cc=False, fill=None):
    return {"eps": q(EPS), "ghost": ghost, "cc": cc, "fill": None if fill is None else [q(fill)] * len(comps),
            "axes": jaxes(axes), "shape": list(shape), "data": [[q(v) for v in c] for c in comps],
            "points": [[q(c) for c in p] for p in pts]}


def req_insert(axes, vol, comps, p, amounts, kind, ghost=False):
    """all components of one insertion in one request"""
    return {"kind": kind, "eps": q(EPS), "ghost": ghost, "axes": jaxes(axes), "vol": [q(v) for v in vol],
            "data": [[q(v) for v in c] for c in comps], "point": [q(c) for c in p], "amount": [q(a) for a in amounts]}


# ==========================================================================================
# comparison helpers
# ==========================================================================================
def fr(s):
    return Fraction(s)


def distribution(t, n_arr, tol=1e-9):
    """index -> weight with numpy's negative-index wrap-around applied, tiny weights dropped"""
    d = {}
    for i, w in ((t[0], t[2]), (t[1], t[3])):
        if -n_arr <= i < 0:
            i += n_arr
        d[i] = d.get(i, 0.0) + float(w)
    return {i: w for i, w in d.items() if not (abs(w) <= tol)}  # a NaN weight is kept (and then differs)


def same_axis(model, real, exact, n_arr):
    """model: None | [li, hi, 'wl', 'wh'];  real: None | (li, hi, wl, wh); n_arr = length of the indexed array"""
    if model is None or real is None:
        return model is None and real is None
    m = (model[0], model[1], fr(model[2]), fr(model[3]))
    if exact:
        return m[0] == real[0] and m[1] == real[1] and m[2] == Fraction(real[2]) and m[3] == Fraction(real[3])
    if m[0] == real[0] and m[1] == real[1] and abs(float(m[2]) - real[2]) < 1e-11 and abs(float(m[3]) - real[3]) < 1e-11:
        return True
    dm, dr = distribution(m, n_arr), distribution(real, n_arr)
    return dm.keys() == dr.keys() and all(abs(dm[k] - dr[k]) < 1e-9 for k in dm)


def far(diff, tol):
    """NaN-safe `abs(diff) > tol`: a non-finite difference counts as far"""
    return not (abs(diff) <= tol)


def same_vals(model, real, scale, exact):
    """model: list of rational strings | None per component; real: list of floats | 'ERR:..'"""
    if isinstance(real, str):
        return all(m is None for m in model) and real == "ERR:DomainError"
    if any(m is None for m in model):
        return False
    if len(model) != len(real):
        return False
    for m, r in zip(model, real):
        if exact:
            if fr(m) != Fraction(r):
                return False
        elif not abs(float(fr(m)) - r) <= TOL * scale:
            return False
    return True


# ==========================================================================================
# case generation
# ==========================================================================================
def gen_malformed(rng, axes):
    """malformed points: wrong number of coordinates, NaN / infinite coordinates"""
    d = len(axes)
    inside = [a[2] + a[3] * a[0] / 2 for a in axes]
    items = [{"kind": "too_long", "point": inside + [0.5]},
             {"kind": "too_short", "point": inside[:-1]}]
    k = rng.randrange(d)
    for bad in (float("nan"), float("inf"), float("-inf")):
        pt = list(inside)
        pt[k] = bad
        items.append({"kind": "nonfinite", "axis": k, "periodic": axes[k][1], "point": pt})
    return items


def gen_case(rng, kind=None, jit=False, index=0):
    gs = gen_grid(rng, kind)
    axes = grid_axes(gs)
    fs = gen_field(rng, gs, axes)
    dyadic = gs["dyadic"]
    npts = 10 if jit else 14
    pts, meta = [], []
    classes = list(POINT_CLASSES)
    rng.shuffle(classes)
    for k in range(npts):
        cls = classes[k % len(classes)]
        xs, p, cls, used = gen_point(rng, axes, dyadic, cls)
        where = classify(axes, p)
        if where == "boundary":
            continue
        pts.append(p)
        meta.append({"cls": cls, "xs": xs, "where": where, "kinds": used})
    fill = rng.choice([0.0, -1.0, 7.5, 42.0])
    bc, sides = gen_bc(rng, gs, axes, dyadic)
    probes = gen_bc_probes(rng, axes, sides, dyadic)
    # cell-coordinate points for make_single_interpolator(cell_coords=True)
    # (cell coordinates as grid.transform(.., "cell") defines them: cell i spans [i, i+1]; `xs` counts from the centre of cell 0)
    cell_points = [[x + 0.5 for x in m["xs"]] for m in meta]
    # inserts: interior points mostly, some outside (error class), amounts per component
    ncomp = grid_dim(gs) ** fs["rank"]
    inserts = []
    for p, m in zip(pts, meta):
        if len(inserts) >= (5 if jit else 8):
            break
        am = [(rng.randint(-8, 8) / 2 or 1.0) if dyadic else rng.uniform(-3, 3) for _ in range(ncomp)]
        inserts.append((p, am))
    spec = {"grid": gs, "field": fs, "points": pts, "fill": fill, "bc": bc, "probes": probes,
            "cell_points": cell_points, "inserts": inserts}
    ncell = len(fs["comps"][0])
    if jit:
        # every compiled function costs seconds: one plain interpolator, one ghost-cell interpolator, one inserter
        # (alternating between the plain and the ghost-cell inserter so that both are compiled on every grid kind)
        spec["jit"] = True
        spec["ops"] = [rng.choice(["interp", "interp_fill"]), "interp_bc", "insert",
                       "insert_comp_ghost" if index % 2 else "insert_comp"]
        spec["bc_fills"] = [rng.random() < 0.5]
        if index % 4 == 0:  # complex / integer data compile further specialisations: a subset only
            spec["ops"] += ["cplx", "intdata"]
            spec["cplx_points"] = 5
    else:
        spec["ops"] = ["axis", "interp", "interp_fill", "single_cc", "interp_bc", "insert", "insert_comp",
                       "insert_comp_ghost", "malformed"]
        spec["malformed"] = gen_malformed(rng, axes)
        if index % 2 == 0:
            spec["ops"] += ["cplx", "intdata"]
            spec["cplx_points"] = 8
    if "cplx" in spec["ops"]:
        spec["imag"] = [[(rng.randint(-40, 40) / 4) if dyadic else rng.uniform(-5, 5) for _ in range(ncell)]
                        for _ in range(ncomp)]
        spec["ints"] = [[rng.randint(-9, 9) for _ in range(ncell)] for _ in range(ncomp)]
    if fs["rank"] == 0 and rng.random() < 0.6:
        g2 = gen_grid2(rng, gs)
        if g2 is not None:
            spec["grid2"] = g2
            spec["ops"] = spec["ops"] + ["to_grid"]
            if jit:  # reuse the interpolators compiled above
                spec["to_grid_variants"] = ["fill" if "interp_fill" in spec["ops"] else "nofill"]
                if spec["bc_fills"] == [True]:
                    spec["to_grid_variants"].append("bc")
    return spec, axes, meta, sides


def lattice_cases(rng, thorough):
    """deterministic sweep: small dyadic Cartesian grids (1 and 2 axes, every periodicity pattern), points on a
    regular lattice of cell coordinates reaching 1.5 cells beyond both ends - every tie (integer and half-integer
    cell coordinate), every branch; all numbers exactly representable, so compared exactly"""
    out = []
    shapes1 = [[n] for n in ((1, 2, 3, 4, 5, 6) if thorough else (1, 2, 3))]
    shapes2 = [[1, 1], [1, 2], [2, 1], [2, 2]] + ([[3, 2], [2, 3]] if thorough else [])
    for shape in shapes1 + shapes2:
        d = len(shape)
        step = (0.125 if thorough else 0.25) if d == 1 else (0.25 if thorough else 0.5)
        for periodic in itertools.product([False, True], repeat=d):
            los, dxs = [-0.75, 0.5][:d], [0.5, 2.0][:d]
            gs = {"cls": "CartesianGrid", "shape": shape, "periodic": list(periodic), "dyadic": True,
                  "bounds": [[lo, lo + n * dx] for lo, dx, n in zip(los, dxs, shape)]}
            axes = grid_axes(gs)
            fs = gen_field(rng, gs, axes, rank=0, kind="dyadic")
            per_axis = []
            for n in shape:
                k0, k1 = round(-2.0 / step), round((n + 1.0) / step)
                per_axis.append([k * step for k in range(k0, k1 + 1)])
            pts, meta = [], []
            for xs in itertools.product(*per_axis):
                p = [a[2] + (x + 0.5) * a[3] for x, a in zip(xs, axes)]
                # points exactly on the domain boundary stay in the sweep: all numbers are dyadic, so model and
                # code must agree exactly there too (correspondence legs); the monitors skip them (`boundary`)
                where = classify(axes, p)
                pts.append(p)
                meta.append({"cls": "lattice", "xs": list(xs), "where": where,
                             "kinds": [axis_kind(a[0], x) for a, x in zip(axes, xs)]})
            bc, sides = gen_bc(rng, gs, axes, True)
            spec = {"grid": gs, "field": fs, "points": pts, "fill": -1.0, "bc": bc, "probes": [],
                    "cell_points": [[x + 0.5 for x in m["xs"]] for m in meta], "inserts": [(p, [1.5]) for p in pts],
                    "ops": ["axis", "interp", "interp_fill", "single_cc", "interp_bc", "insert", "insert_comp",
                            "insert_comp_ghost"]}
            out.append((spec, axes, meta, sides))
    return out


def gen_grid2(rng, gs):
    """target grid for interpolate_to_grid: same class, other shape, bounds inside / overlapping / beyond; for the
    curvilinear classes also a Cartesian target of the same dimension (the route through `grid.transform`)"""
    g2 = dict(gs)
    mode = rng.choice(["inside", "same", "beyond"])
    g2["shape"] = [rng.choice([1, 2, 3, 4, 5]) for _ in gs["shape"]]
    if len(gs["shape"]) == 3:
        g2["shape"] = [rng.choice([1, 2, 3]) for _ in gs["shape"]]

    def sub(lo, hi):
        L = hi - lo
        if mode == "same":
            return [lo, hi]
        if mode == "inside":
            a = lo + L * rng.choice([0.0, 0.125, 0.25])
            return [a, a + L * rng.choice([0.25, 0.5, 0.625])]
        return [lo - L * rng.choice([0.25, 0.5]), hi + L * rng.choice([0.0, 0.25, 1.0])]

    c = gs["cls"]
    if c == "UnitGrid":
        if mode == "beyond":
            g2["shape"] = [n + rng.choice([1, 2]) for n in gs["shape"]]
        g2["periodic"] = [False] * len(gs["shape"])
        return g2
    if c == "CartesianGrid":
        g2["bounds"] = [sub(lo, hi) for lo, hi in gs["bounds"]]
        g2["periodic"] = [False] * len(gs["shape"])
        return g2
    if rng.random() < 0.4:  # Cartesian target for a polar / spherical / cylindrical source
        dim = grid_dim(gs)
        R = gs["radius"][1]
        ext = R * rng.choice([0.5, 0.7, 1.0, 1.5])  # 0.7: the square / cube inscribed in the disk / ball
        bounds = [[-ext, ext] for _ in range(dim)]
        if c == "CylindricalSymGrid":
            bounds[2] = sub(*gs["bounds_z"])
        return {"cls": "CartesianGrid", "shape": [rng.choice([1, 2, 3]) for _ in range(dim)], "bounds": bounds,
                "periodic": [False] * dim, "dyadic": False}
    if c in ("PolarSymGrid", "SphericalSymGrid"):
        lo, hi = sub(*gs["radius"])
        g2["radius"] = [max(lo, 0.0), hi]
        return g2
    lo, hi = sub(*gs["radius"])
    g2["radius"] = [max(lo, 0.0), hi]
    g2["bounds_z"] = sub(*gs["bounds_z"])
    g2["periodic"] = [False, False]
    return g2


def target_points(gs, gs2):
    """the centres of the cells of the target grid in the coordinates of the source grid, computed from the
    grid descriptions alone (Cartesian target of a curvilinear source: r = |x|, resp. (|(x, y)|, z))"""
    ax2 = grid_axes(gs2)
    centres = [[lo + (i + 0.5) * dx for i in range(n)] for n, _per, lo, dx in ax2]
    out = []
    for c in itertools.product(*centres):
        if gs2["cls"] == "CartesianGrid" and gs["cls"] == "PolarSymGrid":
            out.append([math.hypot(c[0], c[1])])
        elif gs2["cls"] == "CartesianGrid" and gs["cls"] == "SphericalSymGrid":
            out.append([math.sqrt(c[0] ** 2 + c[1] ** 2 + c[2] ** 2)])
        elif gs2["cls"] == "CartesianGrid" and gs["cls"] == "CylindricalSymGrid":
            out.append([math.hypot(c[0], c[1]), c[2]])
        else:
            out.append(list(c))
    return out


# ==========================================================================================
# evaluation of one worker result: model requests, comparison, monitors
# ==========================================================================================
class Eval:
    def __init__(self, ctx, batch):
        self.ctx = ctx
        self.batch = batch
        self.pending = []  # (request index, callback)

    def ask(self, fn, args, cb):
        self.pending.append((self.batch.add(fn, args), cb))

    def finish(self):
        resps = self.batch.run()
        for i, cb in self.pending:
            st, val = resps[i]
            cb(st, val)
        self.pending = []


def small_case(spec, op, **kw):
    """replayable case record: grid + field + what was done"""
    c = {"grid": spec["grid"], "field": spec["field"], "op": op, "jit": spec.get("jit", False)}
    c.update(kw)
    return c


def count_key(spec, op, **kw):
    f = spec["field"]
    c = {"grid": {k: v for k, v in spec["grid"].items()}, "rank": f["rank"], "field_kind": f["kind"],
         "field_fingerprint": round(sum((i + 1) * v for c in f["comps"] for i, v in enumerate(c)), 9),
         "op": op, "jit": spec.get("jit", False)}
    c.update(kw)
    return c


def scale_of(comps, extra=0.0):
    return max(1.0, max((abs(v) for c in comps for v in c), default=0.0), abs(extra))


def evaluate(ctx, ev, spec, axes, meta, sides, res):
    """compare one worker result with the model and run the monitors"""
    if isinstance(res, str):
        ctx.disagree("worker", small_case(spec, "worker"), "worker ran", res, "the worker raised")
        return
    gs, fs = spec["grid"], spec["field"]
    comps = fs["comps"]
    exact = bool(gs["dyadic"] and fs["kind"] in ("dyadic", "constant") or
                 (gs["dyadic"] and fs["kind"] == "affine"))
    jit = res["jit"]
    mode = "J" if jit else "S"
    pts = spec["points"]
    shape = [a[0] for a in axes]
    nontrivial_field = fs["kind"] != "constant"
    scale = scale_of(comps, spec["fill"] or 0.0)
    raxes = [tuple(a) for a in res["axes"]]
    if raxes != [tuple(a) for a in axes]:
        ctx.disagree("grid", small_case(spec, "axes"), axes, raxes, "grid description differs between processes")
        return
    ctx.hist("grid", gs["cls"] + f"/{len(shape)}ax" + ("/per" if any(a[1] for a in axes) else ""))
    ctx.hist("cells_per_axis", ",".join(str(n) for n in shape))
    ctx.hist("rank", fs["rank"])
    ctx.hist("field", fs["kind"])
    ctx.hist("mode", mode)

    # ---------------- axis data -------------------------------------------------------------
    if "axis" in res:
        for (a, ghost, cc), real in res["axis"].items():
            coords = [p[a] for p in pts]  # the worker hands p[a] to get_axis_data for both settings of cc
            def cb(st, val, a=a, ghost=ghost, cc=cc, real=real, coords=coords):
                if st != "ok":
                    ctx.disagree("axis", small_case(spec, "axis"), "model error " + str(val), None)
                    return
                for k, (mv, rv) in enumerate(zip(val, real)):
                    ctx.impl_traces += 1
                    br = "oob" if rv is None else ("periodic" if axes[a][1] else
                                                  ("ghost" if ghost else ("strip" if rv[0] == rv[1] else "bulk")))
                    ctx.hist("axis_branch", br)
                    if rv is not None and min(rv[0], rv[1]) < 0:
                        ctx.hist("observation", "get_axis_data returned index -1 at a rounding tie (cell coordinate "
                                 "-1e-17: divmod gives (-1, 1.0)); weight 0 or wrap-around onto the same cell")
                    if not same_axis(mv, rv, exact and not cc, axes[a][0] + (2 if ghost else 0)):
                        ctx.disagree("axis", small_case(spec, "axis", axis=a, ghost=ghost, cc=cc, coord=coords[k]),
                                     mv, rv, "get_axis_data differs from axisData")
            ev.ask("c16.axis", req_axis(axes, a, ghost, cc, coords), cb)

    # ---------------- interpolate without bc ------------------------------------------------
    def monitor_point(k, real, leg, with_fill):
        """property monitors for one point of the plain (no bc) interpolation"""
        m, p = meta[k], pts[k]
        case = small_case(spec, leg, point=p, cls=m["cls"], fill=spec["fill"] if with_fill else None)
        if m["where"] == "boundary":
            ctx.hist("outcome", "on the boundary (correspondence only)")
            return
        ctx.monitor_evals += 1
        ref = ref_interp(axes, comps, p)
        if m["where"] == "outside":
            ctx.hist("outcome", "outside")
            if with_fill:
                ok = not isinstance(real, str) and all(v == spec["fill"] for v in real)
            else:
                ok = real == "ERR:DomainError"
            if not ok or ref is not None:
                ctx.monitor_fail(leg, case, real, "DomainError" if not with_fill else spec["fill"],
                                 "point clearly outside the domain must raise or return the fill value",
                                 key={"op": leg, "cls": m["cls"]})
            return
        ctx.hist("outcome", "value")
        if isinstance(real, str) or ref is None:
            ctx.monitor_fail(leg, case, real, ref, "point inside the domain must be interpolated",
                             key={"op": leg, "cls": m["cls"]})
            return
        tol = TOL * scale
        if any(far(r - e, tol) for r, e in zip(real, ref)):
            what = "value differs from the multilinear interpolant"
            if m["cls"] == "centres":
                what = "value at a cell centre differs from the cell value"
            elif m["cls"] in ("seam", "wrapped"):
                what = "value differs from the periodic multilinear interpolant"
            elif m["cls"] in ("strip", "domain_corner"):
                what = "value in the boundary strip differs from nearest-cell (multi)linear interpolation"
            ctx.monitor_fail(leg, case, real, ref, what, key={"op": leg, "cls": m["cls"]})
            return
        for c, r in zip(comps, real):
            if not (min(c) - tol <= r <= max(c) + tol):
                ctx.monitor_fail(leg, case, r, [min(c), max(c)], "interpolated value outside the range of the data",
                                 key={"op": leg, "cls": m["cls"]})
                return
        if fs["kind"] == "affine" and all(kd in ("centre", "face", "bulk") for kd in m["kinds"]):
            for cf, r in zip(fs["coef"], real):
                e = cf[0] + sum(b * c for b, c in zip(cf[1:], p))
                if far(r - e, tol * 4):
                    ctx.monitor_fail(leg, case, r, e, "affine field not reproduced exactly between centres",
                                     key={"op": leg, "cls": m["cls"]})
                    return

    for leg, with_fill in (("interp", False), ("interp_fill", True)):
        if leg not in res:
            continue
        real_all = res[leg]
        if isinstance(real_all, str):
            ctx.disagree(leg, small_case(spec, leg), "values", real_all, "batched interpolate failed")
            continue
        for k in range(len(pts)):
            ctx.count(count_key(spec, leg, point=pts[k]),
                      nontrivial=nontrivial_field and meta[k]["where"] == "inside", leg=f"{leg}/{mode}")
            ctx.hist("point_class", meta[k]["cls"])
            monitor_point(k, real_all[k], leg, with_fill)

        def cb(st, val, leg=leg, real_all=real_all, with_fill=with_fill):
            if st != "ok":
                ctx.disagree(leg, small_case(spec, leg), "model error " + str(val), None)
                return
            for k, (mv, rv) in enumerate(zip(val, real_all)):
                ctx.impl_traces += 1
                if not same_vals(mv, rv, scale, exact):
                    ctx.disagree(leg, small_case(spec, leg, point=pts[k], cls=meta[k]["cls"],
                                                 fill=spec["fill"] if with_fill else None),
                                 mv, rv, "interpolate differs from interpN")
        ev.ask("c16.interp", req_interp(axes, shape, comps, pts, fill=spec["fill"] if with_fill else None), cb)

    # ---------------- make_single_interpolator(cell_coords=True) ----------------------------
    if "single_cc" in res:
        real_all = res["single_cc"]
        cps = spec["cell_points"]

        def cb(st, val, real_all=real_all):
            if st != "ok":
                ctx.disagree("single_cc", small_case(spec, "single_cc"), "model error " + str(val), None)
                return
            for k, (mv, rv) in enumerate(zip(val, real_all)):
                ctx.impl_traces += 1
                # with a fill value the real function returns the fill for out-of-bounds points
                if not same_vals(mv, rv, scale, False):
                    ctx.disagree("single_cc", small_case(spec, "single_cc", cell_point=cps[k], fill=spec["fill"]),
                                 mv, rv, "make_single_interpolator(cell_coords=True) differs from interpN")
        for k in range(len(cps)):
            ctx.count(count_key(spec, "single_cc", point=cps[k]),
                      nontrivial=nontrivial_field and meta[k]["where"] == "inside", leg=f"single_cc/{mode}")
            # literal clause: a point given in CELL coordinates is the same point as its grid coordinates
            # lo + c*dx, so the interpolant must be the same (cell centres i + 1/2 return the cell's value)
            if meta[k]["where"] == "inside" and not isinstance(real_all[k], str):
                ctx.monitor_evals += 1
                ref = ref_interp(axes, comps, [a[2] + c * a[3] for c, a in zip(cps[k], axes)])
                if ref is not None and any(far(r - e, 1e-9 * scale) for r, e in zip(real_all[k], ref)):
                    ctx.monitor_fail("single_cc", small_case(spec, "single_cc", cell_point=cps[k], fill=spec["fill"]),
                                     real_all[k], ref, "make_single_interpolator(cell_coords=True) is not the interpolant at "
                                     "the point lo + c*dx", key={"op": "single_cc", "what": "cell coordinates"})
        ev.ask("c16.interp", req_interp(axes, shape, comps, cps, cc=True, fill=spec["fill"]), cb)

    # ---------------- interpolate with bc (ghost-cell mode) ---------------------------------
    if "interp_bc" in res:
        probes = spec["probes"]
        allp = pts + [pr["p"] for pr in probes]
        # the padded arrays as the data and the imposed conditions DEFINE them (independent of the real ghost cells)
        refpad = pad_reference(axes, comps, sides)
        fshape = [n + 2 for n in shape]
        if res["full_shape"] != fshape:
            ctx.disagree("interp_bc", small_case(spec, "interp_bc", bc=spec["bc"]), fshape, res["full_shape"],
                         "shape of the padded array")
        fscale = scale_of([[float(v) for v in a.reshape(-1) if math.isfinite(v)] for a in refpad], spec["fill"] or 0.0)
        btol = TOL * fscale
        # every ghost cell the interpolator can read must hold the value the conditions define: judged on the
        # interpolant at a witness point inside the domain that reads this cell (re-run by the replay)
        real_full = [np.array(c, dtype=float).reshape(res["full_shape"]) for c in res["data_full"]] \
            if res["full_shape"] == fshape else []
        for c, (rf, pf) in enumerate(zip(real_full, refpad)):
            ctx.monitor_evals += 1
            for idx in readable_ghost_cells(axes):
                if far(rf[idx] - pf[idx], btol):
                    ctx.monitor_fail("interp_bc", small_case(spec, "interp_bc", bc=spec["bc"], point=witness_point(axes, idx),
                                                             ghost_cell=list(idx), component=c),
                                     float(rf[idx]), float(pf[idx]),
                                     "ghost cell read by interpolate(bc=..) is not what the imposed conditions define "
                                     "(faces from the condition, edges / corners the mean of the adjacent ghost cells)",
                                     key={"op": "interp_bc", "symptom": "ghost-cell-value", "ghost_axes": str(sum(
                                         1 for i, n in zip(idx, shape) if i in (0, n + 1)))})
                    break
        # the model of the padded array (`padFull`: ghost cells as a function of the imposed conditions, edges / corners
        # the mean of the adjacent ghost cells) against the real `_data_full` on every cell the interpolator can read
        if real_full:
            pad_cells = list(readable_ghost_cells(axes)) + list(itertools.product(*[range(1, n + 1) for n in shape]))
            pad_case = small_case(spec, "pad_bc", bc=spec["bc"])
            ctx.count(count_key(spec, "pad_bc", bc=spec["bc"]), nontrivial=nontrivial_field, leg=f"pad_bc/{mode}")
            ctx.hist("pad_bc", f"{len(shape)} axes/" + ("corner cells" if sum(1 for sd in sides if sd is not None) >= 2
                                                          else "faces only"))

            def cb_pad(st, val, real_full=real_full, pad_case=pad_case, pad_cells=pad_cells, fshape=fshape, btol=btol):
                if st != "ok":
                    ctx.disagree("pad_bc", pad_case, "model error " + str(val), None)
                    return
                ctx.impl_traces += 1
                for c, (rf, flat) in enumerate(zip(real_full, val)):
                    m = np.array([float(fr(v)) for v in flat], dtype=float).reshape(fshape)
                    for idx in pad_cells:
                        if far(m[idx] - rf[idx], btol):
                            ctx.hist("model_tie_disagreement", "pad_bc")
                            ctx.disagree("pad_bc", dict(pad_case, ghost_cell=list(idx), component=c), float(m[idx]),
                                         float(rf[idx]), "padFull differs from _data_full after set_ghost_cells(bc, "
                                         "set_corners=True)")
                            return
            ev.ask("c16.pad", {"axes": jaxes(axes), "sides": [None if sd is None else [[k_, q(v_)] for k_, v_ in sd]
                                                              for sd in sides],
                               "data": [[q(v) for v in c] for c in comps]}, cb_pad)
        for with_fill in (False, True):
            if with_fill not in res["interp_bc"]:
                continue
            real_all = res["interp_bc"][with_fill]
            leg = "interp_bc_fill" if with_fill else "interp_bc"
            if isinstance(real_all, str):
                ctx.disagree(leg, small_case(spec, leg, bc=spec["bc"]), "values", real_all, "interpolate(bc=..) failed")
                continue
            matches_ref = {}
            for k in range(len(allp)):
                p = allp[k]
                where = meta[k]["where"] if k < len(pts) else classify(axes, p)
                inside = where == "inside"
                ctx.count(count_key(spec, leg, point=p, bc=spec["bc"]),
                          nontrivial=nontrivial_field and inside, leg=f"{leg}/{mode}")
                if where == "boundary":
                    continue
                pcase = small_case(spec, leg, point=p, bc=spec["bc"], fill=spec["fill"] if with_fill else None)
                ctx.monitor_evals += 1
                rv = real_all[k]
                if where == "outside":  # outside raises / fills also in ghost mode
                    ok = (all(v == spec["fill"] for v in rv) if not isinstance(rv, str) else False) if with_fill \
                        else rv == "ERR:DomainError"
                    if not ok:
                        ctx.monitor_fail(leg, pcase, rv, "DomainError / fill", "point clearly outside the domain must raise "
                                         "or return the fill value (bc mode)", key={"op": leg})
                    continue
                if isinstance(rv, str):
                    ctx.monitor_fail(leg, pcase, rv, "a value",
                                     "point inside the domain must be interpolated (bc mode)", key={"op": leg})
                    continue
                strips = strip_axes(axes, p)
                ctx.hist("bc_region", {0: "between centres", 1: "face strip", 2: "corner square / edge bar",
                                       3: "corner cube"}[len(strips)])
                # (1) the multilinear interpolant of the data extended by the ghost cells the conditions define
                refv = ref_interp_ghost(axes, refpad, p)
                if refv is None or any(far(r - e, btol) for r, e in zip(rv, refv)):
                    ctx.monitor_fail(leg, pcase, rv, refv, "interpolation with bc differs from the multilinear interpolant "
                                     "of the data extended by the ghost cells which the imposed conditions define",
                                     key={"op": leg, "symptom": "ghost-cell-interpolant", "ghost_axes": str(len(strips))})
                    continue
                matches_ref[k] = True
                # (2) away from non-periodic boundaries the bc must not matter
                if not strips:
                    ref = ref_interp(axes, comps, p)
                    if ref is not None and any(far(r - e, TOL * scale) for r, e in zip(rv, ref)):
                        ctx.monitor_fail(leg, pcase, rv, ref, "bc changes the interpolant between cell centres",
                                         key={"op": leg})
                        continue
                # (3) imposed values only: never outside the range of the data and the boundary values
                if all(sides[ax][1 if up else 0][0] == "value" for ax, up in strips):
                    vals_bc = [sides[ax][1 if up else 0][1] for ax, up in strips]
                    for c, r in zip(comps, rv):
                        lo_r, hi_r = min(list(c) + vals_bc), max(list(c) + vals_bc)
                        if not (lo_r - btol <= r <= hi_r + btol):
                            corner = len(strips) >= 2
                            ctx.monitor_fail(leg, pcase, r, [lo_r, hi_r],
                                             "interpolation with bc leaves the range of the data and the imposed boundary "
                                             "values" + (" in a corner square (corner ghost cell = mean of the adjacent "
                                                         "ghost cells)" if corner else ""),
                                             key=dict(KNOWN_CORNER, op=leg) if corner else {"op": leg, "symptom": "range"})
                            break
            # (4) the literal clause: along the inward normal the interpolant approaches the imposed boundary value
            # linearly (imposed derivative: keeps that slope) - from the value f1 it has on the first / last layer
            # of cell centres (t = 1) to the face (t -> 0)
            first = {pr["line"]: len(pts) + j for j, pr in enumerate(probes) if pr["t"] == 1.0}
            for j, pr in enumerate(probes):
                k = len(pts) + j
                rv, r1 = real_all[k], real_all[first[pr["line"]]]
                if isinstance(rv, str) or isinstance(r1, str):
                    continue  # reported above
                ctx.monitor_evals += 1
                ax, upper, t = pr["axis"], pr["upper"], pr["t"]
                kind, const = sides[ax][1 if upper else 0]
                dxa = axes[ax][3]
                strips = strip_axes(axes, pr["p"])
                corner = any(k2 != ax for k2, _up in strips)  # a second non-periodic axis within half a cell
                ctx.hist("bc_probe", f"{kind}/{'upper' if upper else 'lower'}/{'corner' if corner else pr['cls']}")
                pcase = small_case(spec, leg, point=pr["p"], bc=spec["bc"], fill=spec["fill"] if with_fill else None,
                                   probe={"axis": ax, "upper": upper, "t": t, "tang": pr["tang"], "cls": pr["cls"]})
                ptol = TOL * max(fscale, abs(const) * dxa) * 4
                if pr["cls"] == "centre" and t == 1.0:
                    # on a cell centre the interpolant is the cell value, with or without bc
                    cidx = [int(x) for x in pr["tang"]]
                    cidx[ax] = axes[ax][0] - 1 if upper else 0
                    flat = 0
                    for i, n in zip(cidx, shape):
                        flat = flat * n + i
                    cells = [c[flat] for c in comps]
                    if any(far(r - e, ptol) for r, e in zip(rv, cells)):
                        ctx.monitor_fail(leg, pcase, rv, cells, "value at a cell centre differs from the cell value (bc mode)",
                                         key={"op": leg, "bc_kind": kind})
                    continue
                if kind == "value":
                    exp = [const + t * (f1 - const) for f1 in r1]
                else:  # outward derivative `const`: the interpolant continues with that slope
                    exp = [f1 + const * (dxa / 2) * (1 - t) for f1 in r1]
                if any(far(r - e, ptol) for r, e in zip(rv, exp)):
                    documented = corner and matches_ref.get(k) and matches_ref.get(first[pr["line"]])
                    ctx.monitor_fail(leg, pcase, rv, exp,
                                     f"interpolation with bc does not approach the imposed boundary {kind} linearly"
                                     + (" in a corner square (corner ghost cell = mean of the adjacent ghost cells)"
                                        if documented else ""),
                                     key=dict(KNOWN_CORNER, op=leg, bc_kind=kind) if documented
                                     else {"op": leg, "bc_kind": kind})

            def cb(st, val, leg=leg, real_all=real_all, with_fill=with_fill):
                if st != "ok":
                    ctx.disagree(leg, small_case(spec, leg, bc=spec["bc"]), "model error " + str(val), None)
                    return
                for k, (mv, rv) in enumerate(zip(val, real_all)):
                    ctx.impl_traces += 1
                    if not same_vals(mv, rv, fscale, False):
                        ctx.disagree(leg, small_case(spec, leg, point=allp[k], bc=spec["bc"],
                                                     fill=spec["fill"] if with_fill else None),
                                     mv, rv, "interpolate(bc=..) differs from interpN in ghost mode on the padded "
                                     "array defined by the conditions")
            # the model works on the independently padded array, not on the ghost cells the real code produced
            ev.ask("c16.interp", req_interp(axes, fshape, [[float(v) for v in a.reshape(-1)] for a in refpad], allp,
                                            ghost=True, fill=spec["fill"] if with_fill else None), cb)

    # ---------------- interpolate_to_grid ---------------------------------------------------
    if "to_grid" in res:
        gp = res["grid2_points"]
        # the new cell centres in the coordinates of the source grid, from the grid descriptions alone
        gp_ref = target_points(gs, spec["grid2"])
        ctx.monitor_evals += 1
        if len(gp) != len(gp_ref) or any(far(x - y, 1e-12 * (1 + abs(y))) for pa, pb in zip(gp, gp_ref) for x, y in zip(pa, pb)):
            ctx.monitor_fail("to_grid_points", small_case(spec, "to_grid_points", grid2=spec["grid2"]), gp[:6], gp_ref[:6],
                             "interpolate_to_grid does not evaluate at the centres of the new cells", key={"op": "to_grid_points"})
        route = "cartesian-from-" + gs["cls"] if spec["grid2"]["cls"] != gs["cls"] else "same-class"
        for name, real in res["to_grid"].items():
            leg = "to_grid_" + name
            ctx.count(count_key(spec, leg, grid2=spec["grid2"]), nontrivial=nontrivial_field, leg=f"{leg}/{mode}")
            where = [classify(axes, p) for p in gp_ref]
            if any(w == "boundary" for w in where):
                ctx.hist("to_grid", "skipped-boundary-point")
                continue
            any_out = any(w == "outside" for w in where)
            ctx.hist("to_grid", name + ("/outside" if any_out else "/inside") + "/" + route)
            ctx.monitor_evals += 1
            case = small_case(spec, leg, grid2=spec["grid2"], fill=spec["fill"], bc=spec["bc"] if name == "bc" else None)
            ghost = name == "bc"
            if name == "nofill":
                refs = [ref_interp(axes, comps, p) for p in gp_ref]
                if any_out:
                    if real != "ERR:DomainError":
                        ctx.monitor_fail(leg, case, real, "DomainError", "interpolate_to_grid beyond the domain must raise",
                                         key={"op": leg})
                elif isinstance(real, str) or len(real) != len(refs) or \
                        any(far(r - e[0], TOL * scale) for r, e in zip(real, refs)):
                    ctx.monitor_fail(leg, case, real, [e[0] for e in refs],
                                     "interpolate_to_grid differs from the multilinear interpolant at the new cell centres",
                                     key={"op": leg})
            elif name == "fill":
                refs = [ref_interp(axes, comps, p) for p in gp_ref]
                exp = [spec["fill"] if e is None else e[0] for e in refs]
                if isinstance(real, str) or len(real) != len(exp) or any(far(r - e, TOL * scale) for r, e in zip(real, exp)):
                    ctx.monitor_fail(leg, case, real, exp, "interpolate_to_grid(fill=..) differs from interpolant / fill",
                                     key={"op": leg})
            else:  # bc: the interpolant of the data extended by the ghost cells the conditions define, fill outside
                refpad = pad_reference(axes, comps, sides)
                refs = [ref_interp_ghost(axes, refpad, p) for p in gp_ref]
                exp = [spec["fill"] if e is None else e[0] for e in refs]
                gtol = TOL * scale_of([[float(v) for v in refpad[0].reshape(-1)]], spec["fill"] or 0.0)
                if isinstance(real, str) or len(real) != len(exp) or any(far(r - e, gtol) for r, e in zip(real, exp)):
                    ctx.monitor_fail(leg, case, real, exp, "interpolate_to_grid(bc=..) differs from the interpolant of the data "
                                     "extended by the ghost cells which the imposed conditions define / fill",
                                     key={"op": leg, "symptom": "ghost-cell-interpolant"})
                else:
                    for p, r in zip(gp_ref, real):
                        strips = strip_axes(axes, p) if classify(axes, p) == "inside" else None
                        if strips is None or not all(sides[ax][1 if up else 0][0] == "value" for ax, up in strips):
                            continue
                        vals_bc = [sides[ax][1 if up else 0][1] for ax, up in strips]
                        lo_r, hi_r = min(list(comps[0]) + vals_bc), max(list(comps[0]) + vals_bc)
                        if not (lo_r - gtol <= r <= hi_r + gtol):
                            corner = len(strips) >= 2
                            ctx.monitor_fail(leg, dict(case, point=p), r, [lo_r, hi_r],
                                             "interpolation with bc leaves the range of the data and the imposed boundary "
                                             "values" + (" in a corner square (corner ghost cell = mean of the adjacent "
                                                         "ghost cells)" if corner else ""),
                                             key=dict(KNOWN_CORNER, op=leg) if corner else {"op": leg, "symptom": "range"})
                            break
            data = [[float(v) for v in a.reshape(-1)] for a in pad_reference(axes, comps, sides)] if ghost else comps
            shp = [n + 2 for n in shape] if ghost else shape

            def cb(st, val, leg=leg, real=real, case=case, data=data):
                if st != "ok":
                    ctx.disagree(leg, case, "model error " + str(val), None)
                    return
                ctx.impl_traces += 1
                mvals = [v[0] for v in val]
                if any(m is None for m in mvals):
                    ok = real == "ERR:DomainError"
                else:
                    ok = (not isinstance(real, str)) and len(real) == len(mvals) and \
                        all(abs(float(fr(m)) - r) <= TOL * scale_of(data, spec["fill"] or 0) for m, r in zip(mvals, real))
                if not ok:
                    ctx.disagree(leg, case, mvals, real, "interpolate_to_grid differs from interpN at the new cell centres")
            ev.ask("c16.interp", req_interp(axes, shp, data, gp_ref, ghost=ghost, fill=None if name == "nofill" else spec["fill"]), cb)
            if route == "same-class" and len(data) == 1:
                # the model of interpolate_to_grid itself (`interpToGrid`: the centres of the new cells are computed by
                # the model from the description of the target grid)
                def cb2(st, val, leg=leg, real=real, case=case, data=data):
                    if st != "ok":
                        ctx.disagree(leg + "_model", case, "model error " + str(val), None)
                        return
                    ctx.impl_traces += 1
                    if val is None:
                        ok = real == "ERR:DomainError"
                    else:
                        ok = (not isinstance(real, str)) and len(real) == len(val) and \
                            all(abs(float(fr(m)) - r) <= TOL * scale_of(data, spec["fill"] or 0) for m, r in zip(val, real))
                    if not ok:
                        ctx.hist("model_tie_disagreement", leg + "_model")
                        ctx.disagree(leg + "_model", case, val, real, "interpolate_to_grid differs from interpToGrid")
                ctx.hist("to_grid", "interpToGrid/" + name)
                ev.ask("c16.togrid", {"eps": q(EPS), "ghost": ghost, "fill": None if name == "nofill" else q(spec["fill"]),
                                      "axes": jaxes(axes), "shape": list(shp), "data": [q(v) for v in data[0]],
                                      "axes2": jaxes(grid_axes(spec["grid2"]))}, cb2)

    # ---------------- insert ----------------------------------------------------------------
    vol = res["vol"]
    ins_results = {}
    for leg in ("insert", "insert_comp"):
        if leg not in res:
            continue
        for k, ((p, amount), real) in enumerate(zip(spec["inserts"], res[leg])):
            where = classify(axes, p)
            ctx.count(count_key(spec, leg, point=p, amount=amount), nontrivial=where == "inside", leg=f"{leg}/{mode}")
            ctx.hist("insert_where", where)
            ins_results[(leg, k)] = real
            case = small_case(spec, leg, point=p, amount=amount)
            # monitor: amount conserved for interior points
            if where == "inside":
                ctx.monitor_evals += 1
                if isinstance(real, str):
                    ctx.monitor_fail(leg, case, real, "amount inserted", "insert at an interior point raised", key={"op": leg})
                else:
                    for c in range(len(amount)):
                        ib, ia = real["int_before"][c], real["int_after"][c]
                        if far((ia - ib) - amount[c], TOL * (abs(ib) + abs(amount[c]) + 1.0)):
                            ctx.monitor_fail(leg, case, {"before": ib, "after": ia, "change": ia - ib}, amount[c],
                                             "insert at an interior point does not change the integral by the amount",
                                             key={"op": leg, "grid_class": gs["cls"]})
                            break
            elif where == "boundary":
                pass  # membership ill-conditioned: correspondence only
            elif leg == "insert_comp":
                ctx.monitor_evals += 1
                if real != "ERR:DomainError":
                    ctx.monitor_fail(leg, case, "no error", "DomainError", "compiled inserter accepts a point outside the domain",
                                     key={"op": leg})
            elif not isinstance(real, str):
                ctx.hist("observation", "interpreted insert accepts a point up to half a cell outside")
            # correspondence, all components in one request
            def cb(st, vals, leg=leg, real=real, case=case, amount=amount):
                ctx.impl_traces += 1
                if st != "ok":
                    ctx.disagree(leg, case, "model error " + str(vals), None)
                    return
                for c, val in enumerate(vals):
                    before = fs["comps"][c]
                    if val is None or isinstance(real, str):
                        if not (val is None and real == "ERR:DomainError"):
                            ctx.disagree(leg, case, val if val is None else "data", real if isinstance(real, str) else "data",
                                         "insert: error behaviour differs")
                        return
                    n = len(before)
                    ra = real["after"][c * n:(c + 1) * n]
                    sc = max(1.0, max(abs(v) for v in before)) + abs(amount[c]) / min(vol)
                    for m, r in zip(val["data"], ra):
                        if (fr(m) != Fraction(r)) if (exact and gs["cls"] in ("UnitGrid", "CartesianGrid")) \
                                else far(float(fr(m)) - r, TOL * sc):
                            ctx.disagree(leg, case, [float(fr(x)) for x in val["data"]], ra,
                                         f"insert: new data differs (component {c})")
                            return
                    # the integral of the model (`integral` = sum data*vol) against `field.integral` of the real field
                    isc = TOL * (sum(abs(v) * w for v, w in zip(before, vol)) + abs(amount[c]) + 1.0)
                    for nm, mi, ri in (("before", val["before"], real["int_before"][c]),
                                       ("after", val["after"], real["int_after"][c])):
                        if far(float(fr(mi)) - ri, isc):
                            ctx.disagree(leg, case, float(fr(mi)), ri,
                                         f"insert: field.integral {nm} the insertion differs from the model's integral "
                                         f"(component {c})")
                            return
            ev.ask("c16.insert", req_insert(axes, vol, fs["comps"], p, amount,
                                            "interp" if leg == "insert" else "comp"), cb)
    # monitor: compiled inserter = interpreted insert on interior points
    for k, (p, amount) in enumerate(spec["inserts"]):
        a, b = ins_results.get(("insert", k)), ins_results.get(("insert_comp", k))
        if a is None or b is None or classify(axes, p) != "inside":
            continue
        ctx.monitor_evals += 1
        case = small_case(spec, "insert_vs_comp", point=p, amount=amount)
        if isinstance(a, str) or isinstance(b, str):
            ctx.monitor_fail("insert_vs_comp", case, [str(a)[:40], str(b)[:40]], "both succeed",
                             "interpreted and compiled inserter disagree about an interior point", key={"op": "insert_vs_comp"})
            continue
        sc = max(1.0, max(abs(v) for v in a["before"])) + max(abs(x) for x in amount) / min(vol)
        if any(far(x - y, TOL * sc) for x, y in zip(a["after"], b["after"])):
            ctx.monitor_fail("insert_vs_comp", case, b["after"], a["after"],
                             "compiled inserter differs from interpreted insert at an interior point",
                             key={"op": "insert_vs_comp"})


# ==========================================================================================
# ghost-mode compiled inserter (NumbaBackend.make_inserter(with_ghost_cells=True))
# ==========================================================================================
def evaluate_ghost_inserter(ctx, ev, spec, axes, res):
    """`make_inserter(grid, with_ghost_cells=True)` on the padded array.  Correspondence with insertCompN in
    ghost mode for every point; monitor at points whose support cells are all valid cells (between centres on
    every non-periodic axis): the integral of the valid data rises by the amount and the valid data equal those
    of the interpreted insert"""
    if "insert_comp_ghost" not in res:
        return
    gs, fs = spec["grid"], spec["field"]
    mode = "J" if res["jit"] else "S"
    uniform = gs["cls"] in ("UnitGrid", "CartesianGrid")
    vol = res["vol"]
    for k, ((p, amount), real) in enumerate(zip(spec["inserts"], res["insert_comp_ghost"])):
        xs = [(c - a[2]) / a[3] - 0.5 for c, a in zip(p, axes)]
        where = classify(axes, p)
        interior = all(a[1] or (1e-9 <= x <= a[0] - 1 - 1e-9) for a, x in zip(axes, xs))
        ctx.count(count_key(spec, "insert_comp_ghost", point=p, amount=amount), nontrivial=where == "inside",
                  leg=f"insert_comp_ghost/{mode}")
        case = small_case(spec, "insert_comp_ghost", point=p, amount=amount)
        # ---- correspondence (padded arrays, all components in one request)
        def cb(st, vals, real=real, case=case, amount=amount):
            ctx.impl_traces += 1
            if st != "ok":
                ctx.disagree("insert_comp_ghost", case, "model error " + str(vals), None)
                return
            for c, val in enumerate(vals):
                if val is None or isinstance(real, str):
                    if not (val is None and real == "ERR:DomainError"):
                        ctx.disagree("insert_comp_ghost", case, val if val is None else "data",
                                     real if isinstance(real, str) else "data", "ghost inserter: error behaviour differs")
                    return
                fb, fa = real["full_before"][c], real["full_after"][c]
                sc = max(1.0, max(abs(v) for v in fb)) + abs(amount[c]) / min(vol)
                if any(far(float(fr(m)) - r, TOL * sc) for m, r in zip(val["data"], fa)):
                    ctx.disagree("insert_comp_ghost", case, [float(fr(x)) for x in val["data"]], fa,
                                 f"ghost inserter: new padded data differ (component {c})")
                    return
                # integrals over the valid cells: model `integral` against `field.integral`
                isc = TOL * (sum(abs(v) * w for v, w in zip(fs["comps"][c], vol)) + abs(amount[c]) * (1 + max(vol) / min(vol)) + 1.0)
                for nm, mi, ri in (("before", val["before"], real["int_before"][c]),
                                   ("after", val["after"], real["int_after"][c])):
                    if far(float(fr(mi)) - ri, isc):
                        ctx.disagree("insert_comp_ghost", case, float(fr(mi)), ri,
                                     f"ghost inserter: field.integral {nm} the insertion differs from the model's integral "
                                     f"(component {c})")
                        return
        if isinstance(real, str):
            # the real call raised before the padded array was recorded: rebuild it (zeros in the ghost layer)
            shape = [a[0] for a in axes]
            fulls = []
            for comp in fs["comps"]:
                arr = np.zeros([n + 2 for n in shape])
                arr[tuple(slice(1, -1) for _ in shape)] = np.array(comp).reshape(shape)
                fulls.append([float(v) for v in arr.reshape(-1)])
        else:
            fulls = real["full_before"]
        ev.ask("c16.insert", req_insert(axes, vol, fulls, p, amount, "comp", ghost=True), cb)
        # ---- monitor
        if not (interior and where == "inside"):
            continue
        ctx.monitor_evals += 1
        key = {"op": "insert_comp_ghost", "grid_class": gs["cls"]}
        if not uniform:
            key["symptom"] = "cell-volume-index-not-shifted"
        ref = res.get("insert", [None] * (k + 1))[k]
        bad = None
        if isinstance(real, str):
            bad = (real, "amount inserted")
        else:
            for c in range(len(amount)):
                ib, ia = real["int_before"][c], real["int_after"][c]
                if not abs((ia - ib) - amount[c]) <= TOL * (abs(ib) + abs(amount[c]) + 1.0):
                    bad = ({"before": ib, "after": ia, "change": ia - ib}, amount[c])
                    break
            if bad is None and isinstance(ref, dict):
                sc = max(1.0, max(abs(v) for v in ref["before"])) + max(abs(x) for x in amount) / min(vol)
                if any(far(x - y, TOL * sc) for x, y in zip(real["after"], ref["after"])):
                    bad = (real["after"], ref["after"])
        if bad:
            ctx.monitor_fail("insert_comp_ghost", case, bad[0], bad[1],
                             "compiled inserter with ghost cells does not add the amount at an interior point",
                             key=key)


# ==========================================================================================
# malformed points, complex and integer data
# ==========================================================================================
def evaluate_extra(ctx, ev, spec, axes, meta, sides, res):
    gs, fs = spec["grid"], spec["field"]
    comps = fs["comps"]
    pts = spec["points"]
    shape = [a[0] for a in axes]
    mode = "J" if res["jit"] else "S"
    ncomp = len(comps)

    # ---------------- malformed points: an error class, never a number ------------------------
    for item, real in zip(spec.get("malformed", []), res.get("malformed", [])):
        ctx.count(count_key(spec, "malformed", point=str(item["point"])), nontrivial=False, leg=f"malformed/{mode}")
        ctx.hist("malformed", item["kind"] + ("/periodic-axis" if item.get("periodic") else ""))
        case = small_case(spec, "malformed", malformed=item, bc=spec["bc"], fill=spec["fill"])
        for name in ("interp", "interp_fill", "interp_bc", "insert"):
            ctx.monitor_evals += 1
            rv = real[name]
            if item["kind"] in ("too_long", "too_short"):
                ok, expected = rv == "ERR:DimensionError", "DimensionError"
            elif name == "insert":
                # a non-finite coordinate: an error; on a periodic axis the interpreted insert writes NaN into
                # the support cells instead (recorded as an observation, no clause of the property covers it)
                ok, expected = isinstance(rv, str) or not all(math.isfinite(v) for v in rv), "an error"
                if not isinstance(rv, str):
                    ctx.hist("observation", "interpreted insert at a NaN/inf coordinate of a periodic axis writes NaN "
                                            "into the field instead of raising")
            elif name == "interp_fill":
                # rejected like any point outside (fill value), or an error / NaN where the coordinate is wrapped
                ok = isinstance(rv, str) or all(v == spec["fill"] or not math.isfinite(v) for v in rv)
                expected = "the fill value or an error"
            else:
                ok = isinstance(rv, str) or not any(math.isfinite(v) for v in rv)
                expected = "an error"
            if not ok:
                ctx.monitor_fail("malformed", dict(case, call=name), rv, expected,
                                 "a malformed point (wrong number of coordinates / non-finite coordinate) is answered "
                                 "with a number", key={"op": "malformed", "call": name, "kind": item["kind"]})
        if item["kind"] in ("too_long", "too_short"):
            def cb(st, val, real=real, case=case):
                ctx.impl_traces += 1
                if st != "ok" or any(v is not None for v in val[0]):
                    ctx.disagree("malformed", case, val, real["interp"], "interpN accepts a point of the wrong length")
            ev.ask("c16.interp", req_interp(axes, shape, comps, [item["point"]]), cb)

    # ---------------- complex data -----------------------------------------------------------------
    if "cplx" in res:
        o = res["cplx"]
        imag = spec["imag"]
        cpts = pts[:spec.get("cplx_points", len(pts))]
        cfill = o["fill"]
        scale = scale_of(comps + imag, max(abs(cfill[0]), abs(cfill[1])))
        ctx.hist("dtype", o["dtype"] + "/" + mode)
        for leg, with_fill in (("cplx_interp", False), ("cplx_interp_fill", True)):
            real_all = o.get("interp_fill" if with_fill else "interp")
            if real_all is None:
                continue
            if isinstance(real_all, str):
                ctx.disagree(leg, small_case(spec, leg, imag=imag), "values", real_all, "interpolate of a complex field failed")
                continue
            for k, p in enumerate(cpts):
                ctx.count(count_key(spec, leg, point=p), nontrivial=meta[k]["where"] == "inside", leg=f"{leg}/{mode}")
                if meta[k]["where"] == "boundary":
                    continue
                ctx.monitor_evals += 1
                rv = real_all[k]
                case = small_case(spec, leg, point=p, imag=imag, fill=spec["fill"])
                rre, rim = ref_interp(axes, comps, p), ref_interp(axes, imag, p)
                if rre is None:
                    ok = (not isinstance(rv, str) and all(v == cfill for v in rv)) if with_fill else rv == "ERR:DomainError"
                    exp = cfill if with_fill else "DomainError"
                else:
                    exp = [[a, b] for a, b in zip(rre, rim)]
                    ok = not isinstance(rv, str) and len(rv) == len(exp) and \
                        not any(far(v[0] - e[0], TOL * scale) or far(v[1] - e[1], TOL * scale) for v, e in zip(rv, exp))
                if not ok:
                    ctx.monitor_fail(leg, case, rv, exp, "interpolation of a complex field is not the multilinear interpolant "
                                     "of its real and imaginary parts (fill / error outside)", key={"op": leg})

            def cb(st, val, leg=leg, real_all=real_all, with_fill=with_fill):
                if st != "ok":
                    ctx.disagree(leg, small_case(spec, leg, imag=imag), "model error " + str(val), None)
                    return
                for k, (mv, rv) in enumerate(zip(val, real_all)):
                    ctx.impl_traces += 1
                    if isinstance(rv, str):
                        ok = rv == "ERR:DomainError" and all(m is None for m in mv)
                    else:
                        ok = all(m is not None for m in mv) and not any(
                            far(float(fr(mv[c])) - rv[c][0], TOL * scale) or far(float(fr(mv[ncomp + c])) - rv[c][1], TOL * scale)
                            for c in range(ncomp))
                    if not ok:
                        ctx.disagree(leg, small_case(spec, leg, point=cpts[k], imag=imag), mv, rv,
                                     "interpolate of a complex field differs from interpN on real and imaginary part")
            rq = req_interp(axes, shape, comps + imag, cpts)
            if with_fill:
                rq["fill"] = [q(cfill[0])] * ncomp + [q(cfill[1])] * ncomp
            ev.ask("c16.interp", rq, cb)
        vol = res["vol"]
        for (p, amount), item in zip(spec["inserts"][:3], o["insert"]):
            if classify(axes, p) != "inside":
                continue
            ctx.count(count_key(spec, "cplx_insert", point=p, amount=amount), nontrivial=True, leg=f"cplx_insert/{mode}")
            ctx.monitor_evals += 1
            case = small_case(spec, "cplx_insert", point=p, amount=amount, imag=imag)
            am = [[a, -0.5 * a] for a in amount]
            bad = None
            for which in ("interp", "comp"):
                r = item[which]
                if isinstance(r, str):
                    bad = (which + ": " + r, "amount inserted")
                    break
                for c in range(len(amount)):
                    for part in (0, 1):
                        ch = r["int_after"][c][part] - r["int_before"][c][part]
                        if far(ch - am[c][part], TOL * (abs(r["int_before"][c][part]) + abs(amount[c]) + 1.0)):
                            bad = ({"inserter": which, "change": ch}, am[c][part])
            if bad is None:
                sc = scale + max(abs(x) for x in amount) / min(vol)
                if any(far(x[0] - y[0], TOL * sc) or far(x[1] - y[1], TOL * sc)
                       for x, y in zip(item["interp"]["after"], item["comp"]["after"])):
                    bad = (item["comp"]["after"], item["interp"]["after"])
            if bad:
                ctx.monitor_fail("cplx_insert", case, bad[0], bad[1], "inserting a complex amount at an interior point does "
                                 "not change the integral by the amount / compiled differs from interpreted",
                                 key={"op": "cplx_insert"})

    # ---------------- integer data -----------------------------------------------------------------
    if "intdata" in res:
        o = res["intdata"]
        ints = spec["ints"]
        ipts = pts[:spec.get("cplx_points", len(pts))]
        scale = scale_of(ints, spec["fill"] or 0.0)
        for variant in ("converted", "int"):
            ctx.hist("dtype", str(o.get(variant + "_dtype")) + "/" + variant + "/" + mode)
            for leg, with_fill in ((f"intdata_{variant}", False), (f"intdata_{variant}_fill", True)):
                real_all = o.get(variant + ("_fill" if with_fill else ""))
                if real_all is None:
                    continue
                if isinstance(real_all, str):
                    ctx.monitor_evals += 1
                    ctx.monitor_fail(leg, small_case(spec, leg, ints=ints), real_all, "values",
                                     "a field of integer data cannot be interpolated", key={"op": leg})
                    continue
                for k, p in enumerate(ipts):
                    ctx.count(count_key(spec, leg, point=p), nontrivial=meta[k]["where"] == "inside", leg=f"{leg}/{mode}")
                    if meta[k]["where"] == "boundary":
                        continue
                    ctx.monitor_evals += 1
                    rv = real_all[k]
                    ref = ref_interp(axes, ints, p)
                    if ref is None:
                        ok = (not isinstance(rv, str) and all(v == spec["fill"] for v in rv)) if with_fill \
                            else rv == "ERR:DomainError"
                        exp = spec["fill"] if with_fill else "DomainError"
                    else:
                        exp = ref
                        ok = not isinstance(rv, str) and len(rv) == len(ref) and \
                            not any(far(r - e, TOL * scale) for r, e in zip(rv, ref))
                    if not ok:
                        key = {"op": leg}
                        if variant == "int":
                            key = {"site": "NumbaBackend.make_interpolator", "dtype": "integer",
                                   "symptom": "result-and-fill-truncated-to-integer", "op": leg}
                        ctx.monitor_fail(leg, small_case(spec, leg, point=p, ints=ints, fill=spec["fill"]), rv, exp,
                                         "interpolation of integer data is not the multilinear interpolant (a real number) "
                                         "/ the fill value", key=key)
                        break


# ==========================================================================================
# compiled against interpreted (the same case in both execution modes)
# ==========================================================================================
def _flat_numbers(x, path=""):
    """(path, number | string) leaves of a worker result"""
    if isinstance(x, dict):
        for k in sorted(x, key=str):
            yield from _flat_numbers(x[k], f"{path}/{k}")
    elif isinstance(x, (list, tuple)):
        for i, v in enumerate(x):
            yield from _flat_numbers(v, f"{path}[{i}]")
    else:
        yield path, x


def evaluate_jit_vs_source(ctx, spec, axes, res_j, res_s):
    """the compiled interpolators / inserters agree with the interpreted ones: the same operations on the same
    inputs in both execution modes, every number of the result compared (relative 1e-12 of the scale of the data:
    the compiler may fuse / reorder floating-point operations)"""
    if isinstance(res_j, str) or isinstance(res_s, str):
        return
    fs = spec["field"]
    scale = scale_of(fs["comps"], spec["fill"] or 0.0)
    amax = max([abs(a) for _p, am in spec["inserts"] for a in am] or [0.0])
    scale = scale + amax / min(res_s["vol"])
    for op in spec["ops"]:
        if op not in res_j or op not in res_s:
            continue
        ctx.monitor_evals += 1
        ctx.count(count_key(spec, "jit_vs_source", what=op), nontrivial=fs["kind"] != "constant", leg="jit_vs_source")
        ctx.hist("compiled", f"{op}/{spec['grid']['cls']}/{len(axes)}ax" + ("/per" if any(a[1] for a in axes) else ""))
        oj, os_ = res_j[op], res_s[op]
        if op == "to_grid" and any(classify(axes, p_) == "boundary" for p_ in res_s.get("grid2_points", [])):
            # a target point within round-off of the domain boundary: membership itself is ill-conditioned there (the
            # statement excludes such points) and the compiled code may round the comparison the other way
            ctx.hist("observation", "to_grid with a target point within round-off of the boundary: modes not compared")
            continue
        if op == "intdata" and (os_.get("int_result_kind", "f") in "iu" or oj.get("int_result_kind", "f") in "iu"):
            # with an integer dtype the unchanged library truncates the interpolant (reported by the leg intdata_int);
            # truncated values are not compared between the modes (a value within round-off of an integer may be cut
            # either way) - the variant that is converted to float is
            ctx.hist("observation", "integer-dtype results are truncated: not compared between compiled and interpreted")
            oj = {k: v for k, v in oj.items() if not k.startswith("int")}
            os_ = {k: v for k, v in os_.items() if not k.startswith("int")}
        lj, ls = list(_flat_numbers(oj)), list(_flat_numbers(os_))
        bad = None
        if len(lj) != len(ls):
            bad = ("structure", len(lj), len(ls))
        else:
            for (pj, vj), (ps, vs) in zip(lj, ls):
                if pj != ps:
                    bad = (pj, vj, vs)
                elif isinstance(vj, str) or isinstance(vs, str) or vj is None or vs is None:
                    if vj != vs:
                        bad = (pj, vj, vs)
                elif isinstance(vj, bool) or isinstance(vs, bool):
                    if vj != vs:
                        bad = (pj, vj, vs)
                elif not (abs(vj - vs) <= 1e-12 * scale) and not (vj != vj and vs != vs):
                    bad = (pj, vj, vs)
                if bad:
                    break
        if bad:
            ctx.monitor_fail("jit_vs_source", small_case(spec, "jit_vs_source", what=op, worker_input=_replayable_spec(spec)),
                             {"where": bad[0], "compiled": bad[1]}, {"interpreted": bad[2]},
                             f"compiled and interpreted {op} disagree", key={"op": "jit_vs_source", "what": op})


def _replayable_spec(spec):
    """the complete worker input of a case (JSON-able), so that a replay performs exactly the recorded operations"""
    return json.loads(json.dumps(spec))


# ==========================================================================================
# entry points
# ==========================================================================================
class NullEval:
    """monitors only (no model requests)"""

    def ask(self, fn, args, cb):
        pass

    def finish(self):
        pass


S_ENV = {"NUMBA_DISABLE_JIT": "1"}
J_ENV = {"NUMBA_DISABLE_JIT": "0"}


def run_workers(specs, jit, workdir, procs=None):
    from harness.common.isolated import run_many

    import os

    wd = os.path.join(workdir, "j" if jit else "s")
    # compiled and source-mode workers run at the same time: 8 + 8 processes
    return run_many("harness.c16", "work", specs, env=J_ENV if jit else S_ENV, procs=procs or 8, workdir=wd)


def eval_all(ctx, ev, cases, results):
    for (spec, axes, meta, sides), res in zip(cases, results):
        evaluate(ctx, ev, spec, axes, meta, sides, res)
        if not isinstance(res, str):
            evaluate_ghost_inserter(ctx, ev, spec, axes, res)
            evaluate_extra(ctx, ev, spec, axes, meta, sides, res)


def gen_cases(rng, n, jit=False):
    return [gen_case(rng, kind=GRID_KINDS[i % len(GRID_KINDS)], jit=jit, index=i) for i in range(n)]


def run(ctx):
    import threading

    from harness.common.lean import LeanBatch

    rng = ctx.rng
    n_s = ctx.budget(450, 6000)
    n_j = ctx.budget(18, 162)  # multiples of 18: every grid kind with the plain and with the ghost-cell inserter
    s_cases = lattice_cases(rng, ctx.tier == "thorough")
    ctx.note(f"{len(s_cases)} lattice-sweep cases (small dyadic grids, all ties, exact comparison) + {n_s} random cases "
             f"in source semantics, {n_j} random cases compiled (each of them also in source semantics and compared)")
    s_cases += gen_cases(rng, n_s)
    j_cases = gen_cases(rng, n_j, jit=True)
    # compiled mode runs in the background (compilation dominates), source mode + model meanwhile
    jbox = {}

    def jrun():
        try:
            jbox["res"] = run_workers([c[0] for c in j_cases], True, ctx.workdir)
        except BaseException as e:  # noqa: BLE001
            jbox["exc"] = e

    th = threading.Thread(target=jrun)
    timing = []
    tstart = time.time()
    th.start()
    try:
        chunk = 400
        for i in range(0, len(s_cases), chunk):
            part = s_cases[i:i + chunk]
            t0 = time.time()
            results = run_workers([c[0] for c in part], False, ctx.workdir)
            t1 = time.time()
            ev = Eval(ctx, LeanBatch(ctx.workdir))
            eval_all(ctx, ev, part, results)
            nreq = len(ev.batch.reqs)
            t2 = time.time()
            ev.finish()
            timing.append(f"chunk {i}: workers {t1 - t0:.1f}s, evaluate {t2 - t1:.1f}s, model {time.time() - t2:.1f}s ({nreq} requests)")
        # the compiled cases once more in source semantics (same operations, same inputs)
        js_results = run_workers([c[0] for c in j_cases], False, ctx.workdir)
    finally:
        th.join()
    timing.append(f"compiled workers done after {time.time() - tstart:.1f}s")
    ctx.extra["timing"] = timing
    if "exc" in jbox:
        raise jbox["exc"]
    ev = Eval(ctx, LeanBatch(ctx.workdir))
    eval_all(ctx, ev, j_cases, jbox["res"])
    ev.finish()
    for (spec, axes, _meta, _sides), rj, rs in zip(j_cases, jbox["res"], js_results):
        if isinstance(rs, str):
            ctx.disagree("worker", small_case(spec, "worker"), "worker ran", rs, "the source-mode run of a compiled case raised")
        elif not isinstance(rj, str) and rj["jit"] and not rs["jit"]:
            evaluate_jit_vs_source(ctx, spec, axes, rj, rs)
        elif not isinstance(rj, str):
            ctx.disagree("worker", small_case(spec, "worker"), "compiled / interpreted", [rj["jit"], rs["jit"]],
                         "execution modes of the two runs are not compiled / interpreted")
    # smallest grids first: the replay written for a group is its first failure
    ctx.monitor_failures.sort(key=lambda m: (len(m["case"]["field"]["comps"]) * len(m["case"]["field"]["comps"][0])))
    ctx.disagreements.sort(key=lambda d: (len(d["case"]["field"]["comps"]) * len(d["case"]["field"]["comps"][0]))
                           if isinstance(d.get("case"), dict) and "field" in d["case"] else 0)


class _Collect:
    """minimal stand-in for Ctx used by search/replay: collects monitor failures only"""

    def __init__(self):
        self.monitor_failures, self.disagreements = [], []
        self.monitor_evals = self.impl_traces = 0

    def count(self, *a, **k):
        pass

    def hist(self, *a, **k):
        pass

    def disagree(self, leg, case, model, impl, note=""):
        self.disagreements.append({"leg": leg, "case": case, "model": model, "impl": impl, "note": note})

    def monitor_fail(self, leg, case, observed, expected, what, key=None):
        self.monitor_failures.append({"leg": leg, "case": case, "observed": observed, "expected": expected,
                                      "what": what, "key": key or {}})


class CannotReplay(Exception):
    """the recorded case cannot be re-run (said explicitly; the replay then counts as failed)"""


def search(ctx, broken):
    """failing-input search after a broken tie: the monitors (which contain an independent reference
    interpolant and the conservation statement) on the disagreeing cases and on a larger fresh sample"""
    col = _Collect()
    rng = ctx.sub_rng("search")
    # (a) the disagreeing cases themselves
    for d in broken[:20]:
        c = d.get("case") if isinstance(d, dict) else None
        if isinstance(c, dict) and "grid" in c:
            try:
                replay_case(col, c, ctx.workdir)
            except CannotReplay:
                continue
            if col.monitor_failures:
                return col.monitor_failures
    # (b) fresh sample, source semantics; (c) compiled, when the compiled leg was involved
    cases = gen_cases(rng, 1500)
    eval_all(col, NullEval(), cases, run_workers([c[0] for c in cases], False, ctx.workdir))
    if not col.monitor_failures and any(isinstance(d, dict) and isinstance(d.get("case"), dict) and d["case"].get("jit")
                                        for d in broken):
        cases = gen_cases(rng, 36, jit=True)
        specs = [c[0] for c in cases]
        rj, rs = run_workers(specs, True, ctx.workdir), run_workers(specs, False, ctx.workdir)
        eval_all(col, NullEval(), cases, rj)
        for (spec, axes, _m, _s), a, b in zip(cases, rj, rs):
            evaluate_jit_vs_source(col, spec, axes, a, b)
    col.monitor_failures.sort(key=lambda m: len(m["case"]["field"]["comps"]) * len(m["case"]["field"]["comps"][0]))
    return col.monitor_failures


def axis_kind(n, x):
    if abs(x - round(x)) < 1e-12 and 0 <= round(x) <= n - 1:
        return "centre"
    if abs(x - math.floor(x) - 0.5) < 1e-12 and 0 <= x <= n - 1:
        return "face"
    if 0 <= x <= n - 1:
        return "bulk"
    return "other"


def bc_sides(gs, axes, bc):
    """what the bc argument imposes on each side: None (periodic) or [(kind, const), (kind, const)]"""
    if bc is None:
        return [None] * len(axes)
    if bc == "auto_periodic_neumann":
        return [None if a[1] else [("derivative", 0.0)] * 2 for a in axes]
    if bc == "auto_periodic_dirichlet":
        return [None if a[1] else [("value", 0.0)] * 2 for a in axes]
    names = list(make_grid(gs).axes)
    sides = []
    for name, a in zip(names, axes):
        if a[1]:
            sides.append(None)
        else:
            sides.append([tuple(bc[name + sfx].items())[0] for sfx in "-+"])
    return sides


def replay_case(col, c, workdir):
    """re-run one recorded case - same grid, field, operation, point(s), boundary conditions, fill value and
    execution mode (compiled or source semantics) - on the real code and evaluate the monitors on the result.
    Raises CannotReplay when the record does not determine the operations or a worker crashes."""
    if not isinstance(c, dict) or "grid" not in c or "field" not in c or "op" not in c:
        raise CannotReplay("the record has no (grid, field, op)")
    gs, fs = c["grid"], c["field"]
    axes = grid_axes(gs)
    op = c["op"]
    jit = bool(c.get("jit"))
    if op == "jit_vs_source":
        spec = c.get("worker_input")
        if not isinstance(spec, dict):
            raise CannotReplay("no worker input recorded")
        spec = dict(spec, ops=[c["what"]]) if c.get("what") in spec.get("ops", []) else spec
        rj = run_workers([spec], True, workdir, procs=1)[0]
        rs = run_workers([spec], False, workdir, procs=1)[0]
        if isinstance(rj, str) or isinstance(rs, str):
            raise CannotReplay(f"worker crashed: compiled {str(rj)[:300]} / interpreted {str(rs)[:300]}")
        if not rj["jit"] or rs["jit"]:
            raise CannotReplay("could not run one compiled and one interpreted worker")
        evaluate_jit_vs_source(col, spec, axes, rj, rs)
        return {"compiled": rj.get(c.get("what")), "interpreted": rs.get(c.get("what"))}
    p = c.get("point")
    pts = [p] if p is not None else []
    meta = []
    for pt in pts:
        xs = [(x - a[2]) / a[3] - 0.5 for x, a in zip(pt, axes)]
        meta.append({"cls": c.get("cls", "replay"), "xs": xs, "where": classify(axes, pt),
                     "kinds": [axis_kind(a[0], x) for a, x in zip(axes, xs)]})
    bc = c.get("bc")
    sides = bc_sides(gs, axes, bc)
    probes = []
    if c.get("probe"):
        pr = c["probe"]
        # the recorded probe and the point of its line on the first / last layer of cell centres (t = 1)
        for t in ([pr["t"]] if pr["t"] == 1.0 else [pr["t"], 1.0]):
            probes.append({"p": probe_point(axes, pr["tang"], pr["axis"], pr["upper"], t) if t != pr["t"] else p,
                           "axis": pr["axis"], "upper": pr["upper"], "t": t, "tang": pr["tang"], "cls": pr["cls"], "line": 1})
        pts, meta = [], []
    fill = c.get("fill")
    spec = {"grid": gs, "field": fs, "points": pts, "fill": 0.0 if fill is None else fill, "bc": bc, "probes": probes,
            "cell_points": [[x + 0.5 for x in m["xs"]] for m in meta], "inserts": [(p, c["amount"])] if "amount" in c else [],
            "jit": jit}
    if op in ("interp", "interp_fill", "insert", "insert_comp"):
        spec["ops"] = [op]
    elif op == "axis":
        spec["ops"] = ["axis"]
        if not pts and "coord" in c:  # correspondence record: one coordinate of one axis
            pt = [a[2] + a[3] * a[0] / 2 for a in axes]
            pt[c["axis"]] = c["coord"]
            spec["points"], meta = [pt], [{"cls": "replay", "xs": [0.0] * len(axes), "where": classify(axes, pt),
                                           "kinds": ["other"] * len(axes)}]
    elif op == "single_cc":
        if "cell_point" not in c:
            raise CannotReplay("no cell coordinates recorded")
        cp = c["cell_point"]
        pt = [a[2] + x * a[3] for x, a in zip(cp, axes)]
        spec["ops"], spec["points"], spec["cell_points"] = ["single_cc"], [pt], [cp]
        meta = [{"cls": "replay", "xs": [x - 0.5 for x in cp], "where": classify(axes, pt),
                 "kinds": [axis_kind(a[0], x - 0.5) for a, x in zip(axes, cp)]}]
    elif op in ("interp_bc", "interp_bc_fill"):
        if bc is None or not (pts or probes):
            raise CannotReplay("no boundary condition / point recorded")
        spec["ops"] = ["interp_bc"]
        spec["bc_fills"] = [op == "interp_bc_fill"]
    elif op.startswith("to_grid_"):
        if "grid2" not in c:
            raise CannotReplay("no target grid recorded")
        spec["ops"] = ["to_grid"]
        spec["grid2"] = c["grid2"]
        spec["points"], meta = [], []
        spec["to_grid_variants"] = ["nofill"] if op == "to_grid_points" else [op[len("to_grid_"):]]
    elif op == "insert_vs_comp":
        spec["ops"] = ["insert", "insert_comp"]
    elif op == "insert_comp_ghost":
        spec["ops"] = ["insert", "insert_comp_ghost"]
    elif op == "malformed":
        spec["ops"], spec["malformed"] = ["malformed"], [c["malformed"]]
        if bc is None:
            raise CannotReplay("no boundary condition recorded")
    elif op in ("cplx_interp", "cplx_interp_fill", "cplx_insert"):
        spec["ops"], spec["imag"], spec["ints"] = ["cplx"], c["imag"], [[0] * len(cc) for cc in fs["comps"]]
        if jit and op == "cplx_interp_fill":
            raise CannotReplay("the batched complex interpolation with fill is only run in source semantics")
    elif op.startswith("intdata_"):
        spec["ops"], spec["ints"] = ["intdata"], c["ints"]
    else:
        raise CannotReplay(f"operation {op!r} is not a replayable operation")
    if spec["ops"] and spec["ops"][0] in ("interp", "interp_fill", "insert", "insert_comp", "cplx", "intdata") \
            and not (pts or spec["points"] or spec["inserts"]):
        raise CannotReplay("no point recorded")
    res = run_workers([spec], jit, workdir, procs=1)[0]
    if isinstance(res, str):
        raise CannotReplay("the worker crashed: " + res[:600])
    if bool(res["jit"]) != jit:
        raise CannotReplay(f"execution mode differs from the record (recorded jit={jit})")
    eval_all(col, NullEval(), [(spec, axes, meta, sides)], [res])
    return res


def replay(ctx, rep):
    """re-run the recorded case on the real code, judge it with the monitors; False iff it (still) fails or
    cannot be re-run"""
    col = _Collect()
    try:
        if "case" not in rep:
            raise CannotReplay("the file records no case (kind=%r)" % rep.get("kind"))
        res = replay_case(col, rep["case"], ctx.workdir)
    except CannotReplay as e:
        print("cannot be replayed:", e)
        return False
    shown = {k: v for k, v in res.items() if k not in ("vol", "data_full", "axis", "to_grid_full")} if isinstance(res, dict) else res
    print("real code:", str(shown)[:1500])
    if col.monitor_evals == 0:
        print("cannot be replayed: no monitor applies to the recorded case")
        return False
    for m in col.monitor_failures:
        print("monitor:", m["what"], "| observed", str(m["observed"])[:300], "| expected", str(m["expected"])[:300])
    if not col.monitor_failures:
        print(f"monitor: holds ({col.monitor_evals} evaluations)")
    return not col.monitor_failures
