"""C15 - fields share or isolate memory exactly as documented.

Correspondence: random operation histories on real ScalarField / VectorField / Tensor2Field /
FieldCollection / MemoryStorage objects vs the heap model `PdeVerif.Heap.step` (Lean, exact
complex-rational values).  After every step the complete `np.shares_memory` relation (with
relative offsets), the dtype, the member identities and the values read through every handle
are compared.  Monitor: the property statements themselves, evaluated on the real objects at
the level of memory addresses (independent of the model).

List objects that cross the API (`fc.fields`, `list(fc.labels)`, `fc.labels[:]`, lists the caller builds and
passes to the constructor) are handles of the histories too: in-place operations on them (reverse, sort, item
assignment, pop, append, insert, del, clear, extend) are modelled by `PdeVerif.Heap.xstep` (Model/HandOut.lean)
as operations on a copy; the monitor demands, through the public API, that no collection and no other list
changes; the content of every list and the member list of every collection are part of the tie."""
import collections
import logging
import operator
import os
from fractions import Fraction

import numpy as np

PID = "C15"
LEVEL = "proof"
REQUIRED_THEOREMS = [
    "write_visible_through_alias", "collection_layout", "copy_is_fresh", "frame",
    "copy_never_aliases", "slice_append_arith_operator_results_fresh", "binary_op_pure",
    "inplace_touches_only_valid_cells",
    # the invariants and the strengthened forms the above rest on
    "wf_run", "inv_run", "new_collection_linked", "collection_layout_slots", "component_view",
    "component_write_seen_in_field", "member_write_seen_in_collection", "disjoint_forever",
    "frame_disjoint", "views_stable",
    # clause (a) `data` is a live view; component views over histories; tensor components row-major;
    # operator results / footprint; values of copies (with the dtype conversion)
    "data_is_live_view", "dataLive_run", "component_alias_history", "tensor_component_view",
    "apply_operator_footprint", "copy_reads_equal", "views_stable_run",
    "inplace_scalar_values", "binop_scalar_values",
    # list objects that cross the API (Model/HandOut.lean): the list handed out by `fc.fields` / `list(fc.labels)` is
    # a copy for all histories; no list operation touches memory; composition with the heap model; the constructor
    # that keeps the list of its caller
    "handed_out_list_is_a_copy", "handed_out_labels_are_a_copy", "edit_detached", "edit_never_touches_memory",
    "no_list_edit_changes_world", "xrun_heap_is_run", "inv_xrun", "dataLive_xrun", "owners_xrun",
    "caller_list_kept", "edit_owned_changes_members",
    # Props/C15b.lean (theorem-gap round): values of field/field arithmetic, of negation, of copied collections
    "binop_field_values", "inplace_field_values", "negate_field_values", "copy_collection_reads_members",
    "copy_collection_member_reads", "binop_collection_scalar_values", "binop_collection_values",
    "negate_collection_values", "binop_into_second_collection_values",
]
EXTRA_PROP_FILES = ["C15b"]
# floors on what a quick run must have explored (run.py): in-place operations on list objects of the caller
MIN_LEGS = {"list-edit": 400}
RULE = ("random operation histories (5-40 operations: construction of scalar/vector/tensor fields, "
        "writes through data/_data_full/fc[k]/fc[label]/vector[c]=, marker writes of single cells, boundary-condition "
        "ghost writes, component views, FieldCollection with/without copy_fields (also duplicates, explicit dtype, "
        "from_data, re-linking of members of older collections), slices, append, copy, deep copy, pickle, negation, "
        "binary and in-place arithmetic with fields/collections/scalars, differential operators (scipy backend, "
        "compiled numba backend, and the Python source of the numba backend on every grid class in "
        "NUMBA_DISABLE_JIT=1 interpreters), derived fields, MemoryStorage append/read/slice/iteration, and a "
        "malformed stream whose expected outcome is an error class) over 1-3d Cartesian, polar, spherical and "
        "cylindrical grids and dtypes f64/f32/c128/c64/i64; half of the histories run with numba's JIT, half with "
        "NUMBA_DISABLE_JIT=1 (the mode is part of the case); a history is distinct by its (grids, mode, operation "
        "list) and non-trivial if at some step two different handles shared memory and a write through one handle "
        "changed what is read through another")
ASSUMPTIONS = [
    "numpy view semantics (a basic slice/reshape of an ndarray is a view; np.array(list) allocates) are trusted",
    "values of valid cells are kept exactly representable (24-bit dyadic) by the generator so that arithmetic in every "
    "dtype is exact; dtype conversions of whole padded arrays (copy(dtype=), collection arrays) are performed by the "
    "model as numpy performs them (round to nearest even in single precision, real part for real dtypes)",
    "labels are not modelled; lookup and assignment by label are checked directly against lookup by index",
    "a member field handed to a later FieldCollection(copy_fields=False) is re-linked to that collection "
    "(documented: 'basically impossible to have fields that are linked to multiple collections at the same "
    "time'); member<->collection aliasing is demanded for the collection that linked the member last",
    "vector/tensor fields on a SphericalSymGrid are handed to differential operators only if they satisfy the "
    "documented precondition of those operators (no angular components at valid cells)",
    "list objects: the model has both constructors (`xstep adopts`: FieldCollection(lst, copy_fields=False) keeps the list "
    "object of its caller, collection.py:99, or stores a list of its own); which one the tree under test has is read off "
    "its behaviour through the public API (`ctor_keeps_caller_list`, recorded in input_distribution). The monitor is "
    "independent of it and reports the keeping constructor (key caller-list-kept-as-member-list) in the fixed histories "
    "of every run; a history ends with the first list operation that changed a collection (members and layout disagree "
    "from then on). Lists of labels are modelled as lists of tokens (the member whose label it was); Python's list "
    "semantics and `id()` are trusted",
]
TRUSTED_EXTRA = ["np.shares_memory and ndarray.__array_interface__ as the definition of the real aliasing relation"]

DT = {"f64": np.float64, "f32": np.float32, "c128": np.complex128, "c64": np.complex64, "i64": np.int64}
DTN = {np.dtype(v): k for k, v in DT.items()}
KIND = {"i64": 0, "f32": 1, "f64": 1, "c64": 2, "c128": 2}


# ------------------------------------------------------------------------------------------
# small helpers
def make_grid(spec):
    import pde
    k = spec[0]
    if k == "unit":
        return pde.UnitGrid(spec[1], periodic=spec[2])
    if k == "cart":
        return pde.CartesianGrid(spec[1], spec[2], periodic=spec[3])
    if k == "polar":
        return pde.PolarSymGrid((spec[1], spec[2]) if spec[1] else spec[2], spec[3])
    if k == "sph":
        return pde.SphericalSymGrid((spec[1], spec[2]) if spec[1] else spec[2], spec[3])
    if k == "cyl":
        return pde.CylindricalSymGrid(spec[1], (spec[2], spec[3]), (spec[4], spec[5]), periodic_z=spec[6])
    raise ValueError(spec)


def full_shape(grid):
    return tuple(s + 2 for s in grid.shape)


def valid_idx(grid):
    return (Ellipsis,) + (slice(1, -1),) * grid.num_axes


def grid_mask(grid):
    m = np.zeros(full_shape(grid), bool)
    m[valid_idx(grid)] = True
    return m.ravel()


def addr(a):
    return a.__array_interface__["data"][0]


def addresses(a):
    """byte address of every element of an ndarray (any strides), same shape as `a`"""
    out = np.full(a.shape, addr(a), dtype=np.int64)
    for ax, (n, st) in enumerate(zip(a.shape, a.strides)):
        sh = [1] * a.ndim
        sh[ax] = n
        out = out + (np.arange(n, dtype=np.int64) * st).reshape(sh)
    return out


def root(a):
    while isinstance(getattr(a, "base", None), np.ndarray):
        a = a.base
    return a


def enc_r(x):
    fr = Fraction(float(x))
    return fr.numerator if fr.denominator == 1 else f"{fr.numerator}/{fr.denominator}"


def enc(z):
    if isinstance(z, (complex, np.complexfloating)):
        return enc_r(z.real) if z.imag == 0 else [enc_r(z.real), enc_r(z.imag)]
    return enc_r(z)


def enc_arr(a):
    a = np.asarray(a)
    return [enc(z) for z in a.ravel().tolist()]


def dec(j):
    """model value -> (re, im) Fractions, or None"""
    if j is None:
        return None
    if isinstance(j, list):
        return (Fraction(j[0]), Fraction(j[1]))
    return (Fraction(j), Fraction(0))


def exact_list(a):
    """flat list of (re, im) Fractions (None for non-finite entries) of an ndarray"""
    out = []
    for z in np.asarray(a).ravel().tolist():
        if isinstance(z, complex):
            re, im = z.real, z.imag
        else:
            re, im = z, 0
        if isinstance(re, float) and not np.isfinite(re) or isinstance(im, float) and not np.isfinite(im):
            out.append(None)
        else:
            out.append((Fraction(re), Fraction(im)))
    return out


def nice(a, target=None):
    """all entries exactly representable with a 24 bit mantissa (so that every dtype is exact);
    target: dtype name the values have to fit in"""
    a = np.asarray(a)
    w = a.astype(np.complex128)
    if not np.all(np.isfinite(w.real)) or not np.all(np.isfinite(w.imag)):
        return False
    for part in (w.real, w.imag):
        if not np.array_equal(part.astype(np.float32).astype(np.float64), part):
            return False
        if np.any(np.abs(part) >= 2.0 ** 24):
            return False
    if target is not None:
        if KIND[target] < 2 and np.any(w.imag != 0):
            return False
        if KIND[target] == 0 and np.any(w.real != np.round(w.real)):
            return False
    return True


def classify(e):
    msg = str(e)
    name = type(e).__name__
    if "UFunc" in name or "Cannot cast ufunc" in msg:
        return "cast"
    if isinstance(e, TypeError) and "Cannot store data of type" in msg:
        return "cast"
    if isinstance(e, ValueError) and "At least one field" in msg:
        return "empty"
    if isinstance(e, RuntimeError) and "Grids are incompatible" in msg:
        return "gridMismatch"
    if isinstance(e, ValueError) and "Grids" in msg and "incompatible" in msg:
        return "gridMismatch"
    if isinstance(e, TypeError) and "cannot be nested" in msg:
        return "nested"
    if isinstance(e, TypeError) and "Right operator must be a scalar" in msg:
        return "notScalar"
    if isinstance(e, TypeError) and "incompatible" in msg:
        return "classMismatch"
    if isinstance(e, ValueError) and "broadcast" in msg:
        return "broadcast"
    return f"other:{name}:{msg[:100]}"


RELINK_DETACH = ("component view taken before FieldCollection(copy_fields=False) re-linked its field no longer "
                 "aliases the field")
# list objects that cross the API (Model/HandOut.lean).  Judged by effect, through the public API only: after an
# in-place operation on a list object of the caller every collection still has the same member objects in the same
# order, the same length and the same labels, and every other list object of the caller reads what it read before.
HANDOUT_ALIAS = ("copies never alias their source - an in-place operation on the list obtained from "
                 "FieldCollection.fields / list(labels) changed the collection (or another handed-out list)")
KEPT_LIST = ("layout fixed as fields in order - an in-place operation on the list that had been passed to "
             "FieldCollection(copy_fields=False) changed the collection (the constructor keeps the list of its caller)")
HANDOUT_WRONG = "the list handed out by the collection does not read the members (their labels) in order"


def ctor_keeps_caller_list(pde):
    """Which constructor does the tree under test have?  collection.py:99 `self._fields = fields`:
    FieldCollection(lst, copy_fields=False) keeps the list OBJECT of its caller as its member list (for pairwise
    different fields); the alternative stores a list of its own.  The model has both (`xstep adopts`,
    Model/HandOut.lean: a branch of the code like any other); which one applies is read off the code by its
    behaviour through the public API.  A tree for which this returns True violates the property (the caller's
    next `lst.append(..)` changes the collection): the monitor reports it (KEPT_LIST) in the fixed histories of
    every run and wherever a random history makes it observable, so a quiet run always means `adopts = false`,
    the case of theorem `no_list_edit_changes_world`."""
    key = id(pde)
    if key not in _CTOR_PROBE:
        g = pde.UnitGrid([2])
        lst = [pde.ScalarField(g, 1.0)]
        fc = pde.FieldCollection(lst)
        lst.append(pde.ScalarField(g, 2.0))
        _CTOR_PROBE[key] = len(fc) != 1
    return _CTOR_PROBE[key]


_CTOR_PROBE = {}


class Skip(Exception):
    """the proposed operation is not applicable in the current world (guard failed)"""


class Unexpected(Exception):
    """a valid operation failed (or produced garbage) on the real code: the history ends here and
    is reported as a broken correspondence (the model says the operation succeeds)"""


# ------------------------------------------------------------------------------------------
def arr_from(vals, shape):
    """ndarray from a flat JSON-able list (ints, floats, [re, im] pairs)"""
    if any(isinstance(v, list) for v in vals):
        a = np.array([complex(v[0], v[1]) if isinstance(v, list) else complex(v) for v in vals], dtype=np.complex128)
    elif all(isinstance(v, int) for v in vals):
        a = np.array(vals, dtype=np.int64)
    else:
        a = np.array(vals, dtype=np.float64)
    return a.reshape(shape)


def scal(v):
    return complex(v[0], v[1]) if isinstance(v, list) else v


def scal_kind(v):
    return 2 if isinstance(v, (list, complex)) else (1 if isinstance(v, float) else 0)


BINOPS = {"add": operator.add, "sub": operator.sub, "mul": operator.mul, "div": operator.truediv}
IOPS = {"add": operator.iadd, "sub": operator.isub, "mul": operator.imul, "div": operator.itruediv}


def wide_result(bop, A, B, n=2):
    """exact result of the ufunc in complex128 together with an exactness verdict (all partial
    results representable with 24 bits, so that the real computation in any dtype is exact)"""
    native_complex = np.iscomplexobj(A) or np.iscomplexobj(B)
    A = np.asarray(A).astype(np.complex128)
    B = np.asarray(B).astype(np.complex128)
    if not (nice(A) and nice(B)):
        return None, False
    ok = True
    if bop == "add":
        W = A + B
    elif bop == "sub":
        W = A - B
    elif bop == "rsub":
        W = B - A
    elif bop == "mul":
        W = A * B
        for p in (A.real * B.real, A.imag * B.imag, A.real * B.imag, A.imag * B.real):
            ok = ok and nice(p)
    elif bop in ("div", "rdiv"):
        num, den = (A, B) if bop == "div" else (B, A)
        if np.any(den.imag != 0) or np.any(den.real == 0):
            return None, False
        if native_complex and not np.all(np.frexp(np.abs(den.real))[0] == 0.5):
            return None, False   # numpy divides complex numbers by multiplying with a rounded reciprocal
        with np.errstate(all="ignore"):
            W = num / den.real
        ok = nice(W) and np.array_equal(W * den.real, np.broadcast_to(num, W.shape))
    elif bop == "pow":
        W = np.ones_like(A)
        for _ in range(n):
            for p in (W.real * A.real, W.imag * A.imag, W.real * A.imag, W.imag * A.real):
                ok = ok and nice(p)
            W = W * A
            ok = ok and nice(W)
    else:
        raise ValueError(bop)
    return W, bool(ok and nice(W))


def scrub_numpy_cache():
    """Fill the blocks numpy keeps for re-use (its cache of small data blocks: 7 per size below 1 KiB)
    with the byte 0x5A.  py-pde allocates padded arrays with `np.empty`; what their ghost cells hold
    before anybody writes them is whatever the previous owner of the block left there - after a run
    of the same script in the same process (shrinking!) that is the very value a defective write
    would store, and the write goes unnoticed.  Together with MALLOC_PERTURB_=165 in the environment
    of the worker interpreters (glibc fills every block it hands out with 0x5A) never-written cells
    start every history with the same, impossible content."""
    keep = [np.full(n, 0x5A, dtype=np.uint8) for n in range(4, 1024, 4) for _ in range(8)]
    del keep


class World:
    """real objects + bookkeeping; `apply(opdesc)` executes one operation on the real code, records
    the corresponding model operation(s), the observation and evaluates the monitors"""

    def __init__(self, gspecs, monitors=True):
        import pde
        logging.getLogger("pde").setLevel(logging.ERROR)
        scrub_numpy_cache()
        self.pde = pde
        self.gspecs = gspecs
        self.grids = [make_grid(s) for s in gspecs]
        self.masks = [grid_mask(g) for g in self.grids]
        self.objs, self.names, self.byname, self.idmap = [], [], {}, {}
        self.cls, self.gid = [], []
        self.linked = {}     # field id -> collection id that linked it last
        self.comp = {}       # component id -> (parent id, c, parent address at creation)
        self.storages = {}   # uid -> dict(st, template, frames)
        self.model_ops = []
        self.steps = []
        self.script = []
        self.mfail = []
        self.prev = []       # per handle: (copy of the flattened padded array, dtype name, address)
        self.monitors = monitors
        self.n_monitor = 0
        self.flags = set()
        self.write_seen = False
        self.unexpected = None
        self.cur_kind = None
        self.member_ids = {}   # collection id -> ids of its member objects at creation
        self.skips = collections.Counter()   # proposals that were not applicable (guard failed), by operation kind
        self.lists = []        # list objects of the caller: dict(obj, kind, src, given=[collections built from it with
        #                        copy_fields=False], tokstr (labels: token -> string))
        self.lname = {}        # uid of the operation that made the list -> index into self.lists
        self.prev_members = {}  # collection id -> member ids at the last observation
        self.halted = False    # a list operation changed a collection: the world is no longer one the property
        #                        speaks about (members and layout disagree) - the history ends with the report
        self.n_list_edits = 0
        self.adopts = ctor_keeps_caller_list(pde)   # which of the two modelled constructors the tree under test has

    # ---- handles ---------------------------------------------------------------------------
    def rid(self, name):
        i = self.byname.get(tuple(name))
        if i is None:
            raise Skip()
        return i

    def lid(self, uid):
        i = self.lname.get(uid)
        if i is None:
            raise Skip()
        return i

    def list_items(self, L):
        """content of a list object of the caller: handle numbers (None: not an object of this world) or the
        strings of a list of labels"""
        if L["kind"] == "labels":
            return list(L["obj"])
        return [self.idmap.get(id(x)) for x in L["obj"]]

    def full(self, i):
        o = self.objs[i]
        return o if isinstance(o, np.ndarray) else o._data_full

    def dat(self, i):
        o = self.objs[i]
        return o if isinstance(o, np.ndarray) else o.data

    def kind_of(self, o):
        pde = self.pde
        if isinstance(o, np.ndarray):
            return "raw"
        if isinstance(o, pde.FieldCollection):
            return "coll"
        return {0: "scalar", 1: "vector", 2: "tensor"}[o.rank]

    def dtn(self, i):
        return DTN.get(self.full(i).dtype, str(self.full(i).dtype))

    def ncomp(self, i):
        return self.full(i).size // (len(self.masks[self.gid[i]]) if self.cls[i] != "raw" else self.full(i).size)

    def mask_of(self, i):
        """valid-cell mask over the flattened padded array of handle i"""
        a = self.full(i)
        if self.cls[i] == "raw":
            return np.ones(a.size, bool)
        m = self.masks[self.gid[i]]
        return np.tile(m, a.size // len(m))

    def register(self, o, uid, gid=None):
        if id(o) in self.idmap:
            return
        if not isinstance(o, np.ndarray):
            gid = next(k for k, g in enumerate(self.grids) if g is o.grid)
            if isinstance(o, self.pde.FieldCollection):
                for f in o.fields:
                    self.register(f, uid)
        j = sum(1 for n in self.names if n[0] == uid)
        i = len(self.objs)
        self.objs.append(o)
        self.names.append((uid, j))
        self.byname[(uid, j)] = i
        self.idmap[id(o)] = i
        self.cls.append(self.kind_of(o))
        self.gid.append(gid)

    def members(self, i):
        return [self.idmap.get(id(f)) for f in self.objs[i].fields]

    # ---- failures ----------------------------------------------------------------------------
    def fail(self, what, detail):
        self.mfail.append({"what": what, "step": len(self.script), "detail": dict(detail, operation=self.cur_kind)})

    # ---- observation -------------------------------------------------------------------------
    def observe(self, err):
        n = len(self.objs)
        info = []
        for i in range(n):
            a = self.full(i)
            info.append((addr(a), a.nbytes, a.itemsize))
        pairs = set()
        dbad = []
        for i in range(n):
            ai, ni, it = info[i]
            for j in range(i + 1, n):
                aj, nj, jt = info[j]
                if ai < aj + nj and aj < ai + ni:
                    fi, fj = self.full(i), self.full(j)
                    if np.shares_memory(fi, fj):
                        rel = (aj - ai) // it if (it == jt and (aj - ai) % it == 0) else "misaligned"
                        pairs.add((i, j, rel))
                        if not np.shares_memory(self.dat(i), self.dat(j)):
                            dbad.append((i, j))
        rootlab, seen = [], {}
        for i in range(n):
            r = id(root(self.full(i)))
            rootlab.append(seen.setdefault(r, i))
        changed = {}
        nchanged_old = 0
        for i in range(n):
            a = self.full(i)
            flat = np.array(a, copy=True).ravel()
            dt = DTN.get(a.dtype, str(a.dtype))
            # the member list of a collection is part of what is observed (a list operation can change it
            # without touching memory)
            mem = self.members(i) if self.cls[i] == "coll" else []
            mem_same = self.prev_members.get(i, mem) == mem
            self.prev_members[i] = mem
            if i < len(self.prev):
                old, odt, oaddr = self.prev[i]
                same = odt == dt and oaddr == info[i][0] and old.size == flat.size
                if same and old.tobytes() != flat.tobytes():
                    # -0.0 == 0.0: a sign-of-zero change is not a change of the value read
                    beq = ~np.any(flat.view(np.uint8).reshape(flat.size, -1) != old.view(np.uint8).reshape(old.size, -1), axis=1)
                    same = bool(np.all(beq | (old == flat)))
                    if same:
                        self.prev[i] = (flat, dt, info[i][0])
                if same and mem_same:
                    continue
                if not same:
                    nchanged_old += 1
                    self.prev[i] = (flat, dt, info[i][0])
            else:
                self.prev.append((flat, dt, info[i][0]))
            changed[i] = {"dt": dt, "size": a.size, "contig": bool(a.flags.c_contiguous), "vals": flat,
                          "members": mem,
                          "cls": self.cls[i], "grid": self.gid[i]}
        stale = [i for i in range(n) if self.cls[i] != "raw" and not self.data_is_live(i)]
        lists = [{"kind": L["kind"], "items": self.list_items(L), "tokstr": dict(L.get("tokstr") or {})} for L in self.lists]
        return {"err": err, "n": n, "pairs": pairs, "dbad": dbad, "root": rootlab, "changed": changed, "stale": stale,
                "model_idx": len(self.model_ops) - 1, "nchanged_old": nchanged_old, "lists": lists}

    # ---- monitors (direct statements of the property on the real objects) -------------------------
    def check_frame(self, n_old, allowed, moved, what, failed=None):
        """cells changed by the operation lie inside `allowed` (byte addresses); handles not in
        `moved` still look at the same memory; moved handles read the same values.  `failed`: the
        operation raised this error class - then nothing at all may have changed (no partial write)"""
        outside = ("memory outside the cells the operation may write was changed" if failed is None else
                   "memory was changed although the operation raised an error")
        allowed = np.unique(np.concatenate([np.asarray(a, np.int64).ravel() for a in allowed])) if allowed else np.zeros(0, np.int64)
        for i in range(n_old):
            old, odt, oaddr = self.prev[i]
            cur = self.full(i)
            dt = DTN.get(cur.dtype, str(cur.dtype))
            if addr(cur) != oaddr or dt != odt or cur.size != old.size:
                if i not in moved:
                    self.fail(f"{what}: handle looks at other memory after the operation",
                              {"handle": i, "cls": self.cls[i]})
                elif not (np.array_equal(np.asarray(cur).ravel().astype(np.complex128), old.astype(np.complex128), equal_nan=True)
                          if dt == odt else
                          np.array_equal(np.asarray(cur).ravel().astype(np.complex128)[self.mask_of(i)], old.astype(np.complex128)[self.mask_of(i)])):
                    self.fail(f"{what}: values read through a re-linked member changed", {"handle": i})
                continue
            flat = np.ascontiguousarray(cur).ravel()
            neq = np.any(flat.view(np.uint8).reshape(flat.size, -1) != old.view(np.uint8).reshape(old.size, -1), axis=1)
            if not neq.any():
                continue
            ch = addresses(cur).ravel()[neq]
            bad = ch[~np.isin(ch, allowed)]
            if bad.size:
                pos = np.nonzero(neq)[0][~np.isin(ch, allowed)]
                self.fail(f"{what}: {outside}",
                          {"handle": i, "cls": self.cls[i], "raised": failed, "positions": pos[:8].tolist(),
                           "is_valid_cell": self.mask_of(i)[pos[:8]].tolist(),
                           "before": [str(x) for x in old[pos[:4]]], "after": [str(x) for x in flat[pos[:4]]]})

    def check_fresh(self, n_old, fresh, what, moved=()):
        for j in fresh:
            fj = self.full(j)
            for i in range(n_old):
                if i in moved:
                    continue  # a member re-linked into the new collection (copy_fields=False)
                if np.shares_memory(self.full(i), fj):
                    self.fail(f"{what}: result shares memory with an existing object",
                              {"new": j, "new_cls": self.cls[j], "old": i, "old_cls": self.cls[i]})
                    break

    def data_is_live(self, i):
        """`obj.data` is the view of the valid cells of `obj._data_full` (same memory, shape, strides, dtype)"""
        o = self.objs[i]
        d, e = o.data, o._data_full[valid_idx(o.grid)]
        return bool(addr(d) == addr(e) and d.shape == e.shape and d.strides == e.strides and d.dtype == e.dtype)

    def check_data_view(self):
        for i, o in enumerate(self.objs):
            if self.cls[i] == "raw":
                continue
            if not self.data_is_live(i):
                self.fail("data is not the live view of the valid cells of _data_full", {"handle": i, "cls": self.cls[i]})

    def slots(self, ci):
        """[(member object, first component slot, number of components)] of collection ci, from the
        classes alone: fields in order, dim**rank components each"""
        out, slot = [], 0
        fc = self.objs[ci]
        for f in fc.fields:
            nc = fc.grid.dim ** f.rank
            out.append((f, slot, nc))
            slot += nc
        return out

    def check_collection(self, ci, write_test):
        fc = self.objs[ci]
        base = fc._data_full
        if [id(f) for f in fc.fields] != self.member_ids.get(ci):
            self.fail("the member objects of a collection were replaced", {"coll": ci})
            return
        g = fc.grid
        dim = g.dim
        if base.shape[1:] != full_shape(g) or not base.flags.c_contiguous:
            self.fail("collection_layout: collection buffer is not (components, *padded grid) C-contiguous", {"coll": ci})
            return
        linked = []
        for k, (f, slot, nc) in enumerate(self.slots(ci)):
            fi = self.idmap.get(id(f))
            if fi is None or self.linked.get(fi) != ci:
                continue   # member was re-linked to a later collection (documented)
            ff = f._data_full
            ok = (ff.dtype == base.dtype and ff.shape == (dim,) * f.rank + full_shape(g)
                  and np.shares_memory(ff, base))
            if ok:
                comp = ff.reshape((nc,) + full_shape(g)) if ff.flags.c_contiguous else None
                ok = comp is not None and all(addr(comp[c]) == addr(base[slot + c]) for c in range(nc))
            if ok and f.rank == 2:
                ok = all(addr(ff[a, b]) == addr(base[slot + a * dim + b]) for a in range(dim) for b in range(dim))
            if not ok:
                self.fail("collection_layout: member does not alias its slot of the collection buffer "
                          "(fields in order, components row-major)",
                          {"coll": ci, "member_index": k, "member": fi, "slot": slot,
                           "shares_memory": bool(np.shares_memory(ff, base))})
            else:
                linked.append((f, slot, nc))
        if write_test and linked:
            save = base.copy()
            try:
                for (f, slot, nc) in linked:
                    m = (np.arange(f.data.size) % 1000 + 1000 * (slot + 1)).reshape(f.data.shape)
                    f.data = m
                    seen = fc.data[slot:slot + nc].reshape(f.data.shape)
                    if not np.array_equal(seen, m.astype(seen.dtype)):
                        self.fail("write through a member field is not seen through the collection", {"coll": ci, "slot": slot})
                    m2 = (np.arange(f.data.size) % 1000 + 500 + 1000 * (slot + 1)).reshape((nc,) + g.shape)
                    fc.data[slot:slot + nc] = m2
                    if not np.array_equal(f.data.reshape(m2.shape), m2.astype(f.data.dtype)):
                        self.fail("write through the collection is not seen through the member field", {"coll": ci, "slot": slot})
            except Exception as e:  # noqa: BLE001
                self.fail("write through a member field / the collection failed", {"coll": ci, "error": classify(e)})
            finally:
                try:
                    base[...] = save
                except Exception:  # noqa: BLE001
                    pass

    def component_aliases(self, ci):
        """the literal clause: the component view `ci` looks at exactly the memory of component `c`
        of its field (same dtype, address, shape, strides)"""
        pi, c, _ = self.comp[ci]
        comp, par = self.objs[ci], self.objs[pi]
        pf = par._data_full.reshape((-1,) + full_shape(par.grid))
        cf = comp._data_full
        return bool(cf.dtype == pf.dtype and np.shares_memory(cf, pf) and addr(cf) == addr(pf[c])
                    and cf.shape == pf[c].shape and cf.strides == pf[c].strides)

    def check_component(self, ci, write_test):
        """component views alias their component of the field - judged for every component view
        that was ever taken, after every operation (no exemption when the field moved)"""
        pi, c, paddr = self.comp[ci]
        comp, par = self.objs[ci], self.objs[pi]
        pf = par._data_full.reshape((-1,) + full_shape(par.grid))
        cf = comp._data_full
        if not self.component_aliases(ci):
            self.fail("component view does not alias the component of its field",
                      {"component": ci, "parent": pi, "c": c, "parent_dtype": str(pf.dtype),
                       "parent_moved_since_component_was_taken": addr(self.full(pi)) != paddr,
                       "shares_memory": bool(np.shares_memory(cf, pf))})
            return
        if write_test:
            save = pf.copy()
            try:
                m = (np.arange(comp.data.size) % 1000 + 3000).reshape(comp.data.shape)
                comp.data = m
                pd = par.data.reshape((-1,) + par.grid.shape)
                if not np.array_equal(pd[c], m.astype(pd.dtype)):
                    self.fail("write through a component view is not seen through the field", {"component": ci, "parent": pi})
                pd[c] = m + 7
                if not np.array_equal(comp.data, (m + 7).astype(comp.data.dtype)):
                    self.fail("write through the field is not seen through its component view", {"component": ci, "parent": pi})
            except Exception as e:  # noqa: BLE001
                self.fail("write through a component view / the field failed", {"component": ci, "parent": pi, "error": classify(e)})
            finally:
                try:
                    pf[...] = save
                except Exception:  # noqa: BLE001
                    pass

    # ---- one operation -----------------------------------------------------------------------
    def apply(self, d):
        """execute opdesc `d`; False if it is not applicable here (nothing happened)"""
        import warnings
        if self.halted:
            return False
        n_old = len(self.objs)
        n_model_old = len(self.model_ops)
        self.cur_kind = d["k"]
        try:
            with warnings.catch_warnings(), np.errstate(all="ignore"):
                warnings.simplefilter("ignore")
                out = getattr(self, "op_" + d["k"])(d)
        except Skip:
            del self.model_ops[n_model_old:]
            self.skips[d["k"]] += 1
            return False
        except Unexpected as e:
            del self.model_ops[n_model_old:]
            self.unexpected = {"operation": {k: v for k, v in d.items() if k != "vals"}, "problem": str(e)}
            self.script.append(d)
            if self.monitors:
                self.check_data_view()
                for ci in range(len(self.objs)):
                    if self.cls[ci] == "coll":
                        self.check_collection(ci, write_test=False)
            return False
        uid = d["uid"]
        err = out.get("err")
        for o in out.get("new", []):
            self.register(o, uid)
        for ci in range(n_old, len(self.objs)):
            if self.cls[ci] == "coll":
                self.member_ids[ci] = [id(f) for f in self.objs[ci].fields]
                for m in self.members(ci):
                    if m is not None:
                        self.linked[m] = ci
        for (o, p, c) in out.get("comps", []):
            ci, pi = self.idmap[id(o)], p
            self.comp[ci] = (pi, c, addr(self.full(pi)))
        if "finish" in out:
            out["finish"]()
        self.script.append(d)
        if self.monitors:
            self.n_monitor += 1
            what = d["k"] + (":" + d["how"] if "how" in d else "")
            # an operation that raised must not have changed anything (the model: "an error leaves the
            # state unchanged"): no cell is allowed, no handle may have moved
            moved = set(out.get("moved", ())) if err is None else set()
            self.check_frame(n_old, (out.get("allowed") or []) if err is None else [], moved, what, failed=err)
            if "list_monitor" in out and out["list_monitor"]():
                # the collection no longer is what its layout says; everything the other monitors would add
                # is a consequence of the failure just recorded
                self.halted = True
            if self.halted:
                pass
            elif err is None:
                fresh = [self.idmap[id(o)] for o in out.get("fresh", [])]
                for j in list(fresh):
                    if self.cls[j] == "coll":
                        fresh += [m for m in self.members(j) if m is not None and m >= n_old]
                self.check_fresh(n_old, sorted(set(fresh)), what, moved)
                for ci in sorted(self.comp):
                    pi, c, _ = self.comp[ci]
                    if ci in moved:
                        # the component view itself was handed to FieldCollection(copy_fields=False):
                        # "the original fields are modified so their data points to the collection"
                        # (documented for the very object that is passed) - an ordinary member now
                        self.comp.pop(ci)
                    elif pi in moved:
                        # the FIELD was re-linked by FieldCollection(copy_fields=False); the statement
                        # of C15 lets component views alias their field for all histories: judge the
                        # literal clause, report it once, with its own narrow key
                        if not self.component_aliases(ci):
                            self.fail(RELINK_DETACH, {"component": ci, "parent": pi, "c": c, "relinked_by": what,
                                                      "parent_cls": self.cls[pi], "parent_dtype": self.dtn(pi),
                                                      "shares_memory": bool(np.shares_memory(self.full(ci), self.full(pi)))})
                            self.comp.pop(ci)
                if out.get("same") is not None and out["same"][0] is not out["same"][1]:
                    self.fail(f"{what}: in-place operation did not return the object itself", {})
            self.check_data_view()
            for ci in range(len(self.objs) if not self.halted else 0):
                if self.cls[ci] == "coll":
                    self.check_collection(ci, write_test=(ci >= n_old))
                    if ci >= n_old:
                        fc = self.objs[ci]
                        fl = fc.fields
                        if any(fc[k] is not fl[k] for k in range(len(fl))):
                            self.fail("collection[k] is not the member object", {"coll": ci})
                        for k, f in enumerate(fl):
                            if f.label is not None and fc[f.label] is not next(x for x in fl if x.label == f.label):
                                self.fail("collection[label] is not the first member with that label", {"coll": ci})
                elif ci in self.comp:
                    self.check_component(ci, write_test=(ci >= n_old))
        rec = self.observe(err)
        rec["kind"] = d["k"]
        if out.get("write") and rec["nchanged_old"] >= 2:
            self.write_seen = True
        if rec["pairs"]:
            self.flags.add("alias")
        self.steps.append(rec)
        return True

    # ---- helpers for operations --------------------------------------------------------------
    def comps_shape(self, cls, g):
        dim = self.grids[g].dim
        return {"scalar": (), "vector": (dim,), "tensor": (dim, dim)}[cls]

    def field_cls(self, cls):
        return {"scalar": self.pde.ScalarField, "vector": self.pde.VectorField, "tensor": self.pde.Tensor2Field}[cls]

    def expand_valid(self, i, data):
        """padded-shape array (zeros at ghost cells) holding `data` at the valid cells of handle i"""
        a = self.full(i)
        if self.cls[i] == "raw":
            return np.broadcast_to(data, a.shape).copy()
        V = np.zeros(a.shape, dtype=np.result_type(np.asarray(data).dtype, np.int64))
        V[valid_idx(self.objs[i].grid)] = data
        return V

    def converts_exactly(self, i, dt):
        """every VALID cell of handle i survives a conversion to dt.  Ghost cells are deliberately not
        looked at: cells nobody ever wrote hold whatever `np.empty` found in memory, and a decision that
        depends on them makes the generated history (and the replay of a recorded one) depend on the
        state of the allocator.  Ghost cells that were written (boundary conditions, `_data_full`) are
        converted by the model as numpy converts them (`DCast`: rounding to single precision, real
        part), so they compare exactly whatever they hold."""
        src = self.dtn(i)
        if src not in KIND:
            return False
        narrowing = KIND[dt] < KIND[src] or (dt in ("f32", "c64") and src not in ("f32", "c64"))
        return not narrowing or nice(self.dat(i), dt)

    def admissible(self, i):
        """precondition of the differential operators of vector/tensor fields on a SphericalSymGrid
        (pde/backends/numba/operators/spherical_sym.py:284,311,385,483-488,516-518,605-606,644-645:
        `assert np.all(arr[1, 1:-1] == 0)` ...): components that cannot be expressed with spherical
        symmetry vanish at the valid cells.  The strongest form is used (a superset of what every
        single operator asks for): vectors have zero angular components; tensors are diagonal with
        equal angular diagonal entries.  NaN-safe (`== 0` is False for NaN)."""
        o = self.objs[i]
        if type(o.grid).__name__ != "SphericalSymGrid" or self.cls[i] not in ("vector", "tensor"):
            return True
        dd = o.data
        if self.cls[i] == "vector":
            return bool(np.all(dd[1:] == 0))
        off = [(a, b) for a in range(3) for b in range(3) if a != b]
        return bool(all(np.all(dd[a, b] == 0) for a, b in off) and np.all(dd[1, 1] == dd[2, 2]))

    def ghost_addresses(self, i):
        return addresses(self.full(i)).ravel()[~self.mask_of(i)]

    def try_real(self, fn):
        try:
            return fn(), None
        except Exception as e:  # noqa: BLE001 - every error class is part of the compared behaviour
            return None, classify(e)

    # ---- operations --------------------------------------------------------------------------
    def op_mkField(self, d):
        g, cls = d["g"], d["cls"]
        grid = self.grids[g]
        shape = self.comps_shape(cls, g) + full_shape(grid)
        C = self.field_cls(cls)
        dt = d.get("dt")
        npdt = DT[dt] if dt else None
        init = d["init"]
        if init == "zeros":
            res, err = self.try_real(lambda: C(grid, dtype=npdt) if d.get("default_arg") else C(grid, "zeros", dtype=npdt))
            mop = {"op": "mkField", "cls": cls, "grid": g, "dt": dt, "cplx": False, "init": "zeros"}
        else:
            V = arr_from(d["vals"], shape)
            if not nice(V, dt or ("c128" if np.iscomplexobj(V) else "f64")):
                raise Skip()
            cplx = bool(np.iscomplexobj(V))
            if init == "valid":
                data = V[valid_idx(grid)].copy()
                res, err = self.try_real(lambda: C(grid, data, dtype=npdt))
            elif init == "scalar":
                c = V.ravel()[0].item()
                V = np.full(shape, c)
                res, err = self.try_real(lambda: C(grid, c, dtype=npdt))
            else:
                own = V.astype(np.complex128 if cplx else np.float64) if d.get("as_float", True) else V.copy()
                res, err = self.try_real(lambda: C(grid, own, with_ghost_cells=True, dtype=npdt))
                cplx = bool(np.iscomplexobj(own))
            mop = {"op": "mkField", "cls": cls, "grid": g, "dt": dt, "cplx": cplx,
                   "init": "full" if init == "full" else "valid", "vals": enc_arr(V)}
        self.model_ops.append(mop)
        return {"err": err, "new": [res] if err is None else [], "fresh": [res] if err is None else []}

    def op_write(self, d):
        i = self.rid(d["h"])
        how = d["how"]
        o = self.objs[i]
        a = self.full(i)
        tdt = self.dtn(i)
        if tdt not in DT:
            raise Skip()
        if how == "setitem":
            if self.cls[i] != "coll":
                raise Skip()
            k = d["idx"] % len(o.fields)
            ti = self.members(i)[k]
            if ti is None:
                raise Skip()
            key = k
            if d.get("by_label"):
                # `fc["label"] = value` writes the FIRST member with that label (collection.py:201-208)
                lab = o.fields[k].label
                if lab is None:
                    raise Skip()
                key = lab
                k = next(n for n, f in enumerate(o.fields) if f.label == lab)
                ti = self.members(i)[k]
                if ti is None:
                    raise Skip()
        else:
            ti = i
        t = self.objs[ti]
        ta = self.full(ti)
        if how in ("full", "full_scalar"):
            if "vals" in d:
                V = arr_from(d["vals"], -1)
                V = np.resize(V, ta.size).reshape(ta.shape)
            else:
                V = np.full(ta.shape, scal(d["c"]))
            if not nice(V, self.dtn(ti)):
                raise Skip()
            if self.cls[ti] == "raw":
                res, err = self.try_real(lambda: ta.__setitem__(Ellipsis, V))
            elif how == "full_scalar" and "c" in d:
                c = scal(d["c"])
                res, err = self.try_real(lambda: setattr(t, "_data_full", c))
            else:
                res, err = self.try_real(lambda: t._data_full.__setitem__(Ellipsis, V))
            self.model_ops.append({"op": "writeFull", "h": ti, "vals": enc_arr(V)})
            return {"err": err, "allowed": [addresses(ta)], "write": True}
        # writes through `data`
        if self.cls[ti] == "raw":
            raise Skip()
        if how == "assign_field":
            j = self.rid(d["src"])
            if self.cls[j] == "raw" or self.cls[ti] == "coll" and self.cls[j] not in ("coll", "scalar"):
                raise Skip()
            src = self.objs[j]
            # guards BEFORE the real call: same grid, same class (collections: same member classes) or a
            # scalar field - then `assert_field_compatible(value, accept_scalar=True)` accepts and the
            # assignment is a valid operation; an error of the real code is a broken correspondence
            if self.gid[j] != self.gid[ti]:
                raise Skip()
            if self.cls[ti] == "coll" and self.cls[j] == "coll" and (
                    [self.kind_of(f) for f in t.fields] != [self.kind_of(f) for f in src.fields]):
                raise Skip()
            if self.cls[ti] != "coll" and self.cls[j] not in (self.cls[ti], "scalar"):
                raise Skip()
            try:
                data = np.broadcast_to(src.data, t.data.shape).copy()
            except ValueError:
                raise Skip() from None
            if not nice(data, self.dtn(ti)):
                raise Skip()
            res, err = self.try_real(lambda: setattr(t, "data", src))
            if err is not None:
                raise Unexpected(f"`field.data = other_field` failed for compatible fields: {err}")
        elif how == "comp_setitem":
            # `vector[c] = value` / `tensor[i, j] = value`: `self.data[idx] = value` - valid cells of
            # one component only (vectorial.py:181-188, tensorial.py:158-169)
            if self.cls[ti] not in ("vector", "tensor"):
                raise Skip()
            dim = t.grid.dim
            if self.cls[ti] == "vector":
                c = d["c"] % dim
                key = t.grid.axes[c] if d.get("by_name") and c < t.grid.num_axes else c
                idx = (c,)
            else:
                a_, b_ = d["c"] % dim, (d["c"] // dim) % dim
                key = (a_, b_)
                idx = (a_, b_)
            cur = np.array(t.data, copy=True)
            if "src" in d:
                j = self.rid(d["src"])
                if self.cls[j] != "scalar" or self.gid[j] != self.gid[ti]:
                    raise Skip()
                value = self.objs[j]
                cur[idx] = value.data
            else:
                value = scal(d["c_val"])
                cur[idx] = value
            if not nice(cur[idx], self.dtn(ti)) or not np.all(np.isfinite(np.asarray(cur).astype(np.complex128))):
                raise Skip()
            comp_cells = addresses(t.data[idx])
            res, err = self.try_real(lambda: t.__setitem__(key, value))
            if err is not None:
                raise Unexpected(f"`field[component] = value` failed unexpectedly: {err}")
            # model: a write of the valid cells; the other components are re-written with the values
            # they hold (exact: every valid cell holds a value the model knows)
            self.model_ops.append({"op": "writeData", "h": ti, "vals": enc_arr(self.expand_valid(ti, cur))})
            return {"err": None, "allowed": [comp_cells], "write": True}
        else:
            if "vals" in d:
                V = arr_from(d["vals"], -1)
                V = np.resize(V, ta.size).reshape(ta.shape)
            else:
                V = np.full(ta.shape, scal(d["c"]))
            if not nice(V, self.dtn(ti)):
                raise Skip()
            data = V[valid_idx(t.grid)].copy()
            if how == "setitem":
                res, err = self.try_real(lambda: o.__setitem__(key, data))
            elif how == "data_scalar" and "c" in d:
                c = scal(d["c"])
                res, err = self.try_real(lambda: setattr(t, "data", c))
            elif how == "data_idx":
                res, err = self.try_real(lambda: t.data.__setitem__(Ellipsis, data))
            else:
                res, err = self.try_real(lambda: setattr(t, "data", data))
        self.model_ops.append({"op": "writeData", "h": ti, "vals": enc_arr(self.expand_valid(ti, data))})
        return {"err": err, "allowed": [addresses(t.data)], "write": True}

    def op_cell(self, d):
        i = self.rid(d["h"])
        a = self.full(i)
        v = scal(d["v"])
        if self.dtn(i) not in DT or not nice(np.array(v), self.dtn(i)):
            raise Skip()
        if d["via"] == "data" and self.cls[i] != "raw":
            dd = self.dat(i)
            k = d["pos"] % dd.size
            pos = np.arange(a.size).reshape(a.shape)[valid_idx(self.objs[i].grid)].ravel()[k]
            res, err = self.try_real(lambda: dd.flat.__setitem__(k, v))
        else:
            pos = d["pos"] % a.size
            res, err = self.try_real(lambda: a.flat.__setitem__(pos, v))
        self.model_ops.append({"op": "writeCell", "h": i, "p": int(pos), "v": enc(v)})
        return {"err": err, "allowed": [addresses(a).ravel()[pos:pos + 1]], "write": True}

    def op_ghost(self, d):
        i = self.rid(d["h"])
        if self.cls[i] in ("raw", "coll") or not nice(self.dat(i)):
            raise Skip()
        o = self.objs[i]
        bc = d["bc"]
        if isinstance(bc, dict) and any(o.grid.periodic) or "curvature" in str(bc) and min(o.grid.shape) < 2:
            raise Skip()
        before = np.array(self.full(i), copy=True).ravel()
        ghosts = self.ghost_addresses(i)
        res, err = self.try_real(lambda: o.set_ghost_cells(bc))
        if err is not None:
            raise Unexpected(f"set_ghost_cells failed unexpectedly: {err}")
        after = np.array(self.full(i), copy=True).ravel()
        self.model_ops.append(self.ghost_op(i, before, after))
        return {"err": None, "allowed": [ghosts], "write": True}

    def ghost_op(self, i, before, after):
        """setGhosts operation from the observed change of the virtual points (oracle values)"""
        m = self.mask_of(i)
        bb = before.view(np.uint8).reshape(before.size, -1)
        ab = after.view(np.uint8).reshape(after.size, -1)
        ch = np.any(bb != ab, axis=1) & ~m
        if not np.all(np.isfinite(after[ch].astype(np.complex128))):
            raise Unexpected("boundary condition produced a non-finite virtual point")
        vals = [enc(z) if c else None for z, c in zip(after.tolist(), ch.tolist())]
        return {"op": "setGhosts", "h": i, "vals": vals}

    def op_component(self, d):
        i = self.rid(d["h"])
        if self.cls[i] not in ("vector", "tensor"):
            raise Skip()
        o = self.objs[i]
        dim = o.grid.dim
        if self.cls[i] == "vector":
            c = d["c"] % dim
            key = o.grid.axes[c] if d.get("by_name") and c < o.grid.num_axes else c
            res, err = self.try_real(lambda: o[key])
        else:
            a, b = d["c"] % dim, (d["c"] // dim) % dim
            c = a * dim + b     # (for the monitor: the property statement says row-major)
            key = (o.grid.axes[a], o.grid.axes[b]) if d.get("by_name") and max(a, b) < o.grid.num_axes else (a, b)
            res, err = self.try_real(lambda: o[key])
        if self.cls[i] == "vector":
            self.model_ops.append({"op": "component", "h": i, "c": c})
        else:               # the model maps (i, j) to the block itself (`tensorSlot`)
            self.model_ops.append({"op": "tcomponent", "h": i, "i": a, "j": b})
        if err is not None:
            return {"err": err}
        return {"err": None, "new": [res], "comps": [(res, i, c)]}

    def coll_result(self, res, err, moved=()):
        if err is not None:
            return {"err": err}
        return {"err": None, "new": [res], "fresh": [res], "moved": moved}

    def op_mkColl(self, d):
        FC = self.pde.FieldCollection
        how = d.get("how", "list")
        dt = d.get("dt")
        cp = bool(d["copy"])
        kept = None
        if how == "steal":
            ci = self.rid(d["hs"][0])
            if self.cls[ci] != "coll":
                raise Skip()
            ids = self.members(ci)
            if any(m is None for m in ids):
                raise Skip()
            arg = self.objs[ci]
        elif how == "kept_list":
            # `FieldCollection(lst, ...)` for a list object the caller keeps (built by the caller or obtained from
            # `fc.fields`, possibly edited since): an empty list is the documented error
            kept = self.lists[self.lid(d["l"])]
            if kept["kind"] == "labels":
                raise Skip()
            ids = self.list_items(kept)
            if any(i is None or self.cls[i] == "raw" for i in ids):
                raise Skip()
            arg = kept["obj"]
        else:
            ids = [self.byname[tuple(h)] for h in d["hs"] if tuple(h) in self.byname]   # (shrinking may have removed some)
            if not ids or any(self.cls[i] == "raw" for i in ids):
                raise Skip()
            arg = [self.objs[i] for i in ids]
            if how == "mapping":
                if len(set(ids)) != len(ids):
                    raise Skip()
                arg = {f"m{uidx}_{k}": o for k, (o, uidx) in enumerate(zip(arg, [d["uid"]] * len(arg)))}
        if dt is not None:
            for i in ids:
                if self.cls[i] != "coll" and not self.converts_exactly(i, dt):
                    raise Skip()
        res, err = self.try_real(lambda: FC(arg, copy_fields=cp, dtype=DT[dt] if dt else None))
        if kept is not None:
            self.model_ops.append({"op": "mkCollFrom", "l": self.lid(d["l"]), "copy": cp, "dt": dt})
        else:
            self.model_ops.append({"op": "mkColl", "hs": ids, "copy": cp, "dt": dt})
        effective_copy = cp or len(set(ids)) != len(ids)
        out = self.coll_result(res, err, moved=() if effective_copy else ids)
        if kept is not None and err is None and not effective_copy:
            out["finish"] = lambda: kept["given"].append(self.idmap[id(res)])
        return out

    # ---- list objects of the caller ------------------------------------------------------------
    def op_hand(self, d):
        """`lst = fc.fields`, `lst = list(fc.labels)`, `lst = fc.labels[:]`"""
        ci = self.rid(d["c"])
        if self.cls[ci] != "coll" or any(m is None for m in self.members(ci)):
            raise Skip()
        fc = self.objs[ci]
        what = d["what"]
        if what == "fields":
            res, err = self.try_real(lambda: fc.fields)
        elif what == "labels":
            res, err = self.try_real(lambda: list(fc.labels))
        else:
            res, err = self.try_real(lambda: fc.labels[:])
        if err is not None or not isinstance(res, list):
            raise Unexpected(f"handing out the list of {what} failed / returned no list: {err or type(res).__name__}")
        kind = "fields" if what == "fields" else "labels"
        self.model_ops.append({"op": "fieldsOf" if kind == "fields" else "labelsOf", "c": ci})
        L = {"obj": res, "kind": kind, "src": ci, "given": []}
        if kind == "labels":
            L["tokstr"] = dict(zip(self.members(ci), res))
        self.lname[d["uid"]] = len(self.lists)
        self.lists.append(L)

        def monitor():
            expect = [f.label for f in fc.fields] if kind == "labels" else [id(f) for f in fc.fields]
            got = list(res) if kind == "labels" else [id(x) for x in res]
            if got != expect or (kind == "fields" and expect != self.member_ids.get(ci)):
                self.fail(HANDOUT_WRONG, {"coll": ci, "what": what})
            return False
        return {"err": None, "list_monitor": monitor}

    def op_ulist(self, d):
        """`lst = [f, g, ...]`: a list the caller builds (and keeps)"""
        ids = [self.byname[tuple(h)] for h in d["hs"] if tuple(h) in self.byname]
        if any(self.cls[i] == "raw" for i in ids):
            raise Skip()
        self.model_ops.append({"op": "userList", "hs": ids})
        self.lname[d["uid"]] = len(self.lists)
        self.lists.append({"obj": [self.objs[i] for i in ids], "kind": "user", "src": None, "given": []})
        return {"err": None}

    def list_world(self, skip):
        """what list operations must leave alone, read through the public API: per collection the member objects in
        order, `len`, the labels; the content of every list object but `skip`"""
        colls = {}
        for ci in range(len(self.objs)):
            if self.cls[ci] == "coll":
                fc = self.objs[ci]
                colls[ci] = ([id(f) for f in fc.fields], len(fc), list(fc.labels))
        lists = {j: [x if L["kind"] == "labels" else id(x) for x in L["obj"]]
                 for j, L in enumerate(self.lists) if j != skip}
        return colls, lists

    def layout_of(self, fc):
        """diagnosis for the report: is member k still a view of its slot (fields in order)?"""
        try:
            base = fc._data_full
            start = 0
            for kk, f in enumerate(fc.fields):
                if isinstance(f, self.pde.FieldCollection):
                    return f"member {kk} is a collection"
                num = fc.grid.dim ** f.rank
                ff = f._data_full
                if start + num > base.shape[0]:
                    return f"member {kk} would need components [{start}:{start + num}], the collection has {base.shape[0]}"
                if f.grid != fc.grid or not np.shares_memory(ff, base) or addr(ff) != addr(base[start]):
                    return f"member {kk} is not a view of components [{start}:{start + num}] of the collection"
                start += num
            if start != base.shape[0]:
                return f"the members cover {start} of the {base.shape[0]} components of the collection"
            return "members in order are views of consecutive slots"
        except Exception as ex:  # noqa: BLE001
            return f"layout cannot be evaluated: {type(ex).__name__}"

    def op_ledit(self, d):
        """an in-place operation on a list object of the caller"""
        li = self.lid(d["l"])
        L = self.lists[li]
        lst = L["obj"]
        e = d["e"]
        n = len(lst)
        mop = {"op": "edit", "l": li, "e": e}
        new = []
        if e in ("setItem", "append", "insert", "extend"):
            xs = [self.rid(nm) for nm in d["xs"]]
            if any(self.cls[x] == "raw" for x in xs) or (e != "extend" and len(xs) != 1):
                raise Skip()
            if L["kind"] == "labels":
                new = [L["tokstr"].setdefault(x, f"ins{x}") for x in xs]
            else:
                new = [self.objs[x] for x in xs]
            if e == "extend":
                mop["xs"] = xs
            else:
                mop["x"] = xs[0]
        k = py = None
        if e in ("setItem", "delItem", "pop_at"):
            k = n + d["i"] % 2 if (d.get("oob") or n == 0) else d["i"] % n       # beyond the end: IndexError
            py = k - n if (d.get("neg") and k < n) else k
            mop["k"] = k
        elif e == "insert":
            k = d["i"] % (n + 2)                                                    # beyond the end: appends
            py = k - n if (d.get("neg") and k < n) else k
            mop["k"] = k
        if e == "pop_at":
            mop["e"] = "pop"
        if e == "sort":
            if L["kind"] == "labels" or any(self.idmap.get(id(x)) is None for x in lst):
                raise Skip()
        before = self.list_world(li) if self.monitors else None
        mine = list(lst)
        err = None
        try:
            if e == "reverse":
                lst.reverse()
            elif e == "sort":
                lst.sort(key=lambda f: self.idmap[id(f)])
            elif e == "setItem":
                lst[py] = new[0]
            elif e == "pop":
                lst.pop()
            elif e == "pop_at":
                lst.pop(py)
            elif e == "append":
                lst.append(new[0])
            elif e == "insert":
                lst.insert(py, new[0])
            elif e == "delItem":
                del lst[py]
            elif e == "clear":
                lst.clear()
            elif e == "extend":
                if d.get("iadd"):
                    lst += new
                else:
                    lst.extend(new)
            else:
                raise Skip()
        except IndexError:
            err = "badArg"
        self.model_ops.append(mop)
        self.n_list_edits += 1

        def monitor():
            colls, lists = self.list_world(li)
            bc, bl = before
            flagged = False
            for ci, was in bc.items():
                now = colls[ci]
                if now != was:
                    fc = self.objs[ci]
                    link = self.layout_of(fc)
                    what = KEPT_LIST if ci in L["given"] else HANDOUT_ALIAS
                    ids = lambda t: [self.idmap.get(x) for x in t]
                    self.fail(what, {"list": li, "list_kind": L["kind"], "list_from_collection": L["src"], "edit": e, "raised": err,
                                     "collection": ci, "members_before": ids(was[0]), "members_after": ids(now[0]),
                                     "len_before": was[1], "len_after": now[1], "labels_before": was[2], "labels_after": now[2],
                                     "layout_after": link})
                    flagged = True
                    break
            if not flagged:
                for j, was in bl.items():
                    if lists[j] != was:
                        self.fail(HANDOUT_ALIAS, {"list": li, "list_kind": L["kind"], "edit": e, "raised": err,
                                                  "other_list": j, "other_list_kind": self.lists[j]["kind"],
                                                  "other_len_before": len(was), "other_len_after": len(lists[j])})
                        flagged = True
                        break
            if err is not None and (len(mine) != len(lst) or any(a is not b for a, b in zip(mine, lst))):
                self.fail("a list operation that raised IndexError changed the list", {"list": li, "edit": e})
            return flagged
        return {"err": err, "list_monitor": monitor}

    def op_fromData(self, d):
        g = d["g"]
        grid = self.grids[g]
        classes = d["classes"]
        ncs = [grid.dim ** {"scalar": 0, "vector": 1, "tensor": 2}[c] for c in classes]
        shape = (sum(ncs),) + full_shape(grid)
        V = np.resize(arr_from(d["vals"], -1), int(np.prod(shape))).reshape(shape)
        V = V.astype(np.complex128 if np.iscomplexobj(V) else np.float64)
        dt = d.get("dt")
        if not nice(V, dt or DTN[V.dtype]):
            raise Skip()
        ghosts = bool(d.get("ghosts", True))
        arg = V.copy() if ghosts else V[valid_idx(grid)].copy()
        res, err = self.try_real(lambda: self.pde.FieldCollection.from_data(
            [self.field_cls(c) for c in classes], grid, arg, with_ghost_cells=ghosts, dtype=DT[dt] if dt else None))
        n0 = len(self.objs)
        start = 0
        for k, (c, nc) in enumerate(zip(classes, ncs)):
            if ghosts:   # `field._data_flat = data[start:end]`: the field looks at the given array
                self.model_ops.append({"op": "mkField", "cls": c, "grid": g, "dt": DTN[V.dtype], "cplx": bool(np.iscomplexobj(V)),
                                       "init": "full", "vals": enc_arr(V[start:start + nc])})
            else:        # `field_class(grid, dtype=data.dtype)` (zeros) and `field.data.flat = ...`
                self.model_ops.append({"op": "mkField", "cls": c, "grid": g, "dt": DTN[V.dtype], "cplx": False, "init": "zeros"})
            start += nc
        if not ghosts:
            start = 0
            for k, (c, nc) in enumerate(zip(classes, ncs)):
                W = np.zeros_like(V[start:start + nc])
                W[valid_idx(grid)] = V[start:start + nc][valid_idx(grid)]
                self.model_ops.append({"op": "writeData", "h": n0 + k, "vals": enc_arr(W)})
                start += nc
        self.model_ops.append({"op": "mkColl", "hs": list(range(n0, n0 + len(classes))), "copy": False, "dt": dt})
        if err is not None:
            raise Unexpected(f"from_data failed unexpectedly: {err}")
        return {"err": None, "new": [res], "fresh": [res]}

    def op_slice(self, d):
        ci = self.rid(d["c"])
        if self.cls[ci] != "coll":
            raise Skip()
        fc = self.objs[ci]
        sl = slice(*d["sl"])
        idx = list(range(*sl.indices(len(fc))))
        if any(m is None for m in self.members(ci)):
            raise Skip()
        res, err = self.try_real(lambda: fc[sl])
        self.model_ops.append({"op": "slice", "c": ci, "idx": idx})
        return self.coll_result(res, err)

    def op_append(self, d):
        ci = self.rid(d["c"])
        ids = [self.byname[tuple(h)] for h in d["hs"] if tuple(h) in self.byname]
        if not ids or self.cls[ci] != "coll" or any(self.cls[i] == "raw" for i in ids):
            raise Skip()
        for i in [ci] + ids:
            if self.cls[i] == "coll" and any(m is None for m in self.members(i)):
                raise Skip()
        fc = self.objs[ci]
        res, err = self.try_real(lambda: fc.append(*[self.objs[i] for i in ids]))
        self.model_ops.append({"op": "append", "c": ci, "hs": ids})
        return self.coll_result(res, err)

    def op_copy(self, d):
        i = self.rid(d["h"])
        if self.cls[i] == "raw" or self.dtn(i) not in DT:
            raise Skip()
        o = self.objs[i]
        dt = d.get("dt")
        if self.cls[i] == "coll" and any(m is None for m in self.members(i)):
            raise Skip()
        src = [i] if self.cls[i] != "coll" else self.members(i)
        # a collection copy converts the members' data to `dtype` or, by default, to the dtype of the
        # collection (members re-linked elsewhere may have another one)
        eff_dt = dt if dt is not None else (self.dtn(i) if self.cls[i] == "coll" else None)
        if eff_dt is not None and not all(self.converts_exactly(k, eff_dt) for k in src):
            raise Skip()
        how = d.get("how", "copy")
        if how == "ctor":
            if self.cls[i] == "coll":
                raise Skip()
            res, err = self.try_real(lambda: type(o)(o.grid, data=o, dtype=DT[dt] if dt else None))
            mdt = dt or ("c128" if KIND[self.dtn(i)] == 2 else "f64")
        else:
            res, err = self.try_real(lambda: o.copy(dtype=DT[dt] if dt else None))
            mdt = dt
        self.model_ops.append({"op": "copy", "h": i, "dt": mdt})
        return self.coll_result(res, err)

    def op_deepcopy(self, d):
        """copy.deepcopy(h) / pickle round trip: every array duplicated, internal links restored by
        __setstate__ (base.py:95-100, collection.py:222-227)"""
        import copy
        import pickle
        i = self.rid(d["h"])
        if self.cls[i] == "raw" or self.dtn(i) not in DT:
            raise Skip()
        if self.cls[i] == "coll" and any(m is None for m in self.members(i)):
            raise Skip()
        o = self.objs[i]
        if d.get("how") == "pickle":
            res, err = self.try_real(lambda: pickle.loads(pickle.dumps(o)))
        else:
            res, err = self.try_real(lambda: copy.deepcopy(o))
        if err is not None:
            raise Unexpected(f"deepcopy/pickle failed unexpectedly: {err}")
        # the copy sits on an equal but distinct grid object: keep the world's grid table in step
        if res.grid is not o.grid:
            if res.grid != o.grid:
                raise Unexpected("deep copy changed the grid")
            self.regrid(res, o.grid)
        self.model_ops.append({"op": "deepcopy", "h": i})
        return self.coll_result(res, None)

    def regrid(self, f, grid):
        """replace the (equal) grid object of a deep-copied field by the world's grid object so that
        later operations see one grid per grid id"""
        f._grid = grid
        if isinstance(f, self.pde.FieldCollection):
            for m in f._fields:
                m._grid = grid

    def op_neg(self, d):
        i = self.rid(d["h"])
        if self.cls[i] == "raw" or not nice(self.dat(i)):
            raise Skip()
        if self.cls[i] == "coll" and any(m is None or not nice(self.dat(m)) for m in self.members(i)):
            raise Skip()
        o = self.objs[i]
        res, err = self.try_real(lambda: -o)
        self.model_ops.append({"op": "neg", "h": i})
        return self.coll_result(res, err)

    def arith_args(self, d):
        a = self.rid(d["a"])
        if self.cls[a] == "raw":
            raise Skip()
        bop = d["bop"]
        mop = {"bop": bop, "a": a}
        if bop == "pow":
            mop["n"] = d["n"]
        if "b" in d:
            b = self.rid(d["b"])
            if self.cls[b] == "raw" or bop in ("rsub", "rdiv", "pow"):
                raise Skip()
            bval, bdata = self.objs[b], self.dat(b)
            mop["b"] = b
        else:
            bval = scal(d["v"]) if bop != "pow" else d["n"]
            bdata = bval
            mop["v"] = enc(bval)
            mop["k"] = scal_kind(d["v"]) if bop != "pow" else 0
        # exactness guard (only when numpy can broadcast the operands at all)
        try:
            np.broadcast(self.dat(a), bdata)
            W, ok = wide_result(bop, self.dat(a), bdata, d.get("n", 2))
            if not ok:
                raise Skip()
        except ValueError:
            W = None
        return a, bval, mop, W

    def op_binop(self, d):
        a, bval, mop, W = self.arith_args(d)
        bop = d["bop"]
        oa = self.objs[a]
        for i in [a] + ([mop["b"]] if "b" in mop else []):
            if self.cls[i] == "coll":
                if any(m is None for m in self.members(i)):
                    raise Skip()
                # `result = collection.copy(dtype=T)` converts the *members'* data to T; members that were
                # re-linked to another collection may have another dtype than the collection itself
                try:
                    T = DTN.get(np.dtype(np.result_type(self.dat(a), bval.data if "b" in mop else bval)))
                except Exception:  # noqa: BLE001
                    T = None
                if T is None or not all(self.converts_exactly(m, T) for m in self.members(i)):
                    raise Skip()
        if bop == "rsub":
            fn = lambda: bval - oa
        elif bop == "rdiv":
            fn = lambda: bval / oa
        elif bop == "pow":
            fn = lambda: oa ** bval
        else:
            fn = lambda: BINOPS[bop](oa, bval)
        res, err = self.try_real(fn)
        mop["op"] = "binop"
        self.model_ops.append(mop)
        return self.coll_result(res, err)

    def op_inplace(self, d):
        a, bval, mop, W = self.arith_args(d)
        bop = d["bop"]
        if bop in ("rsub", "rdiv"):
            raise Skip()
        oa = self.objs[a]
        allowed = [addresses(oa.data)]
        if bop == "pow":
            res, err = self.try_real(lambda: operator.ipow(oa, bval))
        else:
            res, err = self.try_real(lambda: IOPS[bop](oa, bval))
        mop["op"] = "inplace"
        self.model_ops.append(mop)
        return {"err": err, "allowed": allowed, "write": True, "same": (res, oa) if err is None else None}

    OPERATORS = {"scalar": [("laplace", "scalar"), ("gradient", "vector")],
                 "vector": [("divergence", "scalar"), ("vector_gradient", "tensor"), ("vector_laplace", "vector")],
                 "tensor": [("tensor_divergence", "vector")]}

    def op_operator(self, d):
        """`field.apply_operator(name, bc, out=..)`: the boundary condition writes the virtual points of
        the operand, the result is a new field (or written to the valid cells of `out`)"""
        i = self.rid(d["h"])
        if self.cls[i] not in self.OPERATORS or self.dtn(i) == "i64" or self.dtn(i) not in DT:
            raise Skip()
        o = self.objs[i]
        name, out_cls = self.OPERATORS[self.cls[i]][d["which"] % len(self.OPERATORS[self.cls[i]])]
        backend = d.get("backend", "scipy")
        if backend == "scipy" and (type(o.grid).__name__ not in ("UnitGrid", "CartesianGrid")
                                   or len(set(np.asarray(o.grid.discretization).tolist())) != 1):
            raise Skip()
        if not nice(self.dat(i)):
            raise Skip()
        if not self.admissible(i):
            raise Skip()   # documented precondition of the spherically symmetric operators (see `admissible`)
        try:   # not every operator exists for every grid class on every backend
            from pde.backends import get_backend
            get_backend(backend).get_operator_info(o.grid, name)
        except NotImplementedError:   # "Backend .. does not define operator .. for grid .." (backends/base.py:371-376)
            raise Skip() from None
        out = None
        if d.get("out") is not None:
            j = self.rid(d["out"])
            if self.cls[j] != out_cls or self.gid[j] != self.gid[i] or KIND.get(self.dtn(j), -1) < KIND[self.dtn(i)] or j == i:
                raise Skip()
            out = self.objs[j]
        bc = d["bc"]
        if "curvature" in str(bc) and min(o.grid.shape) < 2:
            raise Skip()
        before = np.array(self.full(i), copy=True).ravel()
        allowed = [self.ghost_addresses(i)] + ([addresses(out.data)] if out is not None else [])
        res, err = self.try_real(lambda: o.apply_operator(name, bc=bc, backend=backend, out=out))
        if err is not None:
            raise Unexpected(f"apply_operator({name}) failed unexpectedly: {err}")
        after = np.array(self.full(i), copy=True).ravel()
        if not np.all(np.isfinite(res.data.astype(np.complex128))):
            raise Unexpected("operator result is not finite")
        mop = {"op": "applyOperator", "h": i, "ghosts": self.ghost_op(i, before, after)["vals"], "cls": out_cls,
               "out": None}
        if out is not None:
            if res is not out:
                self.fail("apply_operator(out=f) did not return f", {})
            mop["out"] = self.idmap[id(out)]
            mop["vals"] = enc_arr(self.expand_valid(self.idmap[id(out)], res.data))
            self.model_ops.append(mop)
            return {"err": None, "allowed": allowed, "write": True}
        mop["vals"] = self.derived_op(out_cls, self.gid[i], self.dtn(i), res)["vals"]
        self.model_ops.append(mop)
        return {"err": None, "new": [res], "fresh": [res], "allowed": allowed}

    def derived_op(self, cls, g, dt, res):
        """model operation for `cls(grid, data)` / `cls(grid, "empty")` + valid write: a new padded
        array whose valid cells hold the (oracle) values of the real result"""
        V = np.zeros(res._data_full.shape, dtype=np.complex128)
        V[valid_idx(res.grid)] = res.data
        return {"op": "mkField", "cls": cls, "grid": g, "dt": dt, "cplx": bool(np.iscomplexobj(res.data)),
                "init": "valid", "vals": enc_arr(V)}

    def op_derived(self, d):
        i = self.rid(d["h"])
        if self.cls[i] in ("raw", "coll") or self.dtn(i) not in DT or not nice(self.dat(i)):
            raise Skip()
        o = self.objs[i]
        what = d["what"]
        g = self.gid[i]
        cplx = KIND[self.dtn(i)] == 2
        if what == "to_scalar":
            how = d.get("arg", "auto")
            if self.cls[i] == "vector" and isinstance(how, int):
                how = how % o.grid.dim
            elif how not in ("auto", "norm_squared", "squared_sum", "max", "min"):
                how = "auto"
            if self.cls[i] == "scalar" and how not in ("auto", "norm_squared"):
                how = "auto"
            if cplx and how in ("max", "min"):
                how = "auto"
            res, err = self.try_real(lambda: o.to_scalar(how))
            spec = ("scalar", None)
        elif what in ("real", "imag"):
            res, err = self.try_real(lambda: getattr(o, what))
            spec = (self.cls[i], None)
        elif what == "conjugate":
            res, err = self.try_real(lambda: o.conjugate())
            spec = (self.cls[i], None)
        elif what in ("transpose", "transpose_inplace"):
            # convert("transposed"): `out = self.copy()` (or self) and `out.data = self.data.transpose(..)`
            if self.cls[i] != "tensor":
                raise Skip()
            allowed = [addresses(o.data)]
            res, err = self.try_real(lambda: o.transpose(inplace=(what == "transpose_inplace")))
            if err is not None:
                raise Unexpected(f"transpose failed unexpectedly: {err}")
            if what == "transpose":
                self.model_ops.append({"op": "applyFn", "h": i, "out": None, "vals": enc_arr(self.expand_valid(i, res.data))})
                return {"err": None, "new": [res], "fresh": [res]}
            if res is not o:
                self.fail("transpose(inplace=True) did not return the field itself", {})
            self.model_ops.append({"op": "applyFn", "h": i, "out": i, "vals": enc_arr(self.expand_valid(i, res.data))})
            return {"err": None, "allowed": allowed, "write": True}
        elif what in ("apply", "apply_out"):
            W, ok = wide_result("mul", self.dat(i), 2)
            if not ok:
                raise Skip()
            if what == "apply":
                res, err = self.try_real(lambda: o.apply(lambda x: 2 * x))
                if err is not None:
                    raise Unexpected(f"apply failed unexpectedly: {err}")
                self.model_ops.append({"op": "applyFn", "h": i, "out": None, "vals": enc_arr(self.expand_valid(i, res.data))})
                return {"err": None, "new": [res], "fresh": [res]}
            j = self.rid(d["out"])
            if self.cls[j] != self.cls[i] or self.gid[j] != g or KIND.get(self.dtn(j), -1) < KIND[self.dtn(i)]:
                raise Skip()
            out = self.objs[j]
            allowed = [addresses(out.data)]
            res, err = self.try_real(lambda: o.apply(lambda x: 2 * x, out=out))
            if err is not None:
                raise Unexpected(f"apply(out=) failed unexpectedly: {err}")
            if res is not out:
                self.fail("apply(out=f) did not return f", {})
            self.model_ops.append({"op": "applyFn", "h": i, "out": j, "vals": enc_arr(self.expand_valid(j, res.data))})
            return {"err": None, "allowed": allowed, "write": True}
        else:
            raise Skip()
        if err is not None:
            raise Unexpected(f"{what} failed unexpectedly: {err}")
        if not np.all(np.isfinite(res.data.astype(np.complex128))):
            raise Unexpected("derived result is not finite")
        # `cls(grid, data)` without dtype: the dtype is re-derived from the data (number_array)
        dop = self.derived_op(spec[0], g, None, res)
        self.model_ops.append({"op": "derive", "h": i, "cls": spec[0], "cplx": dop["cplx"], "vals": dop["vals"]})
        return {"err": None, "new": [res], "fresh": [res]}

    def op_storage(self, d):
        what = d["what"]
        if what == "start":
            i = self.rid(d["h"])
            if self.cls[i] == "raw" or self.dtn(i) not in DT:
                raise Skip()
            if self.cls[i] == "coll" and (any(m is None for m in self.members(i))
                                          or not all(self.converts_exactly(m, self.dtn(i)) for m in self.members(i))):
                raise Skip()
            o = self.objs[i]
            st = self.pde.MemoryStorage()
            res, err = self.try_real(lambda: st.start_writing(o))
            if err is not None:
                raise Unexpected(f"start_writing failed unexpectedly: {err}")
            self.model_ops.append({"op": "copy", "h": i, "dt": None})
            self.storages[d["uid"]] = {"st": st, "frames": []}

            def finish():
                self.storages[d["uid"]]["template"] = self.idmap[id(st._field)]
            return {"err": None, "new": [st._field], "fresh": [st._field], "finish": finish}
        S = self.storages.get(d["st"])
        if S is None:
            raise Skip()
        st = S["st"]
        ti = S["template"]
        if what == "append":
            i = self.rid(d["h"])
            if self.cls[i] == "raw" or self.gid[i] != self.gid[ti] or self.dat(i).shape != self.dat(ti).shape:
                raise Skip()
            o = self.objs[i]
            into = DTN.get(np.dtype(st.dtype))
            if into is None or self.dtn(i) not in DT:
                raise Skip()
            res, err = self.try_real(lambda: st.append(o, float(len(st))))
            self.model_ops.append({"op": "storeFrame", "h": i, "into": into})
            if err is not None:
                return {"err": err}     # data that cannot be cast to the dtype of the storage are rejected
            frame = st.data[-1]

            def finish():
                S["frames"].append(self.idmap[id(frame)])
                self.gid[self.idmap[id(frame)]] = self.gid[i]
            return {"err": None, "new": [frame], "fresh": [frame], "finish": finish}
        if what in ("read", "read_many"):
            if not S["frames"]:
                raise Skip()
            nfr = len(S["frames"])
            if what == "read":
                ks = [d["idx"] % nfr]
            elif d["how"] == "slice":      # `storage[i:j:k]`: a list of fields (storage/base.py:294-295)
                ks = list(range(*slice(*d["sl"]).indices(nfr)))
            else:                           # `list(storage)` / `list(storage.items())` (base.py:299-307)
                ks = list(range(nfr))
            if not ks:
                raise Skip()
            if self.dtn(ti) not in DT or (self.cls[ti] == "coll" and any(m is None for m in self.members(ti))):
                raise Skip()
            for k in ks:
                fi = S["frames"][k]
                if self.dtn(fi) not in DT or not nice(self.full(fi)):
                    raise Skip()
                if st.data[k] is not self.objs[fi]:
                    raise RuntimeError("storage frame bookkeeping of the harness is off")
                # storage/base.py:286-293 (since /repo d0418b1): the template is copied as it is if it can hold
                # the frame, otherwise converted to result_type(frame, template) - frames are never narrowed.
                # The copy of a collection template converts the *members'* data to that dtype.
                fdt, tdt = self.full(fi).dtype, self.full(ti).dtype
                T = self.dtn(ti) if np.can_cast(fdt, tdt, casting="safe") else DTN.get(np.dtype(np.result_type(fdt, tdt)))
                if T is None or (self.cls[ti] == "coll" and not all(self.converts_exactly(m, T) for m in self.members(ti))):
                    raise Skip()
            if what == "read":
                res, err = self.try_real(lambda: [st[ks[0]]])
            elif d["how"] == "slice":
                res, err = self.try_real(lambda: st[slice(*d["sl"])])
            elif d["how"] == "items":
                res, err = self.try_real(lambda: [f for _, f in st.items()])
            else:
                res, err = self.try_real(lambda: list(st))
            if err is not None:
                raise Unexpected(f"reading from the storage failed unexpectedly: {err}")
            if not isinstance(res, list) or len(res) != len(ks):
                raise Unexpected(f"reading {len(ks)} frames from the storage returned {type(res).__name__} of length "
                                 f"{len(res) if isinstance(res, list) else '-'}")
            for k in ks:
                self.model_ops.append({"op": "loadFrame", "t": ti, "f": S["frames"][k]})
            return {"err": None, "new": res, "fresh": res}
        raise Skip()

    # ---- running a script ------------------------------------------------------------------
    def run_script(self, script):
        for d in script:
            self.apply(d)
        return self

    def request(self):
        return {"grids": [{"mask": "".join("1" if b else "0" for b in m), "dim": g.dim}
                          for m, g in zip(self.masks, self.grids)],
                "ops": self.model_ops, "adopts": self.adopts}


# ------------------------------------------------------------------------------------------
# generator
def gen_grid(rng):
    r = rng.random()
    if r < 0.30:
        n = rng.choice([1, 2, 3, 3, 4, 5])
        return ["unit", [n], [rng.random() < 0.3]]
    if r < 0.55:
        return ["unit", [rng.randint(1, 3), rng.randint(1, 3)], [rng.random() < 0.3, rng.random() < 0.3]]
    if r < 0.63:
        return ["unit", [rng.randint(1, 2), rng.randint(1, 2), rng.randint(1, 2)], [False, rng.random() < 0.3, False]]
    if r < 0.75:
        n = rng.randint(1, 4)
        return ["cart", [[0, rng.choice([1, 2, 4])]], [n], [rng.random() < 0.3]]
    if r < 0.83:
        return ["cart", [[0, 2], [-1, 1]], [rng.randint(1, 3), rng.randint(2, 3)], [rng.random() < 0.3, False]]
    if r < 0.89:
        return ["polar", rng.choice([0, 1]), 3, rng.randint(2, 4)]
    if r < 0.94:
        return ["sph", rng.choice([0, 1]), 3, rng.randint(1, 4)]
    return ["cyl", 2, 0, 2, rng.randint(1, 3), rng.randint(1, 3), rng.random() < 0.3]


def gen_vals(rng, n, kind):
    """n marker values for a target of numpy kind 0/1/2 (JSON-able)"""
    start = rng.randint(-300, 900)
    sign = rng.choice([1, 1, 1, -1])
    out = []
    for k in range(n):
        x = sign * (start + k)
        if kind == 0:
            out.append(x)
        elif kind == 1:
            out.append(float(x) + rng.choice([0.0, 0.0, 0.5, 0.25]))
        else:
            out.append([float(x), float(rng.randint(-40, 40))])
    return out


def gen_scalar(rng, kind):
    if kind == 0:
        return rng.choice([1, 2, 2, 3, -1, -2, 4, 0, 7])
    if kind == 1:
        return rng.choice([0.5, 2.0, -1.0, 1.5, 4.0, 0.25, 3.0])
    return rng.choice([[0.0, 1.0], [1.0, 1.0], [2.0, -1.0], [0.0, -2.0], [0.5, 0.5]])


DTYPES = [None, "f64", "f64", "f64", "f64", "f32", "f32", "c128", "c128", "c64", "i64", "i64"]
BCS = ["auto_periodic_neumann", "auto_periodic_dirichlet", "auto_periodic_curvature", {"value": 2}, {"derivative": 1},
       {"value": -3}]


def make_admissible(vals, cls, nfull):
    """zero the entries of a flat value list (ncomp * nfull entries) that a spherically symmetric
    vector/tensor field may not have (see `World.admissible`)"""
    zero = [0.0, 0.0] if any(isinstance(v, list) for v in vals) else (0 if all(isinstance(v, int) for v in vals) else 0.0)
    vals = list(vals)
    if cls == "vector":
        keep = {0}
    else:
        keep = {0, 4, 8}
    for c in range(len(vals) // nfull):
        if c not in keep:
            vals[c * nfull:(c + 1) * nfull] = [zero] * nfull
    if cls == "tensor":
        vals[8 * nfull:9 * nfull] = vals[4 * nfull:5 * nfull]
    return vals


class Gen:
    def __init__(self, rng, world, numba_share=0.0, op_boost=1.0):
        """numba_share: probability that a differential operator is applied with the numba backend
        (compiled, or - in a NUMBA_DISABLE_JIT=1 interpreter - its Python source) instead of scipy;
        op_boost: factor on the weight of operator applications"""
        self.rng, self.w = rng, world
        self.uid = 0
        self.numba_share = numba_share
        self.op_boost = op_boost

    def pick(self, pred=lambda i: True, recent=0.5):
        w, rng = self.w, self.rng
        c = [i for i in range(len(w.objs)) if pred(i)]
        if not c:
            return None
        if rng.random() < recent:
            c = c[-6:]
        return rng.choice(c)

    def name(self, i):
        return list(self.w.names[i])

    def kind_for(self, i):
        """numpy kind (0,1,2) of values that fit into handle i; usually the handle's own kind"""
        k = KIND.get(self.w.dtn(i), 1)
        return self.rng.choice([k] * 3 + list(range(k + 1)))

    def propose(self):
        w, rng = self.w, self.rng
        n = len(w.objs)
        nf = sum(1 for c in w.cls if c in ("scalar", "vector", "tensor"))
        ncoll = sum(1 for c in w.cls if c == "coll")
        crowd = 0.25 if n > 45 else 1.0
        table = [
            ("mkField", (6 if nf < 3 else 2) * crowd), ("write", 3 if n else 0), ("cell", 3.5 if n else 0),
            ("ghost", 1.2 if nf else 0), ("component", 2.5 * crowd if nf else 0),
            ("mkColl", 4 * crowd if nf else 0), ("fromData", 0.5 * crowd), ("slice", 1.6 * crowd if ncoll else 0),
            ("append", 1.6 * crowd if ncoll else 0), ("copy", 2.2 * crowd if n else 0), ("deepcopy", 1.3 * crowd if n else 0), ("neg", 1 * crowd if n else 0),
            ("binop", 4 * crowd if nf else 0), ("inplace", 4.5 if nf else 0), ("operator", 1.3 * crowd * self.op_boost if nf else 0),
            ("derived", 1.2 * crowd if nf else 0), ("storage", (4.5 if w.storages else 1.5) * crowd if nf else 0),
            ("malformed", 1.6 if nf else 0),
            # list objects that cross the API: hand-outs, lists built by the caller, in-place operations on them
            ("hand", 2.2 * crowd if ncoll else 0), ("ulist", 0.9 * crowd if nf else 0),
            ("ledit", (4.5 if len(w.lists) < 4 else 3.0) if w.lists else 0),
        ]
        kinds, weights = zip(*table)
        k = rng.choices(kinds, weights)[0]
        self.uid += 1
        d = getattr(self, "g_" + k)()
        if d is not None:
            d["uid"] = self.uid
        return d

    # individual proposals -----------------------------------------------------------------
    def g_mkField(self):
        w, rng = self.w, self.rng
        g = rng.randrange(len(w.grids))
        cls = rng.choice(["scalar", "scalar", "scalar", "vector", "vector", "tensor"])
        dt = rng.choice(DTYPES)
        init = rng.choice(["zeros", "valid", "valid", "valid", "full", "scalar"])
        d = {"k": "mkField", "g": g, "cls": cls, "dt": dt, "init": init}
        if init == "zeros":
            d["default_arg"] = rng.random() < 0.5
        else:
            size = int(np.prod(w.comps_shape(cls, g) + full_shape(w.grids[g])))
            kind = KIND[dt] if dt else rng.choice([0, 1, 1, 2])
            kind = rng.choice([kind] * 3 + list(range(kind + 1)))
            d["vals"] = gen_vals(rng, size, kind)
            if w.gspecs[g][0] == "sph" and cls in ("vector", "tensor") and init != "scalar" and rng.random() < 0.7:
                # fields the spherically symmetric operators accept (no angular components)
                d["vals"] = make_admissible(d["vals"], cls, int(np.prod(full_shape(w.grids[g]))))
            if init == "full":
                d["as_float"] = rng.random() < 0.7
        return d

    def g_write(self):
        w, rng = self.w, self.rng
        i = self.pick()
        if i is None:
            return None
        how = rng.choice(["data", "data", "data_idx", "data_scalar", "full", "full_scalar", "setitem", "setitem", "assign_field",
                          "comp_setitem"])
        d = {"k": "write", "h": self.name(i), "how": how}
        t = i
        if how == "setitem":
            i = self.pick(lambda j: w.cls[j] == "coll")
            if i is None:
                return None
            d["h"] = self.name(i)
            d["idx"] = rng.randrange(8)
            d["by_label"] = rng.random() < 0.5
            t = w.members(i)[d["idx"] % len(w.objs[i].fields)]
            if t is None:
                return None
        if how == "comp_setitem":
            i = self.pick(lambda j: w.cls[j] in ("vector", "tensor"))
            if i is None:
                return None
            d["h"] = self.name(i)
            d["c"] = rng.randrange(9)
            d["by_name"] = rng.random() < 0.3
            j = self.pick(lambda j: w.cls[j] == "scalar" and w.gid[j] == w.gid[i]) if rng.random() < 0.5 else None
            if j is not None:
                d["src"] = self.name(j)
            else:
                d["c_val"] = gen_scalar(rng, self.kind_for(i))
            return d
        if how == "assign_field":
            j = self.pick(lambda j: w.cls[j] in ("scalar", w.cls[i]) and w.gid[j] == w.gid[i] and j != i)
            if j is None:
                return None
            d["src"] = self.name(j)
            return d
        kind = self.kind_for(t)
        if how in ("data_scalar", "full_scalar") and rng.random() < 0.8:
            d["c"] = gen_scalar(rng, kind)
        else:
            d["vals"] = gen_vals(rng, w.full(t).size, kind)
        return d

    def g_cell(self):
        i = self.pick()
        if i is None:
            return None
        kind = self.kind_for(i)
        return {"k": "cell", "h": self.name(i), "via": self.rng.choice(["data", "data", "full"]),
                "pos": self.rng.randrange(10 ** 6), "v": gen_vals(self.rng, 1, kind)[0]}

    def g_ghost(self):
        w = self.w
        i = self.pick(lambda j: w.cls[j] in ("scalar", "vector", "tensor"))
        if i is None:
            return None
        return {"k": "ghost", "h": self.name(i), "bc": self.rng.choice(BCS)}

    def g_component(self):
        w = self.w
        i = self.pick(lambda j: w.cls[j] in ("vector", "tensor"))
        if i is None:
            return None
        return {"k": "component", "h": self.name(i), "c": self.rng.randrange(9), "by_name": self.rng.random() < 0.3}

    def fields_on(self, g, k, allow_dup=False):
        w, rng = self.w, self.rng
        c = [i for i in range(len(w.objs)) if w.cls[i] in ("scalar", "vector", "tensor") and w.gid[i] == g]
        if not c:
            return None
        if allow_dup:
            return [rng.choice(c) for _ in range(k)]
        rng.shuffle(c)
        return c[:k]

    def g_mkColl(self):
        w, rng = self.w, self.rng
        if rng.random() < 0.12:
            ci = self.pick(lambda j: w.cls[j] == "coll")
            if ci is not None:
                return {"k": "mkColl", "how": "steal", "hs": [self.name(ci)], "copy": rng.random() < 0.3, "dt": None}
        cand = [u for u, j in w.lname.items() if w.lists[j]["kind"] != "labels"]
        if cand and rng.random() < 0.3:
            # a list object the caller keeps (and may edit afterwards)
            return {"k": "mkColl", "how": "kept_list", "l": rng.choice(cand[-4:]), "hs": [], "copy": rng.random() < 0.35,
                    "dt": rng.choice([None] * 6 + ["f64", "c128"])}
        g = rng.randrange(len(w.grids))
        ids = self.fields_on(g, rng.choice([1, 1, 2, 2, 3, 4]), allow_dup=rng.random() < 0.12)
        if not ids:
            return None
        dt = rng.choice([None] * 6 + ["f64", "c128", "f32", "c64"])
        return {"k": "mkColl", "how": rng.choice(["list", "list", "list", "mapping"]), "hs": [self.name(i) for i in ids],
                "copy": rng.random() < 0.4, "dt": dt}

    def g_hand(self):
        w, rng = self.w, self.rng
        ci = self.pick(lambda j: w.cls[j] == "coll")
        if ci is None:
            return None
        return {"k": "hand", "c": self.name(ci), "what": rng.choice(["fields", "fields", "fields", "labels", "labels_slice"])}

    def g_ulist(self):
        w, rng = self.w, self.rng
        g = rng.randrange(len(w.grids))
        r = rng.random()
        if r < 0.08:
            return {"k": "ulist", "hs": []}                     # (the constructor rejects an empty list)
        ids = self.fields_on(g, rng.choice([1, 2, 2, 3, 3, 4]), allow_dup=r < 0.2)
        if not ids:
            return None
        return {"k": "ulist", "hs": [self.name(i) for i in ids]}

    def g_ledit(self):
        w, rng = self.w, self.rng
        us = list(w.lname)
        u = rng.choice(us[-3:] if rng.random() < 0.7 else us)
        L = w.lists[w.lname[u]]
        e = rng.choice(["reverse", "reverse", "reverse", "sort", "setItem", "setItem", "pop", "pop", "pop_at", "append",
                        "append", "insert", "delItem", "clear", "extend"])
        if e == "sort" and L["kind"] == "labels":
            e = "reverse"
        d = {"k": "ledit", "l": u, "e": e, "i": rng.randrange(12), "neg": rng.random() < 0.3, "oob": rng.random() < 0.06}
        if e in ("setItem", "append", "insert", "extend"):
            # objects to put into the list: mostly fields on the grid of what the list holds already
            gids = {w.gid[i] for i in w.list_items(L) if isinstance(i, int) and L["kind"] != "labels"}
            c = [i for i in range(len(w.objs)) if w.cls[i] != "raw" and (not gids or w.gid[i] in gids or rng.random() < 0.1)
                 and (w.cls[i] != "coll" or rng.random() < 0.15)]
            if not c:
                return None
            d["xs"] = [self.name(rng.choice(c)) for _ in range(rng.choice([1, 2, 3]) if e == "extend" else 1)]
            d["iadd"] = rng.random() < 0.5
        return d

    def g_fromData(self):
        w, rng = self.w, self.rng
        g = rng.randrange(len(w.grids))
        classes = [rng.choice(["scalar", "scalar", "vector", "tensor"]) for _ in range(rng.choice([1, 2, 3]))]
        kind = rng.choice([1, 1, 2])
        return {"k": "fromData", "g": g, "classes": classes, "vals": gen_vals(rng, 60, kind), "dt": rng.choice([None, None, "f32", "c128"]),
                "ghosts": rng.random() < 0.6}

    def g_slice(self):
        w, rng = self.w, self.rng
        ci = self.pick(lambda j: w.cls[j] == "coll")
        if ci is None:
            return None
        n = len(w.objs[ci].fields)
        sl = rng.choice([[None, None, None], [0, 1, None], [1, None, None], [None, -1, None], [None, None, -1],
                         [None, None, 2], [rng.randrange(n + 1), rng.randrange(n + 2), None], [-1, None, None]])
        return {"k": "slice", "c": self.name(ci), "sl": sl}

    def g_append(self):
        w, rng = self.w, self.rng
        ci = self.pick(lambda j: w.cls[j] == "coll")
        if ci is None:
            return None
        g = w.gid[ci]
        c = [i for i in range(len(w.objs)) if w.cls[i] != "raw" and w.gid[i] == g]
        hs = [rng.choice(c) for _ in range(rng.choice([1, 1, 2]))]
        return {"k": "append", "c": self.name(ci), "hs": [self.name(i) for i in hs]}

    def g_copy(self):
        w, rng = self.w, self.rng
        i = self.pick(lambda j: w.cls[j] != "raw")
        if i is None:
            return None
        return {"k": "copy", "h": self.name(i), "dt": rng.choice([None] * 5 + ["f64", "c128", "f32", "c64"]),
                "how": rng.choice(["copy", "copy", "copy", "ctor"])}

    def g_deepcopy(self):
        w = self.w
        i = self.pick(lambda j: w.cls[j] != "raw")
        return None if i is None else {"k": "deepcopy", "h": self.name(i), "how": self.rng.choice(["deepcopy", "pickle"])}

    def g_neg(self):
        w = self.w
        i = self.pick(lambda j: w.cls[j] != "raw")
        return None if i is None else {"k": "neg", "h": self.name(i)}

    def operand(self, a, inplace, bop="add"):
        """second operand: mostly something compatible with handle a"""
        w, rng = self.w, self.rng
        if rng.random() < 0.1:
            # neutral elements: where a "nothing to do" shortcut would return the operand itself
            return {"v": rng.choice([1, 1.0]) if bop in ("mul", "div") else rng.choice([0, 0.0])}
        if rng.random() < 0.4:
            k = KIND.get(w.dtn(a), 1)
            kk = rng.choice([0, 0, 1, k, k, 2] if not inplace else [0, k, k, min(k, 1)])
            return {"v": gen_scalar(rng, kk)}
        ca = w.cls[a]
        ok = lambda j: w.gid[j] == w.gid[a] and w.cls[j] != "raw" and (
            w.cls[j] in (ca, "scalar") or (ca == "scalar" and not inplace))
        j = self.pick(ok)
        if j is None:
            return {"v": gen_scalar(rng, 0)}
        return {"b": self.name(j)}

    def g_binop(self):
        w, rng = self.w, self.rng
        a = self.pick(lambda j: w.cls[j] != "raw")
        if a is None:
            return None
        bop = rng.choice(["add", "add", "sub", "sub", "mul", "mul", "div", "rsub", "rdiv", "pow"])
        d = {"k": "binop", "a": self.name(a), "bop": bop}
        if bop == "pow":
            d["n"] = rng.choice([2, 2, 3, 1])
            d["v"] = d["n"]
        elif bop in ("rsub", "rdiv"):
            d["v"] = gen_scalar(rng, rng.choice([0, 1]))
        else:
            d.update(self.operand(a, False, bop))
        return d

    def g_inplace(self):
        w, rng = self.w, self.rng
        a = self.pick(lambda j: w.cls[j] != "raw")
        if a is None:
            return None
        bop = rng.choice(["add", "add", "add", "sub", "sub", "mul", "mul", "div", "pow"])
        d = {"k": "inplace", "a": self.name(a), "bop": bop}
        if bop == "pow":
            d["n"] = rng.choice([2, 2, 1])
            d["v"] = d["n"]
        else:
            d.update(self.operand(a, True, bop))
        return d

    def g_operator(self):
        w, rng = self.w, self.rng
        backend = "numba" if rng.random() < self.numba_share else "scipy"
        cart = lambda j: w.gspecs[w.gid[j]][0] in ("unit", "cart")
        i = self.pick(lambda j: w.cls[j] in ("scalar", "vector", "tensor") and w.admissible(j) and (backend == "numba" or cart(j)))
        if i is None:
            i = self.pick(lambda j: w.cls[j] in ("scalar", "vector", "tensor"))
        if i is None:
            return None
        d = {"k": "operator", "h": self.name(i), "which": rng.randrange(6), "bc": rng.choice(BCS[:3]),
             "backend": backend, "out": None}
        if rng.random() < 0.35:
            name, out_cls = World.OPERATORS[w.cls[i]][d["which"] % len(World.OPERATORS[w.cls[i]])]
            j = self.pick(lambda j: w.cls[j] == out_cls and w.gid[j] == w.gid[i] and j != i)
            if j is not None:
                d["out"] = self.name(j)
        return d

    def g_derived(self):
        w, rng = self.w, self.rng
        i = self.pick(lambda j: w.cls[j] in ("scalar", "vector", "tensor"))
        if i is None:
            return None
        what = rng.choice(["to_scalar", "to_scalar", "real", "imag", "conjugate", "transpose", "transpose_inplace", "apply", "apply_out"])
        d = {"k": "derived", "h": self.name(i), "what": what}
        if what == "to_scalar":
            d["arg"] = rng.choice(["auto", "norm_squared", "squared_sum", "max", "min", 0, 1, 2])
        if what == "apply_out":
            j = self.pick(lambda j: w.cls[j] == w.cls[i] and w.gid[j] == w.gid[i])
            if j is None:
                return None
            d["out"] = self.name(j)
        return d

    def g_storage(self):
        w, rng = self.w, self.rng
        if not w.storages or rng.random() < 0.15:
            i = self.pick(lambda j: w.cls[j] != "raw")
            return None if i is None else {"k": "storage", "what": "start", "h": self.name(i)}
        filled = sorted(k for k, S in w.storages.items() if S["frames"])
        st = rng.choice(filled) if filled and rng.random() < 0.6 else rng.choice(sorted(w.storages))
        S = w.storages[st]
        if S["frames"] and rng.random() < 0.65:
            if rng.random() < 0.25:
                how = rng.choice(["slice", "iter", "items"])
                d = {"k": "storage", "what": "read_many", "st": st, "how": how}
                if how == "slice":
                    d["sl"] = rng.choice([[None, None, None], [None, 2, None], [-2, None, None], [None, None, -1], [1, None, 2]])
                return d
            return {"k": "storage", "what": "read", "st": st, "idx": rng.randrange(8)}
        ti = S["template"]
        i = self.pick(lambda j: w.cls[j] == w.cls[ti] and w.gid[j] == w.gid[ti] and w.dat(j).shape == w.dat(ti).shape)
        return None if i is None else {"k": "storage", "what": "append", "st": st, "h": self.name(i)}

    def g_malformed(self):
        """operations whose expected outcome is an error class and an unchanged world"""
        w, rng = self.w, self.rng
        r = rng.random()
        fields = [i for i in range(len(w.objs)) if w.cls[i] in ("scalar", "vector", "tensor")]
        colls = [i for i in range(len(w.objs)) if w.cls[i] == "coll"]
        if r < 0.2 and len(w.grids) > 1:          # grids differ
            a = rng.choice(fields)
            other = [i for i in fields if w.gid[i] != w.gid[a]]
            if other:
                b = rng.choice(other)
                if rng.random() < 0.5:
                    return {"k": "mkColl", "how": "list", "hs": [self.name(a), self.name(b)], "copy": rng.random() < 0.5, "dt": None}
                return {"k": rng.choice(["binop", "inplace"]), "a": self.name(a), "bop": rng.choice(["add", "mul", "div"]), "b": self.name(b)}
        if r < 0.4 and colls:                        # nested collection
            c = rng.choice(colls)
            same = [i for i in fields if w.gid[i] == w.gid[c]]
            hs = [self.name(c)] + ([self.name(rng.choice(same))] if same else [])
            rng.shuffle(hs)
            return {"k": "mkColl", "how": "list", "hs": hs, "copy": rng.random() < 0.5, "dt": None}
        if r < 0.5 and colls:                        # empty slice
            c = rng.choice(colls)
            n = len(w.objs[c].fields)
            return {"k": "slice", "c": self.name(c), "sl": rng.choice([[n, None, None], [1, 1, None], [0, 0, None]])}
        if r < 0.7:                                  # class mismatch / right operand not scalar
            a = rng.choice(fields)
            other = [i for i in fields + colls if w.gid[i] == w.gid[a] and w.cls[i] not in (w.cls[a], "scalar")]
            if other:
                return {"k": rng.choice(["binop", "inplace"]), "a": self.name(a), "bop": rng.choice(["add", "sub", "mul", "div"]),
                        "b": self.name(rng.choice(other))}
        # casting error of an in-place operation / integer division
        a = rng.choice(fields + colls)
        k = KIND.get(w.dtn(a), 1)
        if k == 2:
            return None
        if k == 0 and rng.random() < 0.5:
            return {"k": rng.choice(["binop", "inplace"]), "a": self.name(a), "bop": "div", "v": rng.choice([1, 2])}
        return {"k": "inplace", "a": self.name(a), "bop": rng.choice(["add", "mul", "sub"]), "v": gen_scalar(rng, k + 1)}


def gen_history(rng, length, numba_share=0.0, monitors=True, op_boost=1.0):
    gspecs = [gen_grid(rng)]
    if rng.random() < 0.3:
        # the second grid must be unequal AND incompatible in py-pde's sense (a UnitGrid equals the
        # CartesianGrid with the same shape and bounds although the two are not `compatible_with`)
        g2 = gen_grid(rng)
        a, b = make_grid(gspecs[0]), make_grid(g2)
        if (a.shape, a.axes_bounds) != (b.shape, b.axes_bounds):
            gspecs.append(g2)
    w = World(gspecs, monitors=monitors)
    gen = Gen(rng, w, numba_share, op_boost)
    tries = 0
    while len(w.script) < length and tries < 6 * length and w.unexpected is None and not w.halted:
        tries += 1
        d = gen.propose()
        if d is not None:
            w.apply(d)
    return w


# ------------------------------------------------------------------------------------------
# correspondence
def compare(w, answer):
    """first difference between the real observations of world `w` and the model's records, or None"""
    status, recs = answer
    if status != "ok":
        return {"step": None, "what": "model error", "model": recs, "impl": None}
    if len(recs) != len(w.model_ops):
        return {"step": None, "what": "number of model records", "model": len(recs), "impl": len(w.model_ops)}
    cur_model, cur_real = {}, {}
    last = -1
    for t, rec in enumerate(w.steps):
        mi = rec["model_idx"]
        ch = {}
        for k in range(last + 1, mi + 1):
            if k < mi and recs[k]["err"] is not None:
                return {"step": t, "what": "intermediate model step failed", "model": recs[k]["err"], "impl": None}
            for e in recs[k]["ch"]:
                ch[e["id"]] = e
        m = recs[mi] if mi > last else {"err": None, "n": rec["n"], "al": None}
        last = max(last, mi)
        opname = f"{rec['kind']} (operation {t} of the history)"
        if m["err"] != rec["err"]:
            return {"step": t, "what": f"outcome of {opname}", "model": m["err"], "impl": rec["err"]}
        if m["n"] != rec["n"]:
            return {"step": t, "what": f"number of objects after {opname}", "model": m["n"], "impl": rec["n"]}
        cur_real.update(rec["changed"])
        cur_model.update(ch)
        if m["al"] is not None:
            mal = {(a, b, r) for a, b, r in m["al"]}
            if mal != rec["pairs"]:
                return {"step": t, "what": f"aliasing relation (i, j, offset of j relative to i) after {opname}",
                        "model": sorted(mal - rec["pairs"]), "impl": sorted(rec["pairs"] - mal, key=str),
                        "note": "entries only in the model / only in the real code"}
        if rec["dbad"]:
            return {"step": t, "what": "`data` arrays do not share memory although `_data_full` arrays do",
                    "model": None, "impl": rec["dbad"]}
        if sorted(m.get("stale") or []) != rec["stale"]:
            return {"step": t, "what": f"objects whose `data` is not a view of their current `_data_full` after {opname}",
                    "model": sorted(m.get("stale") or []), "impl": rec["stale"]}
        extra = sorted(set(rec["changed"]) - set(ch))
        if extra:
            return {"step": t, "what": f"handles whose memory/values changed in the real code but not in the model after {opname}",
                    "model": sorted(ch), "impl": extra}
        for i, e in sorted(ch.items()):
            r = cur_real.get(i)
            if r is None:
                return {"step": t, "what": "handle unknown to the real world", "model": i, "impl": None}
            for key, mv, rv in (("dtype", e["dt"], r["dt"]), ("length", e["len"], r["size"]), ("class", e["cls"], r["cls"]),
                                ("grid", e["grid"], r["grid"]), ("contiguous", True, r["contig"]),
                                ("members", e["members"], r["members"])):
                if mv != rv:
                    return {"step": t, "what": f"{key} of handle {i} after {opname}", "model": mv, "impl": rv}
            rv = exact_list(r["vals"])
            for p, (a, b) in enumerate(zip(e["vals"], rv)):
                a = dec(a)
                if a is not None and a != b:
                    return {"step": t, "what": f"value read through handle {i} ({e['cls']}) at padded position {p} after {opname}",
                            "model": str(a), "impl": str(b)}
        if m.get("lists") is not None:
            ml, rl = m["lists"], rec["lists"]
            if len(ml) != len(rl):
                return {"step": t, "what": f"number of list objects of the caller after {opname}", "model": len(ml), "impl": len(rl)}
            for j, (a, b) in enumerate(zip(ml, rl)):
                if b["kind"] == "labels":
                    mv = [b["tokstr"].get(x, f"<label of object {x}>") for x in a["items"]]
                else:
                    mv = a["items"]
                if a["kind"] != b["kind"].replace("labels_slice", "labels") or mv != b["items"]:
                    return {"step": t, "what": f"content of list object {j} ({b['kind']}) after {opname}", "model": mv, "impl": b["items"]}
        lab, seen = [], {}
        for i in range(rec["n"]):
            lab.append(seen.setdefault(cur_model[i]["buf"], i))
        if lab != rec["root"]:
            return {"step": t, "what": f"partition of the handles into underlying arrays after {opname}", "model": lab, "impl": rec["root"]}
    return None


def diff_key(diff):
    """kind of a disagreement, independent of handle numbers and operation positions"""
    import re
    return re.sub(r"\d+", "#", diff["what"])


# ------------------------------------------------------------------------------------------
# execution mode.  A history is executed either with numba's JIT compiler (what users run) or in an
# interpreter started with NUMBA_DISABLE_JIT=1 (the Python source of the compiled functions: every
# operator of the numba backend on every grid class without compilation cost, Python semantics of
# `assert`).  The mode is part of the case; shrinking, the failing-input search and `--replay`
# re-execute a case in a fresh interpreter of the recorded mode.
def current_mode():
    import numba
    return {"jit": not bool(numba.config.DISABLE_JIT)}


def mode_env(mode):
    return {"NUMBA_DISABLE_JIT": "0" if mode.get("jit", True) else "1", "MALLOC_PERTURB_": "165"}


def enter_mode(mode):
    """to be called before `pde`/`numba` are imported in this interpreter"""
    import sys
    if "numba" not in sys.modules:
        os.environ.update(mode_env(mode))
    if current_mode()["jit"] != bool(mode.get("jit", True)):
        raise RuntimeError(f"this interpreter runs numba with {current_mode()}, the case wants {mode}")


def in_mode(func, args, mode, workdir=None):
    """func(args) in a fresh interpreter of the given execution mode"""
    from harness.common.isolated import run_one
    from harness.common.lean import BrokenCheck
    r = run_one("harness.c15", func, args, env=mode_env(mode), workdir=workdir)
    if isinstance(r, str) and r.startswith("EXC:"):
        raise BrokenCheck(f"harness.c15.{func} failed in mode {mode}: {r}")
    return r


def case_of(w):
    return {"grids": w.gspecs, "script": w.script, "mode": current_mode()}


# fixed histories about list objects, executed in every run (whatever the seed): three fields a, v, b on a 1-d grid,
# a collection, and the in-place operations a caller may apply to a list it holds
def _fixed_fields():
    return [{"k": "mkField", "g": 0, "cls": "scalar", "dt": None, "init": "valid", "vals": [0.0, 1.0, 2.0, 3.0, 0.0], "uid": 1},
            {"k": "mkField", "g": 0, "cls": "vector", "dt": None, "init": "valid", "vals": [0.0, 4.0, 5.0, 6.0, 0.0], "uid": 2},
            {"k": "mkField", "g": 0, "cls": "scalar", "dt": "f32", "init": "valid", "vals": [0.0, 7.0, 8.0, 9.0, 0.0], "uid": 3},
            {"k": "mkField", "g": 0, "cls": "scalar", "dt": None, "init": "zeros", "default_arg": True, "uid": 4}]


def _edit(l, e, uid, i=0, xs=None, **kw):
    d = {"k": "ledit", "l": l, "e": e, "i": i, "neg": False, "oob": False, "uid": uid}
    if xs is not None:
        d.update(xs=xs, iadd=False)
    d.update(kw)
    return d


def fixed_histories():
    names = [[1, 0], [2, 0], [3, 0]]
    coll = {"k": "mkColl", "how": "list", "hs": names, "copy": False, "dt": None, "uid": 5}
    out = []
    # the list passed to the constructor, edited afterwards
    for j, e in enumerate([_edit(5, "reverse", 7), _edit(5, "append", 7, xs=[[4, 0]]), _edit(5, "pop", 7),
                           _edit(5, "setItem", 7, i=0, xs=[[4, 0]])]):
        for cp in (False, True):
            out.append((f"caller-list:{e['e']}:copy_fields={cp}", _fixed_fields() + [
                {"k": "ulist", "hs": names, "uid": 5},
                {"k": "mkColl", "how": "kept_list", "l": 5, "hs": [], "copy": cp, "dt": None, "uid": 6}, e,
                {"k": "write", "h": [6, 0], "how": "data_scalar", "c": 5.0, "uid": 8}]))
    # the list obtained from `fc.fields`
    edits = [_edit(6, "reverse", 7), _edit(6, "sort", 7), _edit(6, "setItem", 7, i=0, xs=[[4, 0]]), _edit(6, "pop", 7),
             _edit(6, "pop_at", 7, i=0), _edit(6, "append", 7, xs=[[4, 0]]), _edit(6, "insert", 7, i=1, xs=[[4, 0]]),
             _edit(6, "delItem", 7, i=1), _edit(6, "clear", 7), _edit(6, "extend", 7, xs=[[4, 0], [1, 0]], iadd=True),
             _edit(6, "delItem", 7, i=1, oob=True)]
    for e in edits:
        out.append((f"fields:{e['e']}", _fixed_fields() + [coll, {"k": "hand", "c": [5, 0], "what": "fields", "uid": 6}, e,
                    {"k": "hand", "c": [5, 0], "what": "fields", "uid": 8}, _edit(8, "reverse", 9),
                    {"k": "write", "h": [5, 0], "how": "setitem", "idx": 0, "c": 5.0, "uid": 10},
                    {"k": "copy", "h": [5, 0], "dt": None, "how": "copy", "uid": 11}]))
    # lists of labels
    for what in ("labels", "labels_slice"):
        for e in (_edit(6, "reverse", 7), _edit(6, "setItem", 7, i=0, xs=[[4, 0]]), _edit(6, "clear", 7)):
            out.append((f"{what}:{e['e']}", _fixed_fields() + [coll, {"k": "hand", "c": [5, 0], "what": what, "uid": 6}, e,
                        {"k": "hand", "c": [5, 0], "what": "fields", "uid": 8}]))
    return [(name, {"grids": [["unit", [3], [False]]], "script": sc}) for name, sc in out]


def fixed_leg(args):
    """the fixed histories on the real code (monitors) and on the model, in this interpreter's mode"""
    workdir = sub_workdir()
    res = []
    for name, case in fixed_histories():
        case = dict(case, mode=current_mode())
        w = rebuild(case)
        diff = model_diff(w, workdir)
        res.append((name, dict(case, script=w.script), w.mfail, None if diff is None else plain(diff), w.n_monitor, w.n_list_edits,
                    len(w.script) == len(case["script"]) or w.halted))
    return res


def case_mode(case):
    return case.get("mode") or {"jit": True}


def rebuild(case, monitors=True, script=None):
    enter_mode(case_mode(case))
    w = World(case["grids"], monitors=monitors)
    return w.run_script(case["script"] if script is None else script)


def ddmin(script, failing_many):
    """1-minimal failing sublist of `script`; `failing_many(list of scripts) -> list of bool`"""
    cur = list(script)
    gran = 2
    while len(cur) >= 2:
        size = max(1, len(cur) // gran)
        chunks = [(i, i + size) for i in range(0, len(cur), size)]
        cands = [cur[:lo] + cur[hi:] for lo, hi in chunks]
        res = failing_many(cands)
        hit = next((c for c, r in zip(cands, res) if r), None)
        if hit is not None:
            cur = hit
            gran = max(gran - 1, 2)
        elif size == 1:
            break
        else:
            gran = min(len(cur), gran * 2)
    return cur


REF_FIELDS = ("h", "a", "b", "c", "src", "out")


def retargets(case, script):
    """variants of `script` whose last operation refers to other (earlier) handles - lets the
    shrinker drop the operations that only built the handle the failing operation happened to use"""
    w = rebuild(case, monitors=False, script=script[:-1])
    names = [list(n) for n in w.names]
    last = script[-1]
    out = []
    for f in REF_FIELDS:
        if isinstance(last.get(f), list):
            for n in names:
                if n != last[f]:
                    out.append(script[:-1] + [dict(last, **{f: n})])
    for key in ("hs", "xs"):
        if isinstance(last.get(key), list):
            for k in range(len(last[key])):
                for n in names:
                    if n != last[key][k]:
                        out.append(script[:-1] + [dict(last, **{key: last[key][:k] + [n] + last[key][k + 1:]})])
    return out[:80]


def shrink(case, failing_many):
    cur = ddmin(case["script"], failing_many)
    for _ in range(4):
        if len(cur) <= 2:
            break
        cands = retargets(case, cur)
        res = failing_many(cands)
        best = cur
        for c, r in zip(cands, res):
            if r:
                c2 = ddmin(c, failing_many)
                if len(c2) < len(best):
                    best = c2
                    if len(best) <= 2:
                        break
        if len(best) == len(cur):
            break
        cur = best
    return cur


def shrink_monitor(args):
    """(case, what) -> (smaller case, its own failure record), both from ONE execution: the record
    returned is the one the returned script produces.  If the shrunk script does not reproduce the
    failure `what` (a flaky shrink) the original case is re-executed and returned; None as record
    if even that does not reproduce.  Runs in an interpreter of the mode of the case."""
    case, what = args

    def failing_many(cands):
        out = []
        for sc in cands:
            try:
                w = rebuild(case, script=sc)
                out.append(any(f["what"] == what for f in w.mfail))
            except Exception:  # noqa: BLE001
                out.append(False)
        return out
    for script in (shrink(case, failing_many), case["script"]):
        w = rebuild(case, script=script)
        ff = next((f for f in w.mfail if f["what"] == what), None)
        if ff is not None:
            return dict(case, script=w.script), ff
    return case, None


def model_diff(w, workdir):
    """first difference between the real world `w` and the model replay of its operations"""
    from harness.common.lean import LeanBatch
    b = LeanBatch(workdir)
    b.add("c15.run", w.request())
    diff = compare(w, b.run()[0])
    if diff is None and w.unexpected is not None:
        diff = {"step": len(w.steps), "what": "outcome of a valid operation", "model": "ok", "impl": w.unexpected}
    return diff


def sub_workdir():
    d = os.path.join(os.environ["VERIF_WORKDIR"], f"c15s{os.getpid()}")
    os.makedirs(d, exist_ok=True)
    return d


def shrink_disagreement(args):
    """(case, kind of difference) -> (smaller case, its own difference); same contract as
    `shrink_monitor`"""
    from harness.common.lean import LeanBatch
    case, what_key = args
    workdir = sub_workdir()

    def failing_many(cands):
        b = LeanBatch(workdir)
        ws = []
        for sc in cands:
            try:
                w = rebuild(case, monitors=False, script=sc)
                b.add("c15.run", w.request())
                ws.append(w)
            except Exception:  # noqa: BLE001
                ws.append(None)
        ans = iter(b.run()) if any(w is not None for w in ws) else iter(())
        out = []
        for w in ws:
            if w is None:
                out.append(False)
                continue
            diff = compare(w, next(ans))
            out.append(diff is not None and diff_key(diff) == what_key)
        return out
    for script in (shrink(case, failing_many), case["script"]):
        w = rebuild(case, monitors=False, script=script)
        diff = model_diff(w, workdir)
        if diff is not None and diff_key(diff) == what_key:
            return dict(case, script=w.script), plain(diff)
    return case, None


def plain(diff):
    return {k: (v if isinstance(v, (str, int, type(None))) else str(v)[:2000]) for k, v in diff.items()}


def summarize(case):
    """short readable form of a history (values elided)"""
    out = []
    for d in case["script"]:
        e = {k: v for k, v in d.items() if k != "vals"}
        out.append(e)
    return out


# ------------------------------------------------------------------------------------------
def worker(args):
    """generate histories, execute them on the real code (monitors included), replay them on the
    model, compare; returns only picklable summaries (run in a fresh interpreter)"""
    import random
    from harness.common.lean import LeanBatch
    seed, n_hist, n_numba, jit = args
    enter_mode({"jit": jit})
    rng = random.Random(seed)
    workdir = os.path.join(os.environ["VERIF_WORKDIR"], f"c15w{os.getpid()}")
    os.makedirs(workdir, exist_ok=True)
    out = {"cases": [], "hists": collections.defaultdict(collections.Counter), "monitor_evals": 0,
           "mfails": [], "dis": [], "list_edits": 0}
    hist = lambda name, key, n=1: out["hists"][name].update({str(key): n})
    done = 0
    while done < n_hist:
        batch = LeanBatch(workdir)
        worlds = []
        for h in range(min(100, n_hist - done)):
            # compiled mode: the first `n_numba` histories of the worker use the compiled numba backend
            # for half of their operators (1-7 s of compilation per operator and grid), the others
            # scipy; source mode (NUMBA_DISABLE_JIT=1): the numba backend for most operators
            compiled = jit and (done + h) < n_numba
            share = (0.8 if compiled else 0.0) if jit else 0.7
            w = gen_history(rng, rng.randint(5, 40), numba_share=share, op_boost=6.0 if compiled else 1.0)
            worlds.append(w)
            batch.add("c15.run", w.request())
        answers = batch.run()
        for w, ans in zip(worlds, answers):
            case = case_of(w)
            out["cases"].append(({"grids": case["grids"], "mode": case["mode"], "ops": summarize(case)},
                                 bool(w.write_seen and "alias" in w.flags)))
            out["monitor_evals"] += w.n_monitor
            out["list_edits"] += w.n_list_edits
            hist("history_ended_by_list_finding", bool(w.halted))
            hist("constructor_keeps_caller_list", bool(w.adopts))
            hist("history_length", len(w.script))
            hist("execution_mode", "numba-jit" if jit else "NUMBA_DISABLE_JIT=1")
            hist("objects_at_end", min(len(w.objs) // 10 * 10, 90))
            for g in w.gspecs:
                hist("grid", f"{g[0]}{len(g[1]) if g[0] == 'unit' else ''}")
            for d, rec in zip(w.script, w.steps):
                hist("operation", d["k"] + (":" + str(d.get("how", d.get("what", d.get("bop", ""))))
                                            if d["k"] in ("write", "storage", "derived", "binop", "inplace", "mkColl", "hand") else ""))
                hist("outcome", rec["err"] or "ok")
                if d["k"] == "ledit":
                    L = w.lists[w.lname[d["l"]]]
                    hist("list_edit", f"{d['e']}:{L['kind']}" + (":passed-to-constructor" if L["given"] else ""))
                if d["k"] == "operator":
                    gk = w.gspecs[w.gid[w.byname[tuple(d["h"])]]][0]
                    hist("operator_backend", d.get("backend") + ("" if jit or d.get("backend") != "numba" else "(source)"))
                    hist("operator_grid_class", f"{gk}:{w.cls[w.byname[tuple(d['h'])]]}:{d.get('backend')}")
            for k, n in w.skips.items():
                hist("proposals_not_applicable", k, n)
            for i in range(len(w.objs)):
                hist("dtype", w.dtn(i))
                hist("class", w.cls[i])
            hist("alias_pairs_at_end", min(len(w.steps[-1]["pairs"]) if w.steps else 0, 50) // 5 * 5)
            seen = set()
            for f in w.mfail:
                if f["what"] not in seen:
                    seen.add(f["what"])
                    out["mfails"].append((case, f))
            diff = compare(w, ans)
            if diff is None and w.unexpected is not None:
                diff = {"step": len(w.steps), "what": "outcome of a valid operation", "model": "ok", "impl": w.unexpected}
            if diff is not None:
                out["dis"].append((case, plain(diff)))
        done += len(worlds)
    out["hists"] = {k: dict(v) for k, v in out["hists"].items()}
    return out


def failure_record(case, ff):
    """the monitor-failure record of `ff`, which `case` itself produced"""
    return {"leg": "monitor", "case": case,
            "observed": {"failure": ff["what"], "at_operation": ff["step"], "detail": ff["detail"],
                         "execution_mode": case_mode(case), "history": summarize(case)},
            "expected": "the property statement holds after every operation",
            "what": ff["what"].split(":")[-1].strip(), "key": finding_key(ff)}


def run(ctx):
    from harness.common.isolated import run_many
    procs = ctx.budget(8, 16)
    n_hist = ctx.budget(1600, 24000)
    per = -(-n_hist // procs)
    # first half of the workers: numba compiles (the mode users run); operators on the scipy backend
    # except for 12 (thorough: 40) operator-heavy histories per worker that pay for compilation
    # (0.2-1 s per operator and grid with a fresh cache).  Second half: interpreters
    # started with NUMBA_DISABLE_JIT=1, operators mostly on the numba backend (all grid classes).
    jobs = []
    for k in range(procs):
        jit = k < procs // 2
        jobs.append((f"C15:{ctx.seed}:{ctx.rng.getrandbits(64)}:{k}", per, ctx.budget(12, 40) if jit else 0, jit))
    results = run_many("harness.c15", "worker", jobs, procs=procs, workdir=ctx.workdir, env={"MALLOC_PERTURB_": "165"})
    mfails, dis = [], []
    for r in results:
        if isinstance(r, str):
            from harness.common.lean import BrokenCheck
            raise BrokenCheck("worker failed: " + r)
        for case, nontrivial in r["cases"]:
            ctx.count(case, nontrivial=nontrivial, leg="history")
            ctx.impl_traces += 1
        ctx.monitor_evals += r["monitor_evals"]
        ctx.legs["list-edit"] += r["list_edits"]
        for name, cnt in r["hists"].items():
            for key, n in cnt.items():
                ctx.hist(name, key, n)
        mfails += r["mfails"]
        dis += r["dis"]
    # fixed histories about list objects (every run, whatever the seed), in both execution modes in turn
    for name, case, mf, diff, n_mon, n_edits, complete in in_mode("fixed_leg", (), {"jit": bool(ctx.seed % 2)}, ctx.workdir):
        ctx.count({"fixed": name, "ops": summarize(case), "mode": case["mode"]}, nontrivial=True, leg="fixed-list-history")
        ctx.impl_traces += 1
        ctx.monitor_evals += n_mon
        ctx.legs["list-edit"] += n_edits
        if not complete:
            from harness.common.lean import BrokenCheck
            raise BrokenCheck(f"fixed history `{name}` is not executable: {summarize(case)}")
        seen_f = set()
        for f in mf:
            if f["what"] not in seen_f:
                seen_f.add(f["what"])
                mfails.append((case, f))
        if diff is not None:
            dis.append((case, diff))
    # monitor failures: one shrunk history per kind of failure, the others as found
    mfails.sort(key=lambda cf: len(cf[0]["script"]))
    shrunk = set()
    for case, f in mfails:
        small, ff = case, f
        if f["what"] not in shrunk:
            shrunk.add(f["what"])
            s2, f2 = in_mode("shrink_monitor", (case, f["what"]), case_mode(case), ctx.workdir)
            if f2 is not None:      # (otherwise: not reproducible in a fresh interpreter - reported as found)
                small, ff = s2, f2
        rec = failure_record(small, ff)
        ctx.monitor_fail(rec["leg"], rec["case"], rec["observed"], rec["expected"], rec["what"], key=rec["key"])
    # disagreements: shrink (at most three kinds), shortest first
    dis.sort(key=lambda cd: len(cd[0]["script"]))
    kinds = set()
    for case, diff in dis:
        key = diff_key(diff)
        if key in kinds or len(kinds) >= 3 or diff["what"] == "outcome of a valid operation":
            ctx.disagree("correspondence", case, diff.get("model"), diff.get("impl"),
                         diff["what"] + " | history: " + str(summarize(case))[:1500])
            continue
        kinds.add(key)
        small, d2 = in_mode("shrink_disagreement", (case, key), case_mode(case), ctx.workdir)
        if d2 is None:
            small, d2 = case, diff
        ctx.disagreements.insert(0, {"leg": "correspondence", "case": small, "model": str(d2.get("model"))[:2000],
                                     "impl": str(d2.get("impl"))[:2000],
                                     "note": d2["what"] + " | history: " + str(summarize(small))[:1500]})


def finding_key(f):
    if f["what"] == KEPT_LIST:
        return {"call_site": "FieldCollection.__init__", "argument": "fields=<list>, copy_fields=False",
                "symptom": "caller-list-kept-as-member-list"}
    if f["what"] in (HANDOUT_ALIAS, HANDOUT_WRONG):
        return {"call_site": "FieldCollection.fields / labels", "symptom": "handed-out-list-aliases-collection"}
    if f["what"] == RELINK_DETACH:
        return {"call_site": "FieldCollection.__init__", "argument": "copy_fields=False",
                "symptom": "component-view-taken-earlier-detached-from-relinked-field"}
    if f["detail"].get("operation") == "deepcopy" and ("data is not the live view" in f["what"] or "member" in f["what"]
                                                      or "not seen through" in f["what"]):
        return {"call_site": "FieldBase.__setstate__", "symptom": "data-detached-from-data_full-after-pickle-or-deepcopy"}
    if "component view" in f["what"]:
        return {"call_site": "VectorField/Tensor2Field.__getitem__",
                "symptom": "component-copy-for-non-default-dtype" if f["detail"].get("shares_memory") is False else "component-view-wrong"}
    if "member does not alias" in f["what"] or "not seen through" in f["what"]:
        return {"call_site": "FieldCollection.__init__", "symptom": "copied-members-detached"}
    return {"call_site": f["what"].split(":")[0]}


def monitor_search(args):
    """monitors alone on the given cases (in this interpreter's mode); first failure, shrunk"""
    cases, = args
    for c in cases:
        try:
            w = rebuild(c)
        except Exception:  # noqa: BLE001
            continue
        if w.mfail:
            small, ff = shrink_monitor((c, w.mfail[0]["what"]))
            if ff is not None:
                return failure_record(small, ff)
    return None


def fresh_search(args):
    """a fresh sample of histories with the monitors alone"""
    import random
    seed, n, jit = args
    enter_mode({"jit": jit})
    rng = random.Random(seed)
    for _ in range(n):
        w = gen_history(rng, rng.randint(5, 40), numba_share=0.0 if jit else 0.7)
        if w.mfail:
            small, ff = shrink_monitor((case_of(w), w.mfail[0]["what"]))
            if ff is not None:
                return failure_record(small, ff)
    return None


def search(ctx, broken):
    """failing-input search after a broken tie: the monitors alone on the disagreeing histories
    (each in its recorded execution mode) and on a larger fresh sample in both modes"""
    for dmeta in broken:
        c = dmeta.get("case") if isinstance(dmeta, dict) else None
        if c and "script" in c:
            rec = in_mode("monitor_search", ([c],), case_mode(c), ctx.workdir)
            if rec is not None:
                return [rec]
    n = ctx.budget(1500, 6000)
    for jit in (True, False):
        rec = in_mode("fresh_search", (f"C15:{ctx.seed}:search:{jit}", n // 2, jit), {"jit": jit}, ctx.workdir)
        if rec is not None:
            return [rec]
    return []


def replay_case(args):
    """re-execute one recorded history (fresh interpreter of the recorded mode): monitor failures,
    difference to the model"""
    case, = args
    w = rebuild(case)
    out = {"ops": summarize({"script": w.script}), "n_recorded": len(case["script"]), "mfail": w.mfail,
           "mode": current_mode(), "skipped": dict(w.skips)}
    try:
        out["diff"] = model_diff(w, sub_workdir())
        if out["diff"] is not None:
            out["diff"] = plain(out["diff"])
    except Exception as e:  # noqa: BLE001
        out["diff_error"] = str(e)[:500]
    return out


def replay(ctx, rep):
    """Re-run the recorded case on the real code, in the recorded execution mode, and judge the
    recorded symptom.

    * failing-input file (`case` + `observed.failure`): False iff the monitor reports the recorded
      failure again on this history (other monitor failures are printed, they are not what was
      recorded);
    * broken-tie file (`broken`: list of cases where model and code differed): False while model and
      code still differ on one of the recorded histories;
    * a file without an executable history cannot be replayed: says so and returns False."""
    todo = []
    if isinstance(rep.get("case"), dict) and "script" in rep["case"]:
        symptom = (rep.get("observed") or {}).get("failure") if isinstance(rep.get("observed"), dict) else None
        todo.append(("failing-input", rep["case"], symptom))
    for b in rep.get("broken", []) or []:
        if isinstance(b, dict) and isinstance(b.get("case"), dict) and "script" in b["case"]:
            todo.append(("broken-tie", b["case"], b.get("note")))
    if not todo:
        print("this replay file carries no executable history (no `case.script`, no `broken[*].case.script`): "
              "it cannot be replayed - REPLAY-FAIL by convention")
        return False
    ok = True
    for kind, case, symptom in todo[:10]:
        r = in_mode("replay_case", (case,), case_mode(case), ctx.workdir)
        print(f"--- {kind}, execution mode {r['mode']}, {len(r['ops'])} of {r['n_recorded']} recorded operations applicable")
        for d in r["ops"]:
            print("op:", d)
        for f in r["mfail"]:
            print("monitor failure:", f)
        if not r["mfail"]:
            print("monitor: holds on this history")
        if "diff_error" in r:
            print("model replay not available:", r["diff_error"])
        else:
            print("model vs code:", "agree" if r["diff"] is None else r["diff"])
        if kind == "failing-input":
            if symptom is None:
                again = bool(r["mfail"])
                print("the file records no symptom; judged by: any monitor failure ->", "fails" if again else "holds")
            else:
                again = any(f["what"] == symptom for f in r["mfail"])
                print(f"recorded symptom {symptom!r}:", "reproduced" if again else "not reproduced")
        else:
            # (monitor failures on such a history are printed above; they are not what this file records)
            again = r.get("diff") is not None or "diff_error" in r
            print("recorded symptom (model != code on this history):", "still differs" if again else "agree again")
        ok = ok and not again
    return ok
