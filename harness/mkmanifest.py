"""Regenerates MANIFEST.json from the table below (run after adding a property check)."""
import json
import os
import re

HERE = os.path.dirname(os.path.dirname(os.path.abspath(__file__)))
props = [json.loads(l) for l in open(os.path.join(HERE, "properties.jsonl"))]

# pid -> (category, technique, text, level_note, design_ref)
CLAIMED = {}


def n_theorems(pid):
    """number of pinned (= audited) theorems of the Props files of a property"""
    import importlib
    import sys
    sys.path.insert(0, HERE)
    mod = importlib.import_module(f"harness.{pid.lower()}")
    n = 0
    for m in [pid] + list(getattr(mod, "EXTRA_PROP_FILES", [])):
        f = os.path.join(HERE, "lean", "pins", f"PdeVerif.Props.{m}.json")
        n += len(json.load(open(f))) if os.path.exists(f) else 0
    return n


ADDENDA = {}


def claim(pid, category, technique, text, note, ref):
    text = re.sub(r"\b\d+ theorems", "{n} theorems", text)
    CLAIMED[pid] = (category, technique, text, note, ref)


COMMON_NOTE = ("Trusted: Lean 4.33 kernel + axioms propext/Classical.choice/Quot.sound (audited each run; no sorry, "
               "native_decide, bv_decide or own axioms); the hand-written Lean model (tied to /repo by the differential "
               "correspondence run of the same check, which executes the model's own definitions at Rat/Float through "
               "`lean --run Driver.lean`); the Python harness (generators, canonicalisation, tolerances, monitors); "
               "theorems are over exact ordered fields, IEEE rounding is outside them. ")

claim("C09", "proof", "Lean 4 theorems (induction over query histories) + model/code differential correspondence",
      "Every deterministic interrupt class is modelled as a state machine in Lean; theorems prove for all parameters and "
      "all query lists that answers are >= the query, strictly increasing and on the defining lattice (constant: t0+k*dt "
      "with the catch-up landing on the first lattice point >= t; fixed: first not-yet-passed entry, exhausted forever; "
      "logarithmic: gaps at least dt*f^j; geometric: least scale*f^k >= t with growing k, search terminates). The Float "
      "instantiation of the same definitions reproduces the real classes bit for bit on adversarial adaptive query "
      "sequences; the property monitor runs on every real answer sequence.",
      COMMON_NOTE + "float log/ceil/pow of GeometricInterrupts are external and compared to the exact model up to 1e-9 "
      "with a tolerated exponent difference only at exact lattice hits.", "DESIGN.md section 6, C09")

claim("C01", "proof", "Lean 4 theorems (order conditions with explicit remainders) + full-matrix model/code correspondence",
      "Every kernel variant of the numba operator files (Cartesian 1-3 axes, polar, spherical conservative/plain, cylindrical; "
      "central/forward/backward; gradient_squared central or not; single-axis derivatives) is modelled in Lean "
      "(Model/Stencil.lean, components ordered like grid axes then symmetric axes). Theorems prove, for arbitrary fields of "
      "characteristic zero, any lattice position, spacing and symbolic polynomial coefficients, that each stencil equals the "
      "continuum operator of the sampled polynomial plus h^2*E (central) or h*E (one-sided) with an explicit remainder E, that "
      "E is bounded independently of h at any fixed distance from the axis, that for fields even in r the remainder has no "
      "singular denominator (uniform second order incl. the cell adjoining the axis), the documented first-order exception of "
      "the cylindrical vector Laplacian, and linearity. The check reads the complete matrix of grid.make_operator_no_bc off basis "
      "vectors of the padded input (numba source semantics, JIT subset, scipy route) and compares it entry by entry with the "
      "model's matrix over exact rationals; a refinement study on smooth fields with all components distinct is the property "
      "monitor and the failing-input search.",
      COMMON_NOTE + "Partial: the smooth-field theorems assume global derivative bounds; uniform second order incl. the axis cells "
      "for axis-regular fields is proved for polynomials and monitored otherwise; numba/scipy code generation is external; two "
      "known findings (conservative spherical tensor operators in the origin cell).", "DESIGN.md section 6, C01")

claim("C02", "proof", "Lean 4 theorems about the ghost-cell law and its index bookkeeping + model/code differential correspondence",
      "The virtual-point law of every local condition class (value, derivative, mixed incl. the infinite branch, curvature, "
      "periodic, anti-periodic, the three expression targets) and which entries of the padded array a face writes are modelled "
      "in Lean (Model/BC.lean); theorems prove the defining equation on every face point for arbitrary values (constants, "
      "tensors, per-face arrays, functions of boundary coordinates and time), any shape, rank and dx != 0, that normal-only "
      "conditions touch only the normal component, that valid cells, edges and corners are never written, and that the order "
      "in which faces are processed is irrelevant; the resolution of specification dictionaries (wildcard < axis < side < "
      "named side, auto_periodic, periodicity consistency, error classes) is modelled in Model/BCParse.lean with precedence "
      "theorems. The model evaluated over exact rationals is compared with the interpreted setter, field.set_ghost_cells, the "
      "numba ghost-cell setter (source semantics for all cases, JIT for a subset) on complete padded arrays pre-filled with "
      "markers, and with BoundariesList.from_data on random and malformed specifications; the defining-equation monitor runs "
      "on every real array.",
      COMMON_NOTE + "sympy/numba compilation of expression conditions is external (validated by the correspondence only).",
      "DESIGN.md section 6, C02")

claim("C05", "proof", "Lean 4 telescoping theorems (induction on the number of cells) + integral correspondence and monitors",
      "The volume-weighted sums of the Laplacian (Cartesian 1-d/2-d, polar, conservative spherical, cylindrical) and of the "
      "divergence (Cartesian, conservative spherical) are proved, for any number of cells, spacing, inner radius and field "
      "content, to equal the boundary fluxes (flux forms, also for the polar and cylindrical kernels that are not written in "
      "flux form), hence to vanish under zero-flux, periodic, or vanishing-normal-component ghost cells (linked to the C02 "
      "ghost-cell model) and for r_min = 0 without any inner condition; explicit witnesses show that the plain spherical "
      "Laplacian, the polar divergence and one-sided divergences do not conserve, which delimits the property; an abstract "
      "theorem shows that every update of the form u + sum c_j F(w_j) keeps a linear integral whose rate integrals vanish, for "
      "any number of steps. The model's integral (BC model + stencil model + volumes, exact rationals) is compared with "
      "field.laplace(bc).integral / field.divergence(bc).integral under arbitrary, also non-conserving, conditions; the zero "
      "monitor runs on every grid class incl. 3-d and holes, and Diffusion/Cahn-Hilliard simulations with every solver are "
      "monitored after every step.",
      COMMON_NOTE + "3-d Cartesian and the simulation-level statement for the concrete solver loops are covered by the "
      "abstract theorem plus monitors (the per-solver instantiation is in C06).", "DESIGN.md section 6, C05")

claim("C12", "proof", "Lean 4 theorems (telescoping volume sums, toIcoMod normalisation, wrapped differences) + model/code correspondence",
      "Discretisation, cell volumes (pi as parameter), integration over any axis subset, projection, cell/grid/Cartesian "
      "transforms, containment, periodic normalisation and reflection, and the wrapped difference vector with the list of "
      "periodic flags zipped against Cartesian components exactly as _difference_vector does are modelled in Lean "
      "(Model/Grid, Volume, GridCoords); 103 theorems prove centres/dx, exact cell volumes and their sum for any N and inner "
      "radius, integrate(1) = measure for every axis subset, projection preserves the integral, transforms are mutually "
      "inverse, generated points are contained, normalisation lands in the domain / is idempotent / moves by whole periods, "
      "reflections likewise, |wrap| <= L/2, invariance under period shifts, distance symmetry incl. the L/2 tie, and that every "
      "periodic flag is paired with the Cartesian component of its own axis (all classes incl. cylindrical). The model at Rat is "
      "compared with the real grids on ~40k cases per quick run (dyadic stream exactly, decimal stream at 1e-12) and monitors "
      "for symmetry, idempotence, half-period, volume sums, mirror points run on the real code.",
      COMMON_NOTE + "hypot/arctan2/arccos/cos/sin and d-th roots are external and validated numerically only.",
      "DESIGN.md section 6, C12; notes/C12.md")

claim("C18", "proof", "Lean 4 theorems (assembled row = stencil with ghost-cell law) + dense matrix correspondence + residual monitors",
      "The sparse-matrix assembly loops of the four scipy operator files are modelled as row programs with the source's "
      "assignment-vs-accumulate semantics (Model/Matrix.lean), the per-condition get_sparse_matrix_data as BCData. Theorems "
      "prove that the boundary data evaluate to the ghost-cell law of the C02 model, that an accumulating program's row-vector "
      "product is the sum of its terms, and that for every number of cells, every condition per side (one- and two-point, "
      "also at the inner radius of annuli) and all values the assembled M x + v equals the stencil model of C01 (1-d Cartesian, "
      "polar incl. the r_min = 0 row that needs no condition, conservative spherical, 2-d Cartesian and cylindrical rows) on "
      "the ghost-extended array - hence the residual the solver checks is the residual of feeding the solution back; a "
      "curvature row is proved degenerate (solvable only for matching data). The real _get_laplace_matrix (dense) is compared "
      "entry by entry with the model over exact rationals on all grid classes incl. 3-d, and every solve_poisson_equation / "
      "solve_laplace_equation result is fed back into field.laplace(bc); unsolvable problems must raise.",
      COMMON_NOTE + "spsolve/lsmr are external: their output is checked by the residual, never trusted; the 3-d Cartesian "
      "assembly is modelled and compared but its row theorem is not stated separately.", "DESIGN.md section 6, C18")

claim("C03", "proof", "Lean 4 theorems (schedule independence via List.Perm, face-order irrelevance, matrix route = stencil route) + all-routes differential check",
      "Model-level: interpreted and compiled ghost-cell setters and all operator entry points are one Lean function (BC.setGhostAll "
      "followed by the Stencil kernel); theorems prove that the order of the faces is irrelevant, that the sparse-matrix route "
      "equals the stencil route (C18), that the result with or without an out array is the same function of the input, and "
      "that a kernel whose iterations write pairwise distinct cells and read only the input yields the serial result under "
      "every permutation and every chunking of the iteration order (the schedules quantifier); extractor E2 re-establishes on "
      "every run, by an ast walk over the numba operator sources, that every nb.prange loop has exactly this shape. The check "
      "evaluates every case through all public routes (field methods, make_operator numba/scipy, no-bc operator after the "
      "interpreted and after the compiled setter, sparse matrix, out=, source semantics and JIT) - pairwise within 1e-10 and "
      "equal to the model over exact rationals - and runs kernels above a lowered multithreading threshold with 1, 2 and 16 "
      "threads (bit-identical).",
      COMMON_NOTE + "Partial: the real numba/TBB thread scheduler is runtime behaviour the model cannot exhibit; it is validated "
      "by the multi-thread runs only.", "DESIGN.md section 6, C03")

claim("C16", "proof", "Lean 4 theorems about the interpolation index/weight selection and the inserters + model/code correspondence",
      "get_axis_data (periodic wrap, boundary strips, ghost-cell mode, out-of-bounds signal, weight clipping as parameter), the "
      "1/2/3-axis interpolators, the interpreted insert (renormalisation) and the compiled inserters (incl. the ghost-cell "
      "variant) are modelled branch by branch; 54 theorems: weights non-negative summing to one, indices in range, exact at "
      "centres, multilinear between centres, exact on affine data, within the data range, periodic seam, outside rejected / "
      "inside accepted, nearest value in boundary strips, linear approach to the boundary value in ghost mode, insertion "
      "conserves the amount for any cell volumes (interpreted: any number of axes; compiled: 1-3 axes), interpreted = compiled "
      "for interior points. ~120k comparisons of real results (source semantics and JIT) with the model at Rat per quick run, "
      "independent reference-interpolant monitors.",
      COMMON_NOTE + "Theorems fixing exact weights assume the clipping constant eps <= 0; for eps = 1e-15 per-weight bounds are "
      "proved; ghost-mode inserter conservation proved for 1 and 2 axes.", "DESIGN.md section 6, C16; notes/C16.md")

claim("C17", "proof", "Lean 4 theorems (tiling, extract/combine identities, neighbour symmetry, operator commutes with split) + exhaustive small decompositions",
      "Chunk bookkeeping of GridMesh is modelled for any list of positive chunk sizes meeting the contract (plus the reference "
      "formula): per-axis slices with/without ghost cells, id<->index, neighbours with periodic wrap, extract/combine on arrays, "
      "sub-grid bounds, MPI boundary read/write indices, error outcomes. 43 theorems: slices tile (disjoint cover) in any "
      "dimension, bounds/volumes add up, combine o extract = id and extract o combine = id (with the necessary overlap "
      "hypothesis in ghost mode), neighbour symmetry and periodicity, every radius-1 stencil commutes with the split when ghost "
      "cells come from the base padded array, ghost exchange, admissibility. The harness enumerates all decompositions of "
      "small grids exhaustively against the model and runs the operator equivalence through a serial emulation of the MPI "
      "mailbox with the real extract_boundary_conditions/_MPIBC/to_subgrid.",
      COMMON_NOTE + "Partial: MPI transport (mpi4py absent) is emulated serially, not modelled; operator bodies belong to C01.",
      "DESIGN.md section 6, C17; notes/C17.md")

claim("C14", "proof", "Lean 4 round-trip theorems over grid/field/collection records + model/code correspondence",
      "Constructors, state (incl. scalar-iff-no-hole radius, UnitGrid's shape-only state), the JSON value tree, from_state, copy "
      "and __eq__ of the five grid classes, field and collection attributes, and FieldCollection.from_data with its slice layout "
      "are modelled (Model/Serialize.lean, on top of C12's grid records); 64 theorems: fromState(state g) = g and the JSON "
      "round trip for every valid grid of every class, copy equality, state injectivity, derived quantities (axes, spacing, "
      "cell volumes) determined by the parameters, attribute round trips by induction over the field list, from_data "
      "reproduces every component of every field for any list of ranks on every grid class with and without ghost cells, "
      "slice offsets are prefix sums, disjoint and covering; witnesses that the pre-fix state of annular cylinders is not "
      "injective and that num_axes**rank slicing misplaces components. ~14k real objects per quick run are compared with the "
      "model (exact in Rat mode, bit-exact in Float mode) through from_state, JSON, copy, deepcopy, pickle, attributes and "
      "from_data; a malformed stream checks error classes.",
      COMMON_NOTE + "JSON text encoding of floats is trusted; numpy astype is abstract in the theorems; pickle is monitored on "
      "the real code only.", "DESIGN.md section 6, C14; notes/C14.md")

claim("C07", "proof", "Lean 4 theorems over the controller loop for every tracker list and every (adversarial) schedule + exact/bit-exact trace correspondence",
      "Controller._run_main_process/run, the fixed stepper's time accounting, TrackerCollection.initialize/handle/finalize and "
      "the tracker kinds are modelled generically in the number type, the state, the one-step map and the interrupt function "
      "(Model/Controller.lean, schedules from C09). Theorems, for every tracker list and every schedule oracle: lattice "
      "invariant, progress and termination (the fuel bound is a theorem), no overshoot, steps = ceil(T/dt - eps) for every run "
      "that reaches the end - hence N steps and t_final = t_end for whole ranges (also within the loop's own 1e-6 dt "
      "tolerance) -, final state = steps-fold iterate of the one-step map at lattice times, independence of the read-only "
      "observers, |t_final - t_end| < dt, initial state untouched, and round-half-even stability under relative error. Real "
      "Controller runs (numpy, numba source semantics, numba JIT) with recording trackers are compared event by event with the "
      "model: exactly against Rat for dyadic parameters, bit for bit against Float for decimal ones.",
      COMMON_NOTE + "IEEE rounding is covered by the stability lemmas and the Float replay only; JIT-fused multiply-add makes "
      "decimal JIT runs differ in the last bit (judged by the monitors).", "DESIGN.md section 6, C07; notes/C07.md")

claim("C08", "proof", "Lean 4 theorems (pending-window invariant, served exactly once, frame counts, stop handling) + trace correspondence",
      "Same model as C07 plus storage/data trackers and stop requests. Theorems: handled states are iterates at lattice times, "
      "per-tracker times strictly increasing, for a constant interval D >= dt the pending-window invariant and served exactly "
      "once within dt/2 (any list position, any other trackers, any stop behaviour), frame counts floor(T/D)+1 with the "
      "explicit sliver guard and the general at-most-one-more bound, all due trackers served before a stop propagates (last "
      "raised exception wins), run ends at the stop time with that state, stop reason reported, every path finalises every "
      "tracker, exact service for a single tracker with an exact stepper; kernel-proved witnesses for the two known corner "
      "deviations. Real runs with injected StopIteration/FinishedSimulation at random (tracker, call) positions are compared "
      "event by event with the model; monitors state the property on every run.",
      COMMON_NOTE + "Two deviations of the real code from the literal statement are listed as known findings (see "
      "known_findings.json); served-exactly-once and frame counts are proved for constant schedules, other schedules are "
      "covered by the generic trace theorems and the correspondence.", "DESIGN.md section 6, C08; notes/C08.md")

claim("C15", "proof", "Lean 4 heap model with invariants by induction over arbitrary operation histories + aliasing-relation correspondence",
      "Buffers with an allocation counter, views (buffer, offset, length), objects as mutable references to views, and the "
      "operations of fields and collections (construction with/without copy_fields incl. re-linking, component views, slices, "
      "append, copy, deepcopy/pickle, unary/binary/in-place arithmetic, storage frames) are modelled (Model/Heap.lean). 42 "
      "theorems by induction over operation lists: well-formedness and the allocation invariant, the frame property, writes "
      "visible through every alias, collection layout (slot of field k component c), copies/slices/append/arithmetic/operator/"
      "storage results are fresh and stay disjoint forever, binary operations leave operands unchanged, in-place operations "
      "touch only valid cells. After every step of random histories on real objects the np.shares_memory relation with "
      "relative offsets and the values read through every handle are compared with the model; failing histories are shrunk.",
      COMMON_NOTE + "numpy's view semantics are trusted; arithmetic values are tied by the correspondence only.",
      "DESIGN.md section 6, C15; notes/C15.md")

claim("C20", "proof", "Lean 4 refinement of MemoryStorage to the log of appended pairs, for every operation sequence + step-by-step correspondence",
      "MemoryStorage/StorageBase are modelled branch by branch (modes, data shape/dtype/grid checks incl. the read-only and "
      "cast rules of append, reads, numpy searchsorted, extract_time_range, extract_field/view_field, copy/apply, "
      "from_collection) plus a world layer with a heap for aliasing. 142 theorems: refinement to the spec log for every "
      "operation sequence (reads return the appended pairs of the surviving sessions in order), mode semantics (truncate, "
      "truncate_once then append, append never truncates, readonly disables writing), searchsorted specification, "
      "extract_time_range = the pairs with a <= t <= b on sorted times and a contiguous slice always, extract/view consistency, "
      "copy/apply as runs of the target's state machine, stored frames immutable under later writes to sources and read-back "
      "fields. Random and exhaustive short operation sequences on the real storage are compared with the model after every "
      "step (times, every frame, error class, buffer identities); an independent Python spec monitor runs on the real code.",
      COMMON_NOTE + "float64 fields in the model; np.searchsorted on unsorted times mirrors numpy 2.5.3's loop (on sorted times "
      "every correct search agrees, which is a theorem).", "DESIGN.md section 6, C20; notes/C20.md")

claim("C13", "proof", "Lean 4 theorems about the stochastic step formulas (incl. Mathlib Derivation for the Milstein term) + exact trajectory replay with a twin generator",
      "One Euler-Maruyama, Milstein and semi-implicit step, the interpretation table, the variance layout per component / per "
      "field and runs as folds that consume exactly one normal array per step are modelled in the code's operation order "
      "(Model/Noise.lean, cell volumes from C12). 39 theorems: step formulas, Milstein = EM + correction, the semi-implicit "
      "solver adds the same noise increment to the state it iterates from, zero variance gives the deterministic step/run, an "
      "n-step run consumes exactly n arrays in order and depends only on that prefix, Stratonovich/anti-Ito drift factors, in a "
      "commutative ring with a derivation b*b = v/V implies that the documented correction is the textbook Milstein term, "
      "variance layouts. The harness seeds a twin numpy Generator, draws the arrays itself and replays the Float model: real "
      "numpy-backend trajectories must agree to 1e-12 (about 98% bit-identical), the generator state must equal the twin's "
      "after exactly n draws, two seeded runs must be byte-identical; numba source semantics and the compiled legacy stream "
      "are replayed too.",
      COMMON_NOTE + "Partial: reproducibility is a correspondence result (numpy's Generator and numba's RNG are external); "
      "square roots are parameters with hypotheses in the theorems.", "DESIGN.md section 6, C13; notes/C13.md")

claim("C06", "proof", "Lean 4 theorems about the steppers (amplification factors, order conditions of the extracted tableaux, adaptive-loop invariants) + tableau extractor + trace correspondence",
      "Every solver step (Euler, RK4 from the extracted tableau, implicit/Crank-Nicolson fixed-point loops, two-step "
      "Adams-Bashforth with its persistent previous state for both the Python and the compiled loop), the fixed-step loop with "
      "its rounded step count, both adaptive loops with the dt controller and the Richardson / RKF45 error estimators are "
      "modelled (Model/Solvers.lean); the Butcher tableaux, AB2 weights and controller constants are EXTRACTED from the source "
      "by an ast walk on every run (Generated/Tableau.lean) so the order-condition theorems are re-checked against what the "
      "code says now. 79 theorems: amplification factors of every scheme on u'=a u, stage times via exact quadrature of cubic "
      "rates, the 8 order-4 conditions of the returned RKF45 state and the 17 order-5 conditions of c+r, error estimate = "
      "difference of the two, implicit/CN iterates in closed form for every explicit fraction, AB2 recursion and first step, "
      "fixed stepper = `steps` applications of the one-step map, adaptive loops never end before t_end and overshoot by less "
      "than dt_min (exactly t_end otherwise), global error <= sum of local errors for dissipative problems, adaptive Euler / "
      "Richardson global error <= steps*tol over the reals. The harness compares real fixed-step runs exactly (Rat / Gaussian "
      "rationals) and adaptive runs with the Float model (accepted/rejected trace, final time, state) on numpy, "
      "numba source semantics and a JIT subset, and monitors end time and global error on the real solvers.",
      COMMON_NOTE + "Partial: for adaptive Runge-Kutta the estimate |5th-4th| is not a bound of the error of the returned "
      "4th-order state, so the literal `steps x tolerance` bound fails by the fifth-order remainder (known finding, narrow "
      "key); scipy's integrator is validated only; compiled loops use fast-math (times may differ by an ulp).",
      "DESIGN.md section 6, C06; notes/C06.md")

claim("C11", "translation_validation", "Lean 4 semantics of the expression language (eval, substitution, aliases, signature, differentiation soundness) + differential validation of the sympy/lambdify/numba pipeline",
      "The expression language py-pde accepts (numbers, variables, constants, indexed symbols, arithmetic, elementary "
      "functions, heaviside, comparisons, user functions, arrays of rank 1 and 2), what py-pde adds around sympy (coordinate "
      "aliases, signature and synonyms, constants as partial application, the calling convention) and symbolic differentiation "
      "are modelled (Model/Expr.lean) at Rat, Float, the reals and fields of cell values. 51 theorems: evaluation is "
      "compositional and commutes with substitution, alias replacement and prepare are sound, argument order of the signature "
      "is irrelevant for named environments, constants = partial application in any order, heaviside/comparison semantics "
      "incl. the value at 0, tensors evaluate componentwise and fields pointwise, diff_sound: the derivative program denotes "
      "the derivative (HasDerivAt over the reals, with explicit side conditions). Each generated program is parsed by the real "
      "code and evaluated through every route (sympy -> numpy lambdify, numba source semantics, JIT subset, fields, "
      "from_expression, differentiate) and compared with the Lean evaluation of the same text (well-conditioned points, "
      "conditioning analysis decides the tolerance).",
      COMMON_NOTE + "Translation validation: sympy's parser/simplifier, lambdify and numba are external and only tested "
      "differentially per generated program; refusals (unsupported functions) are counted, returned values judged strictly.",
      "DESIGN.md section 6, C11; notes/C11.md")

claim("C10", "translation_validation", "Lean 4 theorems: every PDE class's rate equals the semantics of its `expression` text (with per-operator boundary conditions) + differential validation of class vs expression vs compiled rates",
      "The eight PDE classes' evolution rates with abstract operators, their `expression` templates (expr_prod printing incl. "
      "the 0/1/-1 branches) and the generic PDE's operator/boundary-condition lookup are modelled (Model/PDEs.lean on top of "
      "Model/Expr.lean). 40 theorems: per class rate = denotation of the printed expression, each operator uses its own "
      "boundary condition, the wave equation as a first-order system, Klein-Gordon with zero mass, and the exact gap between "
      "the grouped text and the split class implementation of Kuramoto-Sivashinsky / Swift-Hohenberg for affine (non-linear) "
      "operators-with-BC. The harness compares, per case, the class's numpy rate, its compiled rate (numba source semantics + "
      "JIT subset), the generic PDE built from the class's expression, `evaluate`, and the Lean composition applied to the "
      "operator results measured on py-pde's own field API, at two times.",
      COMMON_NOTE + "Translation validation: the operators themselves are measured, not modelled here (C01/C02/C18 own them); "
      "only their composition, parameters and boundary-condition routing are modelled.",
      "DESIGN.md section 6, C10; notes/C10.md")

claim("C19", "proof", "Lean 4 theorems about the coordinate-system bases, the component order and the conversion to Cartesian components + model/code correspondence",
      "Jacobians, scale factors and basis rotations of polar, cylindrical, spherical, bipolar and bispherical coordinates, the "
      "component order (axes ++ axes_symmetric), access by name/index, from_expression, the einsum contraction patterns of "
      "dot/outer and the conversion of vector/tensor components to Cartesian ones are modelled as written "
      "(Model/Coords.lean). 69 theorems: every basis is orthonormal and right-handed and equals the normalised Jacobian "
      "columns, metric = Gram matrix of the Jacobian, det = volume factor, the Jacobians are the derivatives of the coordinate "
      "maps over the reals, component-order tables, order consistency for polar/spherical/Cartesian grids, unit fields map to "
      "basis vectors, products contract adjacent indices and are invariant under any orthonormal basis change, conversion "
      "commutes with divergence and gradient for all polynomial fields (derivation algebra / MvPolynomial). For cylindrical "
      "grids the full order-consistency statement is FALSE on this tree (known finding F7): the witnesses are theorems "
      "(order_inconsistent_cyl, cyl_axial_unit_field_maps_to_azimuthal, ...) next to the partial statement that does hold. The "
      "harness compares coordinate systems, _vector_to_cartesian, field access, products (numpy and compiled) and "
      "interpolate_to_grid conversions with the model and monitors commutation with operators on the real code.",
      COMMON_NOTE + "Partial: `commutes up to discretisation error` is validated numerically (derivative-scaled tolerance, see below); trigonometric functions are parameters (c,s pairs with c^2+s^2=1); tensor conversion exists only in "
      "the model (the code raises NotImplementedError); one known finding (cylindrical component order).",
      "DESIGN.md section 6, C19; notes/C19.md")

claim("C04", "proof", "Lean 4 theorems: cache soundness for every history from key faithfulness (proved on the modelled argument graphs), captured-buffer invariant for every heap history + key-relation and history correspondence",
      "hash_mutable (branch by branch, with CPython's systematic numeric hash), the cached-method decorators (per-instance "
      "caches, capacity, ignore_args/extra_args, invalidation), the argument graphs of the cached make_operator (grids, ten "
      "boundary-condition classes, axes, operator requests) and the heap of field buffers captured by interpolators and by a "
      "PDE holding a field constant are modelled (Model/Cache.lean). 75 theorems: a cache whose key is faithful returns for "
      "every history exactly what a fresh computation returns (cache_sound_of_faithful, events_sound_of_faithful: any "
      "interleaving of calls, invalidations and evictions), and a key collision IS observable (cache_unsound_of_collision); "
      "the current key derivation is faithful on the modelled graphs (bc/axis/bcs/opreq/grid_key_faithful: equal keys imply "
      "equal class, side, rank, value arrays incl. dtype/shape/bytes, grid, ...), kwargs order independent; each repaired "
      "derivation has a kernel-checked collision witness (Dirichlet/Neumann, -1/-2, dtype-less arrays, grid bounds); cached "
      "helpers read the field's current buffer after every history of writes, re-links and assignments, with the stale-read "
      "witnesses of the pre-fix code. The harness compares the key relation of real object pairs with the model (incl. exact "
      "CPython hashes of leaves), replays decorator and heap histories, and runs random histories of operator / interpolator / "
      "collection / PDE / solve calls whose last call is repeated in a fresh process that has only imported pde.",
      COMMON_NOTE + "Partial: ExpressionBC/UserBC and user classes are covered by the generic graph walk and the histories "
      "only; sets and non-string dict keys are not modelled; normal_* conditions with operators that read other components' "
      "ghost cells are excluded (their result is uninitialised memory, outside the property); numba's own caches are external.",
      "DESIGN.md section 6, C04; notes/C04.md")

# corrections and additions after the review round (reviewer reports in notes/review/, repairs in notes/Cxx.md)
ADDENDA.update({
 "C01": "Now {n} theorems in all: Props/C01Smooth(B).lean lift EVERY operator and output component (all grids, central and "
        "one-sided variants, conservative and plain) from polynomials to all sufficiently smooth real fields by Taylor's theorem "
        "with explicit constants, with uniform bounds at any fixed distance from the axis and the cylindrical vector-Laplacian "
        "exception proved sharp; Props/C01Axis.lean holds kernel-checked witnesses that two conservative spherical tensor "
        "operators are NOT second order in the cell adjoining the origin (known findings; the `uniformly over all cells` clause "
        "is monitored on axis-regular fields over all cells on every run); Props/C01Nine.lean covers the documented 9-point "
        "Laplacian (corner-point setter, exact on cubics for isotropic spacing, inconsistent for anisotropic spacing as the code "
        "warns). Distances are measured from the axis r = 0, so grids with a hole are judged in every cell.",
 "C02": "After the review: the non-finite branch of MixedBC (infinite, negative and the singular coefficient -2/dx) is modelled and "
        "generated, the composed end-state theorems are proved (after setGhostAll every face of a compatible list satisfies its "
        "defining equation: setGhostAll_holds), the low/high and two-element-sequence formats and unknown keys are modelled in "
        "BCParse, get_virtual_point_data (const, factor, index) and get_boundary_values are tied, linked values are exercised in "
        "two phases (found three defects, repaired in /repo); known finding: expression-valued Robin coefficient equal to -2/dx.",
 "C03": "After the review: a schedule leg executes the real kernel source with prange in seed-derived permutations on logging "
        "proxy arrays and checks the hypotheses of the schedule-independence theorem on the real trace (distinct writes, no read "
        "of the output, no write of the input; bernstein_schedule_independent, with witnesses that each hypothesis is needed), the "
        "thread leg covers every prange kernel and asserts that it really ran in parallel, 26-35 routes per case incl. field-level "
        "out=, BoundariesList objects, backend= on field methods and the 9-point Laplacian; matrix-route theorems for every grid class.",
 "C18": "After the review: every problem is classified independently of the solver (exact rank of the model matrix over Q, "
        "distance of the right-hand side from its range) and `reported as errors` is judged in both directions (found three "
        "defects of the general Poisson solver, repaired in /repo); matvec = progSum for every row program, the assembled rows "
        "equal the C01 stencils on the ghost-extended array for 2-d, 3-d, cylindrical and the r_min = 0 rows of disks and balls.",
 "C04": "After the review the cache theorems are composed with key faithfulness through observable projections "
        "(make_operator_cache_sound, make_operator_events_sound), the exact-value text of numbers is proved injective on all "
        "dyadics, the heap model carries the compile-time copy of compiled rates, histories share argument objects and use twin "
        "grids of different classes, and one-sided crashes are failures. After the second seeding round: re-registration of "
        "operator names (registry machine, registry_cache_sound_by_info / registry_cache_stale_by_name) and per-variable operator "
        "tables of multi-variable PDEs (pde_operator_table_faithful, witness pde_shared_operator_table_unsound); three known "
        "entries (caches keyed by operator name survive a re-registration).",
 "C05": "Props/C01Nine.lean adds conservation of the 9-point Laplacian for every n x m incl. the corner points (this found and "
        "pins the repaired periodic-y corner defect). The simulation leg varies solver options, boundary conditions of the "
        "non-conserved operators, multi-field PDEs and both backends. Props/C05b.lean: zero-sum theorems as corollaries of "
        "setGhostAll applied to zero-flux / periodic face lists (1-3-d Laplacian and divergence, polar, spherical, cylindrical incl. "
        "periodic z, radii = cell centres); Props/C05c.lean: every solver step and loop of C06's solver model conserves a linear "
        "functional with I(rate) = 0 (Euler, RK4 and RKF45 from the extracted tableaux, implicit/CN iterates, AB2, fixed and "
        "adaptive loops).",
 "C06": "Correction: adaptive runs are compared with the Float model at max(1e-9, 1e-14/tolerance) relative, not bit-exactly. "
        "After the review: model-independent stage-time and quadrature monitors for the adaptive solvers (these found the "
        "adaptive-Euler stage-time defect and the end-time overshoot, both repaired in /repo), the literal clause `ends exactly "
        "at t_end` is monitored, converged => distance bound and contraction => termination are proved for the implicit and "
        "Crank-Nicolson iterations; known findings: RKF45 and complex-rate step doubling (estimate is not a bound).",
 "C07": "After the review: state-dependent equations u' = a u (+ t) and a post-step-hook equation with all five fixed-step "
        "solvers on numpy, numba source and JIT, tracked runs compared bit-identically with the tracker-free run (solver state "
        "such as the Adams-Bashforth history must survive interrupts: solver_state_survives_interrupts, "
        "observed_run_eq_unobserved). `initial state untouched` is a monitor (every cell, dtype, label, ghost cells, aliasing); the "
        "theorem about it is definitional (_partial).",
 "C08": "After the review the monitors judge the literal clauses (floor(T/D)+1 frames on whole ranges, the extra frame at the "
        "final time, exactly-at-it for every tracker of adaptive runs); four narrow known corners of the controller's tolerance "
        "semantics are registered, each recognised from the data of the failing run; the adaptive theorems are _partial "
        "(single tracker, fixed tolerance). After the second seeding round: runs start exactly on scheduled times and the literal "
        "clause is judged for fixed-list, geometric and logarithmic schedules too (served_exactly_once_sequence and its instances); "
        "this found and pins the repaired skipping of exact lattice hits of geometric schedules.",
 "C09": "After the review: gap j >= d f^(j+1) is proved over whole histories (runLog_gaps), and the geometric schedule is "
        "modelled as the code computes it (log/ceil/pow with the float logarithm as an oracle within tolerance; "
        "geometric_code_schedule, linked to the specification model by geomCode_exact_is_least); constant lattices are checked "
        "exactly for dyadic parameters. Known finding: periods below the float spacing at t are absorbed.",
 "C10": "After the review: nine classes (ReactionDiffusionPDE added), 3-d grids, the driver evaluates rhsValue / rhsValuePde "
        "(the definitions of the theorems), the bc_ops look-up is modelled in Lean, the literal class-vs-expression monitor runs "
        "under inhomogeneous conditions (this found the grouped-Laplacian texts of two classes, repaired in /repo). torch/jax "
        "backends and complex states are not covered.",
 "C11": "Correction: the tolerance is fixed (1e-9) and the conditioning analysis decides which points are compared. After the "
        "review: numba source-semantics routes for every program besides the JIT subset, erf/floor/ceiling in the grammar (erf "
        "against libm checked with mpmath), derivative references from mpmath, signature checking and user functions have "
        "theorems; refusals of functions outside the grammar are counted, not judged. After the second seeding round: "
        "from_expression routes through the cell-by-cell fallback (values and dtype) and indexing of tensor expressions "
        "(Model/ExprIndex.lean: index_eval, index_function_eval, dependsOn_sound) on numpy and numba routes; two defects "
        "repaired in /repo, two known findings (user functions named like functions sympy prints; sympy's rewritten form of a "
        "formula overflowing to NaN).",
 "C12": "After the review: every leg records its concrete inputs and replays exactly them; per-axis tolerances; axis scales "
        "2^-100..2^100; theorems for cell<->Cartesian round trips, containment in all coordinate systems and period shifts in "
        "grid and cell coordinates.",
 "C13": "After the review: whole runs are proved to apply the documented update with array number j at step j "
        "(run_*_documented); every converged semi-implicit case is judged; crashes on valid cases are failures. Reading of the "
        "statement: the semi-implicit solver adds the noise increment only (interpretation drift is claimed for euler and "
        "milstein); bit-for-bit reproducibility is a correspondence result (external generators).",
 "C14": "After the review: every constructor, from_state and copy are proved to return Valid objects, so the round-trip "
        "theorems apply to every reachable grid (constructed_grid_roundtrips, restored_grid_roundtrips); pickle, axes names and "
        "the JSON text of floats are monitored only.",
 "C15": "After the review: `data` is a live view for all histories (DataLive invariant), operators/derived fields are model "
        "operations with freshness theorems, half of the workers use the numba backend on every grid class; known finding: a "
        "component view taken before its field is handed to FieldCollection(copy_fields=False) is detached. After the second "
        "seeding round: containers the API hands out (fc.fields, fc.labels) and lists passed to the constructor are model objects "
        "(Model/HandOut.lean; handed_out_list_is_a_copy, no_list_edit_changes_world).",
 "C16": "After the review: the value and conservation theorems hold for the real clipping parameter 0 <= eps <= 1/2 with explicit "
        "error terms (Props/C16Eps.lean), bc-mode interpolation has an independent padded reference incl. corners (ghost layer "
        "NaN-filled before each call), compiled and source runs are compared, complex and integer data are generated (found the "
        "integer-dtype truncation, repaired); known finding: the imposed condition is not met in corner squares (the corner ghost "
        "cell is defined as the mean of its neighbours).",
 "C17": "After the review: anti-periodic axes in every stream (found the dropped flip_sign at the seam, repaired in /repo), the "
        "exchange step is modelled and compared bit for bit, every node runs the real BoundariesList.set_ghost_cells in its own "
        "thread with a blocking mailbox, np.linspace chunk sizes are modelled bit-exactly at Float with the contract proved for "
        "every cut sequence double rounding can produce; two known findings (curvature on one-cell chunks, face-varying values).",
 "C19": "Correction: the commutation tolerance is 0.04 S + H2 D3 (S, D3 sizes of first/third derivatives over all components; "
        "measured <= 0.28 of it on 12,000 clean cases, wrong component orders exceed 2.6 times it). After the review: commutation "
        "with divergence and gradient is proved over the reals for arbitrary differentiable profiles off the axis (polar, "
        "spherical incl. the azimuthal component, cylindrical for the contraction by axis name); the polynomial theorems are "
        "_partial; the order used by the operators is tied to C01's stencil model; the label defect of named components was "
        "repaired in /repo.",
 "C20": "After the review: the monitor has its own acceptance predicate (valid operations must succeed), values carry 30-37 "
        "significant bits and frame dtypes are checked over 72 dtype combinations (found the read-narrows-to-template defect, "
        "repaired), unsorted times are no longer a hard tie on numpy's internal search, composed world-level theorems for reads, "
        "items, slices and views.",
})

GAP_ROUND = {
 "C01": "Gap round (C01Gap, C01GapSmooth): n-d/3-d Cartesian operators and the cylindrical gradient, vector gradient, tensor divergence and vector-Laplacian components with explicit remainders; uniform C h^2 bounds including the axis cells for all fields regular at the axis; a `bound` leg keeps the real kernels below the proved constants.",
 "C02": "Gap round (C02b): the defining equation of every face after the full setter for the face list generated from a grid (setBoundaries, any number of axes), order independence and linked values, tied by c02.ghost2 / c02.linked.",
 "C03": "Gap round (C03b, C03c, C18b): compiled chained setter = interpreted setter, the aliasing contract of out= (found and repaired: field.laplace(bc, out=field) computed in place), matrix route = stencil after the ghost-cell setter for every grid class.",
 "C04": "Gap round (C04Proc): interleavings of cached calls on any number of objects and PDE._cache as a one-slot cache per backend (solve histories), tied by c04.replay_proc. Theorem counts no longer include auto-generated structure lemmas.",
 "C05": "Gap round (C05d): whole solver runs (Euler, RK4, implicit, Crank-Nicolson through the controller loop) keep the volume-weighted sum on every grid class and for two coupled fields, tied by c05.run against real simulations.",
 "C06": "Gap round (C06Gen): every step depends on the rate only at its stage times (tied to the recorded stage times of the real steppers), adaptive end time in any arithmetic, termination of the adaptive loops, loops over any field.",
 "C07": "Gap round (C07Heap): heap model of Controller.run - the caller's state object is untouched on every path and the heap run refines the value-level run; the whole statement for all schedule kinds on the function the driver evaluates; law-free statements valid at Float.",
 "C08": "Gap round (C08b): frame count floor(T/D)+1 iff no scheduled time in the sliver, a time at t_end is served iff t_final != t_end - eps dt, model of the adaptive stepper (never early, at most dt_min late, exactly once; tied by c08.adaptive); the dt_min lateness is a listed finding judged literally.",
 "C09": "Later rounds: re-used schedule objects are modelled and proved (logarithmic_schedule_reused); Props/C09Round.lean proves the `up to round-off` clause for the constant and logarithmic schedules in the standard rounding model (every operation rounded; exact as soon as the period is not absorbed).",
 "C10": "Gap round (C10b): time as a parameter of the right-hand side, {values} operators, compositional semantics of right-hand sides with operator calls.",
 "C11": "Gap round (C11b): diff is the derivative on the rational fragment (dual numbers / Polynomial.derivative), checkSignature accepts exactly the well-formed calls, user functions are inlined bodies, indexed variables.",
 "C12": "Gap round (C12b): the constructors are modelled (which grid every call creates or which error), centres and dx from the arguments, contains_point iff the cell index is in range (found and repaired: reversed bounds_z accepted by CylindricalSymGrid).",
 "C13": "Gap round (C13b): per-field and per-component variances of collections, N-step sums with drift and Milstein correction, one draw per step in order (runGen).",
 "C14": "Gap round (C14b): instance model with the attribute cache - every restored instance is coherent and equals a fresh construction; axes names; tied by c14.instance.",
 "C15": "Gap round (C15b): values of arithmetic results, in-place operations, negation and copies of fields and collections.",
 "C16": "Gap round (C16Gap): ghost cells as a function of the imposed condition on every face in 1-3 axes (padFull), interpolate_to_grid, theorems at the real eps, ghost-mode inserter on 3 axes; tied by c16.pad / c16.togrid.",
 "C17": "Later rounds (C17Coll): extract_subfield for fields and collections is modelled and proved (ghost cells of every member of a sub-collection are the cells of the base padded array), tied by c17.subcoll, plus a model-free monitor.",
 "C18": "Gap round (C18b): matvec of the assembled row + constant = the documented stencil on the array after the ghost-cell setter, for every grid class, all rows incl. r_min = 0 and the inner boundary.",
 "C19": "Gap round (C19Gap, C19Jac): component order of the operators for polar and spherical grids, vector-gradient commutation (polar), bipolar / bispherical Jacobians are the derivatives of pos_to_cart.",
 "C20": "Gap round (C20Coll): from_collection end to end, extract_time_range on unsorted times, world-level slice and view observations.",
}
for _k, _v in GAP_ROUND.items():
    ADDENDA[_k] = (ADDENDA.get(_k, "") + " " + _v).strip()

# properties not (yet) decided by the machinery
NOT_APPLICABLE = {}


def main():
    checks = []
    for p in props:
        pid = p["id"]
        if pid not in CLAIMED:
            continue
        cat, tech, text, note, ref = CLAIMED[pid]
        text = (text + " " + ADDENDA.get(pid, "")).strip().replace("{n}", str(n_theorems(pid)))
        checks.append({
            "property_id": pid,
            "quick_cmd": f"./check {pid} --tier quick",
            "thorough_cmd": f"./check {pid} --tier thorough",
            "evidence_file": f"evidence/{pid}.json",
            "replay_cmd_template": f"./check {pid} --replay {{path}}",
            "engine": "lean4-proof+correspondence",
            "level_claimed": {"category": cat, "text": text, "design_ref": ref},
            "level_note": note,
            "technique": tech,
        })
    na = []
    for p in props:
        if p["id"] not in CLAIMED:
            na.append({"property_id": p["id"], "reason": NOT_APPLICABLE.get(
                p["id"], "no check registered yet: the Lean model, theorems and correspondence harness for this "
                         "property are not built in this revision (planned in DESIGN.md section 6); nothing is claimed")})
    m = {
        "version": 1,
        "setup_cmd": "cd lean && lake build",
        "hooks": {
            "guard": "PY_PDE_VERIF",
            "enable": "no source hooks are used: all observations go through the public API (nothing to enable)",
            "baseline_off_cmd": "cd /repo && /venv/bin/python -m pytest -ra -q -p no:cacheprovider --timeout=900 --continue-on-collection-errors",
            "source_commits": [],
            "add_only": True,
        },
        "engines": [{
            "name": "lean4-proof+correspondence",
            "path": "check",
            "serves_properties": sorted(CLAIMED),
            "kind_free_text": "Lean 4 theorems about hand-written executable models (lean/PdeVerif), audited with #print axioms; "
                              "models tied to /repo on every run by a differential correspondence check that drives the model "
                              "(lake env lean --run Driver.lean) and the real code with the same cases; property monitors on the real code",
        }],
        "checks": checks,
        "not_applicable": na,
        "notes": "Defects repaired by fix: commits in /repo (status fixed) and the known findings (status known; each with a narrow key, a concrete failing input in its summary and, where the model can express it, a kernel-checked witness theorem) are listed in known_findings.json; see DESIGN.md sections 7 and 11. Independent seeded changes and the outcome of the checks against them are under seeded/.",
    }
    with open(os.path.join(HERE, "MANIFEST.json"), "w") as fh:
        json.dump(m, fh, indent=1)
    print("claimed", sorted(CLAIMED), "not_applicable", [x["property_id"] for x in na])


if __name__ == "__main__":
    main()
