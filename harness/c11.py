"""C11 - compiling an expression preserves its meaning (translation validation over programs).

Programs (expression texts with signature, constants, user functions, aliases) are produced by
a type-directed random generator, printed with minimal parentheses and re-read with Python's
`ast` module.  Every program is evaluated three ways at rational points and arrays:
  (1) the Lean model `PdeVerif.Ex.exprFunction` / `diff` on the re-read AST (exact `Rat` for the
      rational fragment, `Float` with the libm table otherwise)       -> correspondence,
  (2) Python's own `eval` of the text with `math` functions            -> monitor reference,
  (3) the py-pde pipeline: ScalarExpression / TensorExpression numpy function, numba function
      (really compiled for the JIT subset: routes `numba*`; executed in numba's source semantics,
      NUMBA_DISABLE_JIT=1, for every other program: routes `numba-src*`), single_arg variants,
      from_expression of the three field classes (incl. programs that force the cell-by-cell fallback: Piecewise,
      user functions with a Python branch - values and dtype), differentiate and derivatives, and the indexing of
      array expressions (`expr[i]`, `expr[i, j]`, `expr[i][j]`, slices; numpy and numba functions, metadata and
      derivatives of the indexed expressions; user functions that carry the name of a numpy function).
(1) vs (2) separates harness/model mistakes from pipeline defects.  Derivatives have the numerical
derivative (mpmath, 30 digits) of Python's evaluation of the text as reference (2).
A small stream of functions OUTSIDE the compared grammar (sign, Max, Min, erfc, gamma, %) records the
outcome of every route: exceptions are counted as refusals, returned values are judged."""
import math
import os

from harness.common import exprs as X
from harness.common.num import q, fbits, unfbits, unq

PID = "C11"
LEVEL = "translation_validation"
EXTRA_PROP_FILES = ["C11b"]  # algebraic derivative semantics, signature rejection, inlining of user functions
REQUIRED_THEOREMS = [
    "eval_compositional", "eval_subst", "alias_replacement_sound", "prepare_sound",
    "signature_order_irrelevant_for_named_env", "consts_as_partial_application", "exprFunction_spec",
    "diff_sound", "heaviside_semantics", "tensor_eval_componentwise", "eval_pointwise", "gradient_sound",
    "checkSignature_sound", "exprFunction_closed", "withUser_call1", "withUser_call2", "withUser_base", "eval_idx_bound",
    "defined_div", "defined_powI", "primTab_names", "primTab_alg",
    "getItem_map", "index_eval", "index_eval_item", "index_index", "index_diff", "index_rank", "index_function_eval",
    "chain_function_eval", "tensorFunction_component", "exprFunction_reprepared", "tensorFunction_reprepared", "checkSignature_prepared",
    "select_eval", "select_cmp_eval", "dependsOn_sound",
    # Props/C11b.lean (theorem-gap round)
    "diff_dual", "toPoly_eval", "diff_eq_polynomial_derivative", "diff_quotient_polynomial",
    "checkSignature_iff", "checkSignature_rejects_undeclared", "checkSignature_rejects_two_names", "exprFunction_none_iff",
    "withUser_inline", "exprFunction_withUser_inline", "exprFunction_idx", "exprFunction_idx_in_range", "callEnv_arg",
    "callEnv_const", "eval_substIdx",
]
RULE = ("programs = expression texts drawn by a type-directed (interval-typed) random generator over the whole "
        "grammar (numbers incl. decimal/scientific, variables, constants, indexed symbols, + - * / **, unary minus, "
        "elementary functions, floor/ceiling, the special functions erf/hypot/heaviside of py-pde's SPECIAL_FUNCTIONS, "
        "atan2/general power, user functions, heaviside/Heaviside, top-level comparisons, "
        "coordinate aliases, signature synonyms, arrays of rank 1 and 2, Piecewise with comparison conditions and user "
        "functions with a Python branch in field construction, index expressions on arrays incl. negative integers, "
        "slices and out-of-range indices), depth <= 6, printed with minimal parentheses "
        "and re-read by Python's ast module; a program is distinct by (text, signature, constants, user functions, "
        "points) and non-trivial if its reference value is not the same at all sample points and at least one point "
        "is well-conditioned (first-order error amplification <= 1e6, no step-function jump within reach)")
ASSUMPTIONS = [
    "sympy (parser, simplify, printers, lambdify) and numba are external: validated by this differential run, not verified",
    "Python's ast module defines how text maps to an AST (sympy's parse_expr is built on the same tokenizer/grammar)",
    "points where the formula is ill-conditioned (error amplification > 1e6, or a heaviside/comparison/floor argument "
    "that cannot be told from its jump under a 1e-12 relative perturbation) are counted and skipped",
    "Max/Min/sign/erfc/gamma/% are outside the compared grammar (py-pde documents arithmetic, sympy functions it can print, "
    "heaviside, hypot, erf): a separate stream records the outcome of every route for them - exceptions (numpy.max called "
    "with a float axis, a Piecewise on arrays, math.gamma on arrays) are counted as refusals, every RETURNED value is judged; "
    "complex numbers (`I`) are not covered",
    "erf is py-pde's scipy.special.erf: a numba-COMPILED erf program is refused with TypingError (the optional package "
    "numba-scipy is not installed); the refusal is counted, the numpy / numba-source-semantics / field routes of the same "
    "programs are judged.  Reference values: libm erf (Python), cross-checked against mpmath on every run, and a series / "
    "continued-fraction implementation in the Lean driver",
    "numba_backend._make_expression_array (deprecated get_compiled_array) prints components with str(): compile-time "
    "refusals of names that differ between sympy and numpy are counted, not judged; returned values are judged",
    "Piecewise((a, c), (b, True)) is read as the selection c*a + (1 - c)*b with the 0/1 value of the comparison c (Lean: "
    "`select`, theorems `select_eval`, `select_cmp_eval`): equal to the selected branch wherever BOTH branches are defined; "
    "a point where the branch that is not taken is undefined is an undefined point of the reference and is skipped (the "
    "generator types both branches as defined on the whole grid)",
    "a complex-TYPED result whose imaginary part is at most 1e-12 of its real part (three orders of magnitude below the "
    "comparison tolerance; sympy's evalf returns 0.4497140385544759+6.2e-18j for a real atan2) is compared by its real part "
    "and counted (`complex_typed_results`); a larger imaginary part is a wrong value",
    "`depends_on(v)` is judged between two bounds: it must be False for a variable the (selected) components do not mention "
    "and True for one whose change visibly changes their value; in between (`x - x`) sympy's simplification decides",
]
TRUSTED_EXTRA = [
    "libm functions of Lean's Float equal CPython's math functions to 1e-12 relative",
    "harness/common/exprs.py: generator, printer, ast-based reader, conditioning analysis",
    "numpy's indexing of an array of component coordinates as the reference for which components an index expression "
    "selects (the Lean model `getItem` is compared with it on every index)",
]
# floors of the quick tier (a run that explored less than this proves nothing about the leg)
MIN_LEGS = {"scalar": 300, "field": 180, "tensor": 60, "tindex": 40}
TOL = 1e-9
# derivatives against the numerical derivative of the written formula (mpmath, 30 digits)
DTOL_REL, DTOL_ABS = 1e-8, 1e-10

GENERAL_VARS = ["x", "y", "z", "u", "t", "E", "S", "beta", "x_2"]
POSITIVE_VARS = ["p", "r", "s", "rho", "N"]
SYNONYMS = {"x": ["x1", "xx"], "y": ["why"], "r": ["rad"], "p": ["pp", "P"], "u": ["uu"], "z": ["zeta_1"]}
CONST_NAMES = ["a", "b", "c0", "k_1", "phi0", "radius2", "D", "xr"]
UFUNC_NAMES = ["f", "g", "h2", "rphi", "myfun"]
RESERVED = {"E", "S", "N", "beta"}     # names sympy knows: usable as symbols only when declared in the signature


# ==========================================================================================
# program generation
def dy(rng, lo, hi, den=8):
    """dyadic value in [lo, hi]"""
    a, b = math.ceil(lo * den), math.floor(hi * den)
    return rng.randint(a, b) / den


def sample_value(rng, lo, hi):
    r = rng.random()
    if r < 0.7:
        v = dy(rng, lo, hi, rng.choice([2, 4, 8, 8, 16]))
    elif r < 0.9:
        v = round(rng.uniform(lo, hi), rng.choice([1, 2, 3]))
    else:
        v = rng.uniform(lo, hi)
    return min(max(v, lo), hi)


def canon_pow(e):
    """the reader sees `a**2` / `a**-2` as integer powers whatever the generator meant"""
    if isinstance(e, list):
        return [canon_pow(x) for x in e]
    e = dict(e)
    for c in ("a", "b", "h"):
        if c in e:
            e[c] = canon_pow(e[c])
    if e["k"] == "call2" and e["f"] == "pow":
        b = e["b"]
        if b["k"] == "num" and "/" not in b["v"] and "." not in b.get("t", b["v"]) and "e" not in b.get("t", ""):
            return {"k": "powi", "a": e["a"], "n": int(b["v"])}
        if b["k"] == "neg" and b["a"]["k"] == "num" and "/" not in b["a"]["v"] and "." not in b["a"].get("t", "") and "e" not in b["a"].get("t", ""):
            return {"k": "powi", "a": e["a"], "n": -int(b["a"]["v"])}
    return e


def strip_t(e):
    if isinstance(e, list):
        return [strip_t(x) for x in e]
    return X.strip(e)


def rename_vars(e, m):
    e = dict(e)
    if e["k"] in ("var", "idx") and e["n"] in m:
        e["n"] = m[e["n"]]
    for c in ("a", "b", "h"):
        if c in e:
            e[c] = rename_vars(e[c], m)
    return e


def finish_program(rng, prog, exprs_gen, declared):
    """print, re-read, self-check; exprs_gen = AST or nested list of ASTs (with alias names)"""
    sp = rng if rng.random() < 0.5 else None

    def texts(t):
        return [texts(x) for x in t] if isinstance(t, list) else X.to_text(t, sp)

    def reread(t):
        return [reread(x) for x in t] if isinstance(t, list) else X.read_text(t, declared)

    txt = texts(exprs_gen)
    re = reread(txt)
    prog["texts"] = txt
    prog["ast"] = strip_t(re)
    prog["roundtrip_ok"] = strip_t(canon_pow(exprs_gen)) == prog["ast"]
    return prog


def _sympy_knows(name):
    """parse_number has no guard: a symbol that sympy defines (`rad`, `beta`, `S`...) is not a symbol there"""
    import sympy

    return hasattr(sympy, name)


def gen_scalar_program(rng, i, jit):
    nv = rng.choice([1, 2, 2, 3, 3])
    names = rng.sample(GENERAL_VARS, rng.randint(0, nv)) if nv else []
    names += rng.sample(POSITIVE_VARS, nv - len(names))
    rng.shuffle(names)
    variables = {}
    for n in names:
        variables[n] = (0.25, 4.0) if n in POSITIVE_VARS else rng.choice([(-3.0, 3.0), (-3.0, 3.0), (-1.0, 2.0), (0.5, 2.5)])
    consts = {}
    for n in rng.sample(CONST_NAMES, rng.choice([0, 0, 1, 2, 3])):
        consts[n] = rng.choice([dy(rng, -4, 4, 4), round(rng.uniform(-3, 3), 2), dy(rng, 0.25, 4, 8)])
        if consts[n] == 0:
            consts[n] = 1.5
    # a quarter of the programs stay inside the fragment of `diff_sound`, so that differentiate /
    # derivatives are exercised on every differentiable construct
    diffable = rng.random() < 0.25
    if diffable:
        voc = X.Vocabulary(variables, consts, allow_step=False, fun1=sorted(X.DIFF_FUN1), fun2=["pow"])
    else:
        voc = X.Vocabulary(variables, consts)
    # user functions
    g0 = X.Gen(rng, voc)
    for n in rng.sample(UFUNC_NAMES, rng.choice([0, 0, 0, 1, 1, 2]) if not diffable else 0):
        ps = ["v"] if rng.random() < 0.6 else ["v", "w"]
        voc.ufuncs[n] = (ps, g0.user_body(ps, rng.choice([2, 3])))
    # indexed variable / indexed constant
    indexed_var = None
    if rng.random() < 0.15 and not diffable:
        indexed_var = rng.choice(["arr", "vec", "q"])
        voc.indexed[indexed_var] = [rng.choice([(-2.0, 2.0), (0.5, 3.0)]) for _ in range(rng.choice([2, 3]))]
    if rng.random() < 0.12:
        voc.indexed_consts["w"] = [dy(rng, -3, 3, 4) or 1.0 for _ in range(rng.choice([2, 3]))]
    gen = X.Gen(rng, voc)
    top_cmp = rng.random() < 0.06 and not diffable
    e = gen.comparison() if top_cmp else gen.expression(6)
    family = None
    if not top_cmp and not diffable and rng.random() < 0.05 and variables:
        # regression family: absolute values of exponentials, which sympy's simplification turns into
        # exp(re(.)) / 2**re(.) because symbols are not declared real (repaired: fix 23b1a1d)
        family = "abs-of-exponential"
        a = gen.gen(2, "small")
        v = X.var(rng.choice(sorted(variables)))
        form = rng.choice(["abs-exp", "abs-2pow", "abs-x-exp", "exp-abs-exp", "abs-exp-tanh-large"])
        if form == "abs-exp-tanh-large":
            # sympy rewrites Abs(exp(tanh(z))) with sinh / cosh of 2*re(z): overflow for |z| > 355 (finding, see notes)
            e = X.un("call1", X.un("call1", X.un("neg", X.un("call1", X.bi("mul", X.num(rng.choice(["250", "2.5e2", "400"])), v), f="tanh")), f="exp"), f="abs")
        elif form == "abs-exp":
            e = X.un("call1", X.un("call1", a, f="exp"), f="abs")
        elif form == "abs-2pow":
            e = X.un("call1", X.bi("call2", X.num(rng.choice(["2", "3", "0.5"])), a, f="pow"), f="abs")
        elif form == "abs-x-exp":
            e = X.un("call1", X.bi("mul", v, X.un("call1", a, f="exp")), f="abs")
        else:
            e = X.bi("mul", X.un("call1", v, f="exp"), X.un("call1", X.un("call1", X.un("neg", a), f="exp"), f="abs"))
        if rng.random() < 0.5:
            e = X.bi(rng.choice(["add", "mul"]), gen.gen(2, "any"), e)
    if family is None and not top_cmp and rng.random() < 0.03 and variables:
        # regression family: `k*log(m)` is folded into `log(m**k)` by sympy's simplification, and the derivative of
        # `k*m**v` is `m**v*log(m**k)`: an integer far beyond int64 in the generated code (proposed fix
        # notes/proposed_fixes/C11-huge-integer-literal.diff)
        family = "log-of-integer-power"
        v = X.var(rng.choice(sorted(variables)))
        k, m = rng.choice([("30", "9"), ("48", "7"), ("64", "3"), ("25", "12")])
        if rng.random() < 0.5:
            e = X.bi("mul", X.bi("mul", X.num(k), X.un("call1", X.num(m), f="log")), v)
        else:
            e = X.bi("mul", X.num(k), X.bi("call2", X.num(m), X.bi("div", v, X.num("4")), f="pow"))
            diffable = True
        if rng.random() < 0.5:
            e = X.bi("add", gen.gen(2, "any") if not diffable else X.bi("mul", v, v), e)
    if family is None and rng.random() < 0.02 and variables:
        # regression family: an inequality that is a polynomial (degree >= 2) in ONE symbol times a negative non-rational
        # constant; sympy 1.14's simplification divides by that constant without reversing the inequality (proposed fix
        # notes/proposed_fixes/C11-inequality-simplification.diff)
        family = "inequality-negative-factor"
        top_cmp, diffable = True, False
        v = X.var(rng.choice(sorted(variables)))
        c = rng.choice([X.un("call1", X.num("4"), f="sin"), X.un("call1", X.num("2"), f="cos"),
                        X.un("call1", X.num("0.5"), f="log"), X.un("call1", X.num("2"), f="tan")])
        poly = rng.choice([{"k": "powi", "a": v, "n": 2}, {"k": "powi", "a": v, "n": 3}, X.bi("mul", X.bi("mul", v, v), v),
                           X.bi("add", {"k": "powi", "a": v, "n": 2}, v)])
        lhs = X.bi("mul", poly, c) if rng.random() < 0.5 else X.bi("mul", c, poly)
        e = {"k": "cmp", "op": rng.choice(sorted(X.CMP)), "a": lhs, "b": rng.choice([X.num("1"), X.num("0.5"), X.un("neg", X.num("2"))])}
    # signature: order, synonyms, repl
    sig_names = list(names) + ([indexed_var] if indexed_var else [])
    rng.shuffle(sig_names)
    used_syms = X.symbols(e)
    sig_none = (rng.random() < 0.12 and not indexed_var and not voc.indexed_consts
                and not (set(names) & RESERVED))
    sig, ren, repl = [], {}, {}
    for n in sig_names:
        entry = [n]
        if n in SYNONYMS and rng.random() < 0.5 and not sig_none:
            entry += rng.sample(SYNONYMS[n], rng.randint(1, len(SYNONYMS[n])))
            if rng.random() < 0.6:
                ren[n] = rng.choice(entry[1:])
        elif n == "r" and rng.random() < 0.5 and not sig_none:
            repl = {"radius": "r", "phi": "φ"}
            if rng.random() < 0.7:
                ren[n] = "radius"
        sig.append(entry)
    e_txt = rename_vars(e, ren)
    if sig_none:
        free = sorted(n for n in X.symbols(e_txt) if n not in consts and n not in voc.indexed_consts)
        sig = [[n] for n in free]
        sig_names = free
    # points
    n_sc, n_arr = 3, 4
    array_consts = {}
    if consts and rng.random() < 0.12:
        # one constant is an array over the points: only the array call is made
        cn = rng.choice(sorted(consts))
        n_sc, n_arr = 0, 5
        array_consts[cn] = [dy(rng, 0.5, 3, 8) for _ in range(n_arr)]
        del consts[cn]
    points = []
    for _ in range(n_sc + n_arr):
        pt = []
        for n in sig_names:
            if n == indexed_var:
                pt.append([sample_value(rng, lo, hi) for lo, hi in voc.indexed[n]])
            else:
                pt.append(sample_value(rng, *variables[n]))
        points.append(pt)
    # edge: exact zero for a general variable
    if points and sig_names and rng.random() < 0.1:
        j = rng.randrange(len(sig_names))
        if sig_names[j] in variables and variables[sig_names[j]][0] < 0:
            points[0][j] = 0.0
    allc = dict(consts)
    for n, l in voc.indexed_consts.items():
        allc[n] = list(l)
    # order of the constants dict matters for the generated function: shuffle it
    items = list(allc.items())
    rng.shuffle(items)
    prog = {"id": i, "kind": "scalar", "rank": 0, "sig": sig, "sig_none": sig_none, "consts": dict(items),
            "array_consts": array_consts, "repl": repl,
            "ufuncs": {n: [ps, X.strip(b)] for n, (ps, b) in voc.ufuncs.items()},
            "points": points, "n_scalar": n_sc, "indexed": bool(indexed_var or voc.indexed_consts), "jit": jit,
            "top_cmp": top_cmp, "family": family}
    declared = set(sig_names) | set(allc) | {s for l in sig for s in l}
    finish_program(rng, prog, e_txt, declared)
    fr = not top_cmp and not indexed_var and X.in_diff_fragment(prog["ast"]) and not voc.ufuncs
    prog["diff"] = [l[0] for l in sig if l[0] in variables] if fr else []
    # parse_number is plain sympy: it knows neither user functions nor py-pde's special functions
    # (heaviside substitution, hypot) nor indexed symbols
    kinds_ = X.kinds(prog["ast"])
    prog["parse_number"] = (not voc.ufuncs and not prog["indexed"] and not array_consts and not sig_none and
                            not (kinds_ & {"heav1", "heav2", "idx", "call2:hypot"}) and not any(k.startswith("cmp") for k in kinds_)
                            and not (set(names) & RESERVED) and rng.random() < 0.5
                            and not any(_sympy_knows(nm) for nm in X.symbols(prog["ast"])))
    return prog


GRIDS = [
    ("CartesianGrid", 1), ("CartesianGrid", 2), ("UnitGrid", 1), ("UnitGrid", 2), ("PolarSymGrid", 1),
    ("SphericalSymGrid", 1), ("CylindricalSymGrid", 2), ("CartesianGrid", 3),
]


def gen_grid(rng):
    cls, nax = rng.choice(GRIDS)
    if cls == "CartesianGrid":
        bounds = []
        for _ in range(nax):
            lo = dy(rng, -2, 2, 2)
            bounds.append([lo, lo + rng.choice([1.0, 2.0, 0.5, 4.0])])
        shape = [rng.choice([1, 2, 3, 4]) for _ in range(nax)]
        axes = ["x", "y", "z"][:nax]
        return {"cls": cls, "bounds": bounds, "shape": shape, "axes": axes, "dim": nax}
    if cls == "UnitGrid":
        shape = [rng.choice([1, 2, 3, 4]) for _ in range(nax)]
        return {"cls": cls, "bounds": [[0.0, float(s)] for s in shape], "shape": shape, "axes": ["x", "y", "z"][:nax], "dim": nax}
    if cls in ("PolarSymGrid", "SphericalSymGrid"):
        r0 = rng.choice([0.0, 0.5, 1.0])
        r1 = r0 + rng.choice([1.0, 2.0, 4.0])
        return {"cls": cls, "bounds": [[r0, r1]], "shape": [rng.choice([2, 3, 4])], "axes": ["r"],
                "dim": 2 if cls == "PolarSymGrid" else 3}
    r1 = rng.choice([1.0, 2.0])
    z0 = dy(rng, -1, 1, 2)
    return {"cls": cls, "bounds": [[0.0, r1], [z0, z0 + rng.choice([1.0, 2.0])]], "shape": [rng.choice([2, 3]), rng.choice([2, 3])],
            "axes": ["r", "z"], "dim": 3}


def grid_points(g):
    """cell centres by the defining formula (row-major over the axes)"""
    axes = [[lo + (i + 0.5) * (hi - lo) / n for i in range(n)] for (lo, hi), n in zip(g["bounds"], g["shape"])]
    pts = [[]]
    for ax in axes:
        pts = [p + [v] for p in pts for v in ax]
    return pts


def cartesian_of(g, pt):
    if g["cls"] in ("CartesianGrid", "UnitGrid"):
        return list(pt)
    if g["cls"] == "PolarSymGrid":
        return [pt[0], 0.0]
    if g["cls"] == "SphericalSymGrid":
        return [0.0, 0.0, pt[0]]
    return [pt[0], 0.0, pt[1]]


def gen_field_program(rng, i):
    g = gen_grid(rng)
    pts = grid_points(g)
    rank = rng.choice([0, 0, 0, 1, 1, 2]) if g["dim"] <= 2 else rng.choice([0, 0, 1])
    variables = {ax: (min(p[j] for p in pts), max(p[j] for p in pts)) for j, ax in enumerate(g["axes"])}
    consts = {}
    for n in rng.sample(CONST_NAMES, rng.choice([0, 0, 1, 2])):
        consts[n] = dy(rng, 0.25, 3, 8) * rng.choice([1, -1])
    array_consts = {}
    if rng.random() < 0.25:
        cn = rng.choice(["cfield", "phi_data"])
        array_consts[cn] = [dy(rng, 0.5, 3, 8) for _ in pts]
    voc = X.Vocabulary(variables, consts)
    for cn, vals in array_consts.items():
        voc.variables[cn] = (min(vals), max(vals))   # a range for the generator; bound per point for the model
    use_cart = rng.random() < 0.25
    if use_cart:
        carts = [cartesian_of(g, p) for p in pts]
        voc.indexed["cartesian"] = [(min(c[j] for c in carts), max(c[j] for c in carts)) for j in range(g["dim"])]
    g0 = X.Gen(rng, voc)
    for n in rng.sample(UFUNC_NAMES, rng.choice([0, 0, 0, 1])):
        ps = ["v"] if rng.random() < 0.7 else ["v", "w"]
        voc.ufuncs[n] = (ps, g0.user_body(ps, 2))
    gen = X.Gen(rng, voc)
    dmax = {0: 6, 1: 4, 2: 3}[rank]
    ren = {}
    if "r" in g["axes"] and g["cls"] != "CylindricalSymGrid" and rng.random() < 0.6:
        ren["r"] = "radius"

    def one():
        if rank == 0 and rng.random() < 0.08:
            e = gen.comparison()
        else:
            e = gen.expression(dmax)
        return rename_vars(e, ren) if rng.random() < 0.8 else e

    def has_both(e):
        s = X.symbols(e)
        return "r" in s and "radius" in s

    def one_ok():
        for _ in range(10):
            e = one()
            if not has_both(e):
                return e
        return X.var(g["axes"][0])

    d = g["dim"]
    ex = one_ok() if rank == 0 else [one_ok() for _ in range(d)] if rank == 1 else [[one_ok() for _ in range(d)] for _ in range(d)]
    repl = {"PolarSymGrid": {"radius": "r", "phi": "φ"}, "SphericalSymGrid": {"radius": "r", "theta": "θ", "phi": "φ"},
            "CylindricalSymGrid": {"phi": "φ"}}.get(g["cls"], {})
    allc = dict(consts)
    pcon = dict(array_consts)
    if use_cart:
        pcon["cartesian"] = [cartesian_of(g, p) for p in pts]
    prog = {"id": i, "kind": "field", "rank": rank, "grid": g, "sig": [[a] for a in g["axes"]], "sig_none": False,
            "consts": allc, "array_consts": pcon, "repl": repl,
            "ufuncs": {n: [ps, X.strip(b)] for n, (ps, b) in voc.ufuncs.items()},
            "points": pts, "n_scalar": 0, "indexed": True, "jit": False, "diff": [], "top_cmp": False}
    declared = set(g["axes"]) | set(allc) | set(pcon) | set(repl)
    return finish_program(rng, prog, ex, declared)


def gen_tensor_program(rng, i, jit):
    nv = rng.choice([1, 2, 2, 3])
    names = rng.sample(["x", "y", "z", "u"], nv - (1 if rng.random() < 0.4 else 0))
    names += rng.sample(["p", "s"], nv - len(names))
    variables = {n: ((0.25, 4.0) if n in ("p", "s") else (-2.0, 2.0)) for n in names}
    consts = {}
    plain = rng.random() < 0.4   # candidates for `_make_expression_array` (no consts, no step functions)
    if not plain:
        for n in rng.sample(CONST_NAMES, rng.choice([0, 1, 2])):
            consts[n] = dy(rng, 0.25, 3, 8)
    # `_make_expression_array` prints components with str(): only functions whose sympy name is
    # also the numpy name can be used there
    voc = X.Vocabulary(variables, consts, allow_step=not plain, allow_named=not plain,
                       fun1=["sin", "cos", "exp", "tanh", "sqrt", "log", "sinh", "cosh", "tan"] if plain else None,
                       fun2=["hypot", "pow"] if plain else None)
    gen = X.Gen(rng, voc)
    rank = rng.choice([1, 1, 2])
    shape = [rng.choice([1, 2, 3])] if rank == 1 else [rng.choice([1, 2]), rng.choice([2, 3])]
    ex = [gen.expression(4) for _ in range(shape[0])] if rank == 1 else [[gen.expression(3) for _ in range(shape[1])] for _ in range(shape[0])]
    n_arr = 3
    family = None
    if rng.random() < 0.3:
        # regression family: components that do not depend on the arguments, evaluated on arrays whose
        # length equals (or differs from) the row length (repaired: fix 8d22330)
        family = "constant-components"
        cgen = X.Gen(rng, X.Vocabulary({}, consts, allow_named=not plain, allow_step=False, fun1=["sin", "cos", "exp", "tanh"], fun2=[]))

        def cexpr():
            return cgen.literal() if rng.random() < 0.6 else cgen.expression(3)
        if rank == 1:
            which = rng.choice(["one", "all"])
            for j in range(shape[0]):
                if which == "all" or j == 0:
                    ex[j] = cexpr()
            n_arr = rng.choice([shape[0], shape[0], 3, 1])
        else:
            which = rng.choice(["row", "row", "all", "column", "scattered"])
            r0, c0 = rng.randrange(shape[0]), rng.randrange(shape[1])
            for a in range(shape[0]):
                for b in range(shape[1]):
                    if which == "all" or (which == "row" and a == r0) or (which == "column" and b == c0) or \
                            (which == "scattered" and rng.random() < 0.5):
                        ex[a][b] = cexpr()
            n_arr = rng.choice([shape[1], shape[1], shape[0], 3, 1, 4])
    points = [[sample_value(rng, *variables[n]) for n in names] for _ in range(3 + n_arr)]
    flat = ex if rank == 1 else [e for row in ex for e in row]
    prog = {"id": i, "kind": "tensor", "rank": rank, "sig": [[n] for n in names], "sig_none": False, "consts": consts,
            "array_consts": {}, "repl": {}, "ufuncs": {}, "points": points, "n_scalar": 3, "indexed": False, "jit": jit,
            "plain": plain, "top_cmp": False, "family": family}
    finish_program(rng, prog, ex, set(names) | set(consts))
    prog["diff"] = list(names) if all(X.in_diff_fragment(strip_t(canon_pow(e))) for e in flat) else []
    return prog


# ------------------------------------------------------------------------------------------
# field construction through the cell-by-cell fallback
def _nice_between(lo, hi):
    """a short decimal strictly between two neighbouring cell centres (never a centre: no tie)"""
    mid = (lo + hi) / 2
    for nd in (1, 2, 3, 4):
        t = round(mid, nd)
        if lo + 1e-6 < t < hi - 1e-6:
            return t
    return mid


def _lit(v):
    """number literal (negative numbers as unary minus of the literal)"""
    a = abs(v)
    t = str(int(a)) if float(a).is_integer() else repr(float(a))
    return X.num(t) if v >= 0 else X.un("neg", X.num(t))


FALLBACK_UNAMES = ["ramp", "clip0", "stepup", "f", "g"]


def gen_fallback_program(rng, i):
    """from_expression programs that cannot be evaluated on whole arrays (sympy prints a Piecewise as a Python
    conditional expression; a user function contains a Python `if`): ScalarField.from_expression evaluates them cell
    by cell.  In most programs the value of the FIRST cell (lowest coordinates) is an integer-typed literal while
    other cells hold non-integer values."""
    g = gen_grid(rng)
    pts = grid_points(g)
    rank = rng.choice([0, 0, 0, 0, 0, 1, 2]) if g["dim"] <= 2 else rng.choice([0, 0, 0, 1])
    axes = g["axes"]
    variables = {ax: (min(p[j] for p in pts), max(p[j] for p in pts)) for j, ax in enumerate(axes)}
    consts = {}
    for n in rng.sample(CONST_NAMES, rng.choice([0, 0, 1])):
        consts[n] = dy(rng, 0.25, 3, 8) * rng.choice([1, -1])
    array_consts = {}
    use_cart = False
    r = rng.random()
    if rank == 0 and r < 0.10:
        array_consts["cfield"] = [dy(rng, 0.5, 3, 8) for _ in pts]
    elif rank == 0 and r < 0.16:
        use_cart = True
    voc = X.Vocabulary(variables, consts)
    for cn, vals in array_consts.items():
        voc.variables[cn] = (min(vals), max(vals))
    if use_cart:
        carts = [cartesian_of(g, p) for p in pts]
        voc.indexed["cartesian"] = [(min(c[j] for c in carts), max(c[j] for c in carts)) for j in range(g["dim"])]
    gen = X.Gen(rng, voc)
    ufuncs = {}

    def threshold(j, first=True):
        cs = sorted({p[j] for p in pts})
        if len(cs) == 1:
            return cs[0] + 0.25, cs
        k = 0 if (first or rng.random() < 0.6) else rng.randrange(len(cs) - 1)
        return _nice_between(cs[k], cs[k + 1]), cs

    def float_branch(d=3):
        for _ in range(20):
            e = gen.expression(d)
            if X.symbols(e) & (set(axes) | set(array_consts) | ({"cartesian"} if use_cart else set())):
                return e
        return X.bi("div", X.bi("mul", X.var(axes[0]), X.var(axes[0])), X.num("4"))

    def cond_first(j, t, first_true):
        """comparison on axis j that is true (first_true) / false in the cells with the lowest coordinate"""
        ax, lit = X.var(axes[j]), _lit(t)
        if first_true:
            return rng.choice([{"k": "cmp", "op": rng.choice(["lt", "le"]), "a": ax, "b": lit},
                               {"k": "cmp", "op": rng.choice(["gt", "ge"]), "a": lit, "b": ax}])
        return rng.choice([{"k": "cmp", "op": rng.choice(["gt", "ge"]), "a": ax, "b": lit},
                           {"k": "cmp", "op": rng.choice(["lt", "le"]), "a": lit, "b": ax}])

    def intlit():
        v = rng.choice([0, 0, 1, 1, 2, 3, -1])
        return _lit(v)

    forms = ["pw2", "pw2", "pw3", "pw-arith", "ufunc", "ufunc", "ufunc-arith"] + (["ufunc2"] if len(axes) > 1 else [])

    def fallback_component():
        form = rng.choice(forms)
        j = 0 if rng.random() < 0.75 else rng.randrange(len(axes))
        int_first = rng.random() < 0.75
        t, cs = threshold(j)
        first_true = rng.random() < 0.5
        ibr, fbr = intlit(), float_branch()
        if not int_first and rng.random() < 0.5:
            ibr = float_branch(2)            # no integer branch at all
        a, b = (ibr, fbr) if (first_true == int_first) else (fbr, ibr)
        if form in ("pw2", "pw-arith"):
            e = {"k": "pw", "h": cond_first(j, t, first_true), "a": a, "b": b}
        elif form == "pw3":
            t2 = t + rng.choice([0.5, 1.0, 0.25])
            c2 = {"k": "cmp", "op": rng.choice(["lt", "le"]), "a": X.var(axes[j]), "b": _lit(t2)}
            if first_true:
                e = {"k": "pw", "h": cond_first(j, t, True), "a": a, "b": {"k": "pw", "h": c2, "a": b, "b": float_branch(2)}}
            else:
                # the first cells fall through to the last branch
                c1 = {"k": "cmp", "op": rng.choice(["gt", "ge"]), "a": X.var(axes[j]), "b": _lit(t2)}
                e = {"k": "pw", "h": c1, "a": float_branch(2), "b": {"k": "pw", "h": cond_first(j, t, False), "a": a, "b": b}}
        else:
            # a user function with a Python branch: `def f(v): if v < t: return 0 ; return <float formula of v>`
            name = rng.choice([n for n in FALLBACK_UNAMES if n not in ufuncs] or FALLBACK_UNAMES)
            two = form == "ufunc2"
            ps = ["v", "w"] if two else ["v"]
            body_f = X.Gen(rng, X.Vocabulary({q_: (-6.0, 6.0) for q_ in ps}, allow_named=False, allow_step=False,
                                             fun1=["sin", "cos", "tanh", "exp", "atan", "abs"], fun2=[])).user_body(ps, 2)
            # the argument is the axis variable (shifted): the branch is decided by v against the threshold
            shift = rng.choice([0.0, 0.0, 0.5, 1.0])
            tv = t - shift
            vv = X.var("v")
            if first_true:
                cnd = {"k": "cmp", "op": rng.choice(["lt", "le"]), "a": vv, "b": _lit(tv)}
            else:
                cnd = {"k": "cmp", "op": rng.choice(["gt", "ge"]), "a": vv, "b": _lit(tv)}
            ua, ub = (intlit(), body_f) if (first_true == int_first) else (body_f, intlit())
            ufuncs[name] = (ps, {"k": "pw", "h": cnd, "a": ua, "b": ub})
            arg = X.var(axes[j]) if shift == 0 else X.bi("sub", X.var(axes[j]), _lit(shift))
            if two:
                e = X.bi("call2", arg, X.var(axes[(j + 1) % len(axes)]), f=name)
            else:
                e = X.un("call1", arg, f=name)
        if form in ("pw-arith", "ufunc-arith"):
            k = X.num(rng.choice(["2", "0.5", "3", "1.5"]))
            e = rng.choice([X.bi("add", X.bi("mul", k, e), float_branch(2)), X.bi("mul", e, X.var(rng.choice(axes))),
                            X.bi("sub", float_branch(2), e)])
        return e, form

    d = g["dim"]
    used_forms = []

    def comp(force):
        if force or rng.random() < 0.3:
            e, f = fallback_component()
            used_forms.append(f)
            return e
        return gen.expression(3)

    if rank == 0:
        ex = comp(True)
    elif rank == 1:
        k0 = rng.randrange(d)
        ex = [comp(c == k0) for c in range(d)]
    else:
        k0 = (rng.randrange(d), rng.randrange(d))
        ex = [[comp((a_, b_) == k0) for b_ in range(d)] for a_ in range(d)]
    ren = {}
    if "r" in axes and g["cls"] != "CylindricalSymGrid" and rng.random() < 0.4:
        ren["r"] = "radius"

    def rn(t_):
        return [rn(x) for x in t_] if isinstance(t_, list) else rename_vars(t_, ren)
    ex = rn(ex)
    repl = {"PolarSymGrid": {"radius": "r", "phi": "φ"}, "SphericalSymGrid": {"radius": "r", "theta": "θ", "phi": "φ"},
            "CylindricalSymGrid": {"phi": "φ"}}.get(g["cls"], {})
    pcon = dict(array_consts)
    if use_cart:
        pcon["cartesian"] = [cartesian_of(g, p) for p in pts]
    prog = {"id": i, "kind": "field", "rank": rank, "grid": g, "sig": [[a] for a in axes], "sig_none": False,
            "consts": dict(consts), "array_consts": pcon, "repl": repl,
            "ufuncs": {n: [ps, X.strip(b)] for n, (ps, b) in ufuncs.items()},
            "points": pts, "n_scalar": 0, "indexed": True, "jit": False, "diff": [], "top_cmp": False,
            "fallback": "+".join(sorted(set(used_forms))), "family": "cell-by-cell-fallback"}
    declared = set(axes) | set(consts) | set(pcon) | set(repl)
    return finish_program(rng, prog, ex, declared)


# ------------------------------------------------------------------------------------------
# indexing of array expressions
SHADOW_BODIES = {
    # user functions that carry the name of a numpy / sympy function but mean something else; the bodies use the BASE
    # function of the same name
    "log": [(["v"], "log(v**2 + 1)/log(10)"), (["v"], "log(abs(v) + 2)/log(2)")],
    "sqrt": [(["v"], "sqrt(abs(v))"), (["v"], "sqrt(v**2 + 1) - 1")],
    "exp": [(["v"], "exp(-v**2)"), (["v"], "exp(v/2) - 1")],
    "abs": [(["v"], "sqrt(v**2 + 0.25)"), (["v"], "abs(v) + v")],
    "max": [(["v", "w"], "(v + w + abs(v - w))/2"), (["v", "w"], "(v + w)/2 + abs(v - w)")],
}


def ix_py(entry):
    return entry["at"] if "at" in entry else slice(entry["slice"][0], entry["slice"][1])


def apply_chain(obj, chain):
    """Python's reading of `obj[ix1][ix2]...` (obj: a TensorExpression or a numpy array)"""
    for tup in chain:
        key = tuple(ix_py(t) for t in tup)
        obj = obj[key[0] if len(key) == 1 else key]
    return obj


def chain_text(chain):
    def one(t):
        if "at" in t:
            return str(t["at"])
        a, b = t["slice"]
        return f"{'' if a is None else a}:{'' if b is None else b}"
    return "".join("[" + ",".join(one(t) for t in tup) + "]" for tup in chain)


def index_selection(shape, chain):
    """which components `expr[...]` selects: numpy's indexing applied to the array of component coordinates.
    Returns (shape of the result, {component of the result (tuple) -> component of the array (tuple)}); raises
    IndexError for an index that must be refused."""
    import numpy as np

    coords = np.empty(tuple(shape), dtype=object)
    for c in np.ndindex(*shape):
        coords[c] = tuple(c)
    sel = apply_chain(coords, chain)
    if isinstance(sel, tuple):
        return (), {(): sel}
    return tuple(sel.shape), {tuple(c): sel[c] for c in np.ndindex(*sel.shape)}


def gen_index_chain(rng, shape, valid=True):
    n0 = shape[0]

    def at(n, ok=True):
        if ok:
            return {"at": rng.randrange(-n, n)}
        return {"at": rng.choice([n, n + 1, -n - 1])}

    def sl(n):
        r = rng.random()
        if r < 0.15:
            return {"slice": [None, None]}
        a = rng.randrange(0, n)
        b = rng.randrange(a + 1, n + 1)
        a2 = a - n if rng.random() < 0.25 else a
        b2 = b - n if (rng.random() < 0.25 and b < n) else b
        if rng.random() < 0.15:
            b2 = n + rng.choice([1, 3])         # clipped
            b = n
        r = rng.random()
        return {"slice": [None if (a == 0 and r < 0.5) else a2, None if (b == n and r > 0.5) else b2]}

    if len(shape) == 1:
        form = rng.choice(["at", "at", "at", "slice", "slice", "slice-at"])
        if form == "at":
            return [[at(n0, valid)]]
        if form == "slice":
            return [[sl(n0)]] if valid else [[at(n0, False)]]
        s_ = sl(n0)
        m = len(range(*slice(*s_["slice"]).indices(n0)))
        return [[s_], [at(max(m, 1), valid)]]
    n1 = shape[1]
    form = rng.choice(["at-at", "at-at", "at][at", "at][at", "at", "slice", "at-slice", "slice-at", "slice-slice", "at][slice"])
    bad = None if valid else rng.choice([0, 1])
    if form == "at-at":
        return [[at(n0, bad != 0), at(n1, bad != 1)]]
    if form == "at][at":
        return [[at(n0, bad != 0)], [at(n1, bad != 1)]]
    if form == "at":
        return [[at(n0, valid)]]
    if form == "slice":
        return [[sl(n0)]] if valid else [[at(n0, False)]]
    if form == "at-slice":
        return [[at(n0, valid), sl(n1)]]
    if form == "slice-at":
        return [[sl(n0), at(n1, valid)]]
    if form == "slice-slice":
        return [[sl(n0), sl(n1)]] if valid else [[at(n0, False), sl(n1)]]
    return [[at(n0, valid)], [sl(n1)]]


def gen_tindex_program(rng, i, jit):
    """array expressions with user functions (also under the name of a numpy function) and constants whose
    components, rows and slices are extracted with `expr[...]`"""
    nv = rng.choice([1, 2, 2, 3])
    names = rng.sample(["x", "y", "z", "u", "a", "b"], nv - (1 if rng.random() < 0.3 else 0))
    names += rng.sample(["p", "s"], nv - len(names))
    variables = {n: ((0.25, 4.0) if n in ("p", "s") else (-2.0, 2.0)) for n in names}
    consts = {}
    for n in rng.sample(["k_1", "c0", "D", "phi0"], rng.choice([0, 1, 1, 2])):
        consts[n] = dy(rng, 0.25, 3, 8) * rng.choice([1, 1, -1])
    diffable = rng.random() < 0.3
    shadow = []
    if diffable:
        voc = X.Vocabulary(variables, consts, allow_step=False, fun1=sorted(X.DIFF_FUN1), fun2=["pow"])
    else:
        n_u = rng.choice([1, 1, 2])
        unames = []
        for _ in range(n_u):
            if rng.random() < 0.65:
                unames.append(rng.choice([n for n in SHADOW_BODIES if n not in unames]))
            else:
                unames.append(rng.choice([n for n in UFUNC_NAMES if n not in unames]))
        shadow = [n for n in unames if n in SHADOW_BODIES]
        voc = X.Vocabulary(variables, consts, fun1=[f for f in X.FUN1 if f not in shadow])
        g0 = X.Gen(rng, voc)
        for n in unames:
            if n in SHADOW_BODIES and rng.random() < 0.7:
                ps, txt = rng.choice(SHADOW_BODIES[n])
                voc.ufuncs[n] = (list(ps), X.read_text(txt, set(ps)))
            else:
                ps = ["v", "w"] if n == "max" or (n not in SHADOW_BODIES and rng.random() < 0.3) else ["v"]
                voc.ufuncs[n] = (ps, g0.user_body(ps, rng.choice([2, 3])))
    gen = X.Gen(rng, voc)
    rank = rng.choice([1, 1, 2])
    shape = [rng.choice([2, 3, 4])] if rank == 1 else [rng.choice([2, 3]), rng.choice([2, 3])]

    def ucall():
        f = rng.choice(sorted(voc.ufuncs))
        ps, _b = voc.ufuncs[f]
        if len(ps) == 1:
            return X.un("call1", gen.gen(2, "small"), f=f)
        return X.bi("call2", gen.gen(2, "small"), gen.gen(2, "small"), f=f)

    def component():
        e = gen.expression(3)
        if voc.ufuncs and rng.random() < 0.6 and not any(n["k"] in ("call1", "call2") and n["f"] in voc.ufuncs for n in X.walk(e)):
            u = ucall()
            e = rng.choice([u, X.bi("add", e, u), X.bi("mul", u, e), X.bi("sub", u, gen.literal())])
            if not X.satisfies(gen.iv(e), "any"):
                e = u
        if rng.random() < 0.08:
            e = gen.literal()             # a constant component
        return e

    ex = [component() for _ in range(shape[0])] if rank == 1 else [[component() for _ in range(shape[1])] for _ in range(shape[0])]
    family = None
    if ({"sqrt", "exp"} & set(shadow)) and rng.random() < 0.6:
        # family: a power that sympy prints under the name of the user's function (`q**(1/2)` -> `sqrt(q)`, `E**a` ->
        # `exp(a)`) next to calls of that user function
        family = "name-capture"
        nm = rng.choice(sorted({"sqrt", "exp"} & set(shadow)))
        if nm == "sqrt":
            half = X.bi("div", X.num("1"), X.num("2"))
            e = X.bi("call2", gen.gen(2, "pos"), half if rng.random() < 0.7 else X.un("neg", half), f="pow")
        else:
            e = X.bi("call2", {"k": "named", "n": "E"}, gen.gen(2, "small"), f="pow")
        if rng.random() < 0.5:
            e = X.bi(rng.choice(["add", "mul"]), e, X.un("call1", gen.gen(2, "small"), f=nm))
        if X.satisfies(gen.iv(e), "any"):
            if rank == 1:
                ex[rng.randrange(shape[0])] = e
            else:
                ex[rng.randrange(shape[0])][rng.randrange(shape[1])] = e
        else:
            family = None
    # signature synonyms: the same name is written in every component (the check of the whole array sees all symbols)
    sig, ren = [], {}
    for n in names:
        entry = [n]
        if n in SYNONYMS and rng.random() < 0.3:
            entry += rng.sample(SYNONYMS[n], rng.randint(1, len(SYNONYMS[n])))
            if rng.random() < 0.7:
                ren[n] = rng.choice(entry[1:])
        sig.append(entry)

    def rn(t_):
        return [rn(x) for x in t_] if isinstance(t_, list) else rename_vars(t_, ren)
    ex = rn(ex)
    n_spec = rng.choice([3, 4, 5])
    chains, seen = [], set()
    for _ in range(40):
        if len(chains) >= n_spec:
            break
        valid = rng.random() < 0.88
        ch = gen_index_chain(rng, shape, valid)
        txt = chain_text(ch)
        if txt in seen:
            continue
        try:
            sshape, _sel = index_selection(shape, ch)
            ok = True
            if 0 in sshape:
                continue                 # empty selections are not generated
        except IndexError:
            ok = False
        seen.add(txt)
        chains.append({"chain": ch, "text": txt, "valid": ok})
    n_arr = 3
    points = [[sample_value(rng, *variables[n]) for n in names] for _ in range(3 + n_arr)]
    flat = ex if rank == 1 else [e for row in ex for e in row]
    prog = {"id": i, "kind": "tindex", "rank": rank, "sig": sig, "sig_none": False, "consts": consts,
            "array_consts": {}, "repl": {}, "ufuncs": {n: [ps, X.strip(b)] for n, (ps, b) in voc.ufuncs.items()},
            "points": points, "n_scalar": 3, "indexed": False, "jit": jit, "top_cmp": False, "indices": chains,
            "shadow": shadow, "family": family}
    finish_program(rng, prog, ex, set(names) | set(consts) | {s_ for l in sig for s_ in l})
    prog["diff"] = list(names) if (diffable and all(X.in_diff_fragment(strip_t(canon_pow(e))) for e in flat)) else []
    return prog


def gen_step_program(rng, i, jit):
    """heaviside / comparison arguments that are exactly zero in every route"""
    x0 = dy(rng, -2, 2, 4)
    y0 = dy(rng, -2, 2, 4)
    hval = rng.choice(["0.25", "0.75", "0", "1", "0.5", "0.3"])
    hv = rng.choice(["heaviside", "Heaviside"])
    forms = ["var", "var-lit", "lit-var", "var-var", "prod0", "cmp-tie", "cmp-lit", "scaled"]
    form = rng.choice(forms)
    x, y = X.var("x"), X.var("y")
    pts = [[x0, y0]]
    lit = lambda v: X.num(repr(abs(v))) if v >= 0 else X.un("neg", X.num(repr(abs(v))))
    if form == "var":
        arg = x
        pts = [[0.0, y0], [x0 or 1.0, y0], [-(abs(x0) or 1.0), y0]]
    elif form == "var-lit":
        arg = X.bi("sub", x, X.num(repr(abs(x0)))) if x0 >= 0 else X.bi("add", x, X.num(repr(abs(x0))))
        pts = [[x0, y0], [x0 + 0.5, y0], [x0 - 0.25, y0]]
    elif form == "lit-var":
        arg = X.bi("sub", lit(x0), x)
        pts = [[x0, y0], [x0 + 0.5, y0], [x0 - 0.25, y0]]
    elif form == "var-var":
        arg = X.bi("sub", x, y)
        pts = [[x0, x0], [x0, x0 - 1.0], [x0, x0 + 0.5]]
    elif form == "prod0":
        arg = X.bi("mul", x, y)
        pts = [[0.0, y0 or 1.0], [x0 or 1.0, 0.0], [1.0, 2.0], [-1.0, 0.5]]
    elif form == "scaled":
        k = rng.choice([2, 4, 0.5])
        arg = X.bi("sub", X.bi("mul", X.num(repr(k) if k < 1 else str(k)), x), X.num(repr(abs(k * x0)))) if x0 >= 0 else \
            X.bi("add", X.bi("mul", X.num(repr(k) if k < 1 else str(k)), x), X.num(repr(abs(k * x0))))
        pts = [[x0, y0], [x0 + 1.0, y0], [x0 - 1.0, y0]]
    if form in ("cmp-tie", "cmp-lit"):
        op = rng.choice(sorted(X.CMP))
        if form == "cmp-tie":
            e = {"k": "cmp", "op": op, "a": x, "b": y}
            pts = [[x0, x0], [x0, x0 + 0.5], [x0 + 0.25, x0]]
        else:
            e = {"k": "cmp", "op": op, "a": x, "b": lit(x0)}
            pts = [[x0, y0], [x0 + 0.5, y0], [x0 - 0.5, y0]]
        top_cmp = True
    else:
        top_cmp = False
        if rng.random() < 0.4:
            e = {"k": "heav1", "a": arg, "hv": hv}
        else:
            e = {"k": "heav2", "a": arg, "h": X.num(hval), "hv": hv}
        if rng.random() < 0.5:
            e = X.bi("add", X.bi("mul", rng.choice([y, X.num("3")]), e), X.num("1"))
    # the array call covers all points at once as well
    prog = {"id": i, "kind": "step0", "rank": 0, "sig": [["x"], ["y"]], "sig_none": False, "consts": {}, "array_consts": {},
            "repl": {}, "ufuncs": {}, "points": pts + pts, "n_scalar": len(pts), "indexed": False, "jit": jit, "diff": [],
            "top_cmp": top_cmp, "exact": True, "form": form}
    return finish_program(rng, prog, e, {"x", "y"})


def gen_malformed_program(rng, i):
    """calls that must be rejected (RuntimeError from _check_signature / TypeError from the call)"""
    what = rng.choice(["undefined-symbol", "synonym-and-definite", "wrong-arg-count"])
    voc = X.Vocabulary({"x": (-2.0, 2.0), "y": (-2.0, 2.0)})
    gen = X.Gen(rng, voc)
    for _ in range(50):
        e = gen.expression(4)
        if {"x", "y"} <= X.symbols(e):
            break
    else:
        e = X.bi("add", X.var("x"), X.var("y"))
    sig = [["x", "x1"], ["y"]]
    pts = [[1.5, 0.5]]
    # the offending symbols sit under different transcendental functions so that sympy's
    # simplification cannot cancel them
    if what == "undefined-symbol":
        e = X.bi("add", e, X.un("call1", X.var(rng.choice(["w", "radius", "x1x", "xy"])), f=rng.choice(["exp", "sin"])))
    elif what == "synonym-and-definite":
        # one term that contains both names inseparably (the generator does not know `x1`, so nothing
        # it produced can cancel this term)
        e = X.bi("add", e, X.un("call1", X.bi("mul", X.var("x"), X.var("x1")), f="atan"))
    else:
        pts = [[1.5] if rng.random() < 0.5 else [1.5, 0.5, 2.0]]
    prog = {"id": i, "kind": "malformed", "what": what, "rank": 0, "sig": sig, "sig_none": False, "consts": {},
            "array_consts": {}, "repl": {}, "ufuncs": {}, "points": pts, "n_scalar": 1, "indexed": False, "jit": False,
            "diff": [], "top_cmp": False}
    return finish_program(rng, prog, e, {"x", "y", "x1"})


OUTSIDE = {
    # function: (templates, python reference namespace entry)
    "sign": ["sign({a})*{b}", "sign({a} - 0.5)"],
    "Max": ["Max({a}, {b})", "Max({a}, 1) + {b}"],
    "Min": ["Min({a}, {b})", "2*Min({a}, 0.5)"],
    "erfc": ["erfc({a})"],
    "gamma": ["gamma(p + 1)*{a}"],
    "Mod": ["{a} % 2", "({a} + {b}) % 1.5"],
}


def outside_namespace():
    return {"sign": lambda v: (v > 0) - (v < 0), "Max": max, "Min": min, "erfc": math.erfc, "gamma": math.gamma}


def gen_outside_program(rng, i, jit):
    """functions OUTSIDE the compared grammar (sympy accepts them; py-pde's printers do not support all of them): the
    outcome of every route is recorded - an exception is counted as a refusal, a returned value must be right"""
    fn = rng.choice(sorted(OUTSIDE))
    tmpl = rng.choice(OUTSIDE[fn])
    a, b = rng.sample(["x", "y"], 2)
    text = tmpl.format(a=a, b=b)
    pts = [[dy(rng, -3, 3, 4) + 0.125, dy(rng, -3, 3, 4) + 0.0625, dy(rng, 0.25, 3, 4)] for _ in range(6)]
    return {"id": i, "kind": "outside", "function": fn, "rank": 0, "sig": [["x"], ["y"], ["p"]], "sig_none": False, "consts": {},
            "array_consts": {}, "repl": {}, "ufuncs": {}, "points": pts, "n_scalar": 3, "indexed": False, "jit": jit, "diff": [],
            "top_cmp": False, "texts": text, "ast": None, "roundtrip_ok": True}


# ==========================================================================================
# the real code (runs in worker processes)
def _ufunc_objects(prog, ns_kind):
    """python callables for the user functions (numpy flavour so they work on arrays and in numba)"""
    import numpy as np

    ns = {"sin": np.sin, "cos": np.cos, "tan": np.tan, "tanh": np.tanh, "sinh": np.sinh, "cosh": np.cosh,
          "exp": np.exp, "log": np.log, "sqrt": np.sqrt, "atan": np.arctan, "asin": np.arcsin, "acos": np.arccos,
          "asinh": np.arcsinh, "atanh": np.arctanh, "abs": np.abs}
    ns["Piecewise"] = X.piecewise
    out = {}
    for name, (ps, body) in prog["ufuncs"].items():
        src = ufunc_source(name, ps, body)
        loc = {}
        exec(src, dict(ns), loc)
        out[name] = loc[name]
    return out


def ufunc_source(name, ps, body):
    """Python source of a user function.  Arguments are converted to float first: an integer literal in the text
    (`g(5)`) reaches the user's function as an int, and under numba integer arithmetic would then apply inside it
    (`27**-1 == 0`), which is a property of the user's code, not of the expression pipeline.  A body that is a
    Piecewise becomes a chain of Python `if` statements (not applicable to arrays; a branch that is an integer literal
    returns a Python int)."""
    lines = [f"def {name}({', '.join(ps)}):"] + [f"    {q_} = {q_} * 1.0" for q_ in ps]
    cur = body
    while cur["k"] == "pw":
        lines.append(f"    if {X.to_text(float_literals(cur['h']))}:")
        # a branch that is a bare integer literal stays one: the function then returns a Python int there
        lines.append(f"        return {X.to_text(cur['a'] if cur['a']['k'] == 'num' else float_literals(cur['a']))}")
        cur = cur["b"]
    lines.append(f"    return {X.to_text(cur if (cur['k'] == 'num' and cur is not body) else float_literals(cur))}")
    return "\n".join(lines) + "\n"


def float_literals(e):
    """the same expression with integer literals written as floats (`1` -> `1.0`; exponents of integer powers stay
    integers): inside the user's numpy code `(abs(0) + 1)**-1` would be integer arithmetic of numpy (`ValueError:
    Integers to negative integer powers are not allowed`; `0` under numba) - a property of the user's code, not of the
    expression pipeline, like the conversion of the arguments"""
    e = dict(e)
    for c in ("a", "b", "h"):
        if c in e:
            e[c] = float_literals(e[c])
    if e["k"] == "num" and "/" not in e["v"]:
        t = e.get("t") or e["v"]
        if "." not in t and "e" not in t.lower():
            e["t"] = t + ".0"
    return e


COMPLEX_TYPED = [0]


def _fl(v):
    """canonical float (or None for non-finite / genuinely complex values).  A complex-TYPED value with vanishing
    (at most 1e-12 relative) imaginary part (sympy's simplification without real assumptions can produce
    `exp(erf(re(x) - I*im(x))/2 + ...)`) has the value of its real part; such results are counted
    (`complex_typed_results`)."""
    import numpy as np

    v = np.asarray(v)
    if v.shape != ():
        return None
    v = v[()]
    if isinstance(v, (complex, np.complexfloating)):
        # an imaginary part three orders of magnitude below the comparison tolerance (sympy's evalf returns
        # `0.4497140385544759+6.2e-18j` for a real atan2) cannot change a comparison at that tolerance: the value is
        # its real part; anything larger is a wrong (complex) value
        if not (abs(v.imag) <= 1e-3 * TOL * abs(v.real)):
            return None
        COMPLEX_TYPED[0] += 1
        v = v.real
    v = float(v)
    return v if math.isfinite(v) else None


class _Timeout(BaseException):
    """not an `Exception`: an `except Exception` inside sympy (or in `guarded`) must not swallow the time limit"""


def _alarm(_sig, _frm):
    raise _Timeout()


class _sympy_time_limit:
    """time limit for the sympy phases only (parsing, simplify, diff).  It must never fire inside
    numba: an exception raised in the middle of numba's lazy initialisation leaves the process
    with half-initialised tables (`KeyError: <ufunc 'positive'>`, `coverage has no attribute
    types`) and poisons every later program of the worker."""

    def __enter__(self):
        import signal

        signal.signal(signal.SIGALRM, _alarm)
        signal.alarm(int(os.environ.get("C11_PROG_TIMEOUT", "20")))

    def __exit__(self, *exc):
        import signal

        signal.alarm(0)
        return False


_WARM = []


def _warm_up_numba():
    """force numba's lazy initialisation outside any time limit"""
    if _WARM:
        return
    import numpy as np
    from pde.tools.expressions import ScalarExpression

    f = ScalarExpression("sin(x) + hypot(x, 1) + heaviside(x, 0.5)", ["x"]).get_function("numba")
    f(1.0)
    f(np.array([1.0, 2.0]))
    _WARM.append(True)


def worker(prog):
    """run one program through py-pde; returns {"id", "obs": [(route, point, comp, value)], "errs": [(route, text)]}"""
    import warnings

    warnings.filterwarnings("ignore")
    if prog["jit"] and numba_tag() == "numba":
        try:
            _warm_up_numba()
        except Exception:         # a tree whose warm-up expression does not compile: the programs themselves are judged
            _WARM.append(False)
    obs, errs = [], []
    COMPLEX_TYPED[0] = 0
    try:
        _run_program(prog, obs, errs)
    except _Timeout:
        errs.append(("timeout", "program exceeded the time limit"))
        obs[:] = []
    n_cplx, COMPLEX_TYPED[0] = COMPLEX_TYPED[0], 0
    return {"id": prog["id"], "obs": obs, "errs": errs, "exec_mode": "S" if numba_tag() == "numba-src" else "J",
            "complex_typed": n_cplx}


def _exc(ex):
    full = str(ex)
    # numba reports the decisive line deep inside a long message: keep it for the structural key
    extra = " [Int value is too large]" if "Int value is too large" in full[160:] else ""
    return f"{type(ex).__name__}: {full[:160]}{extra}"


def numba_tag():
    """name of the numba routes in this process: `numba` when the functions are really compiled, `numba-src` when
    numba's source semantics is executed (NUMBA_DISABLE_JIT=1: the same generated code - numba printer, list
    arrays, compiled special/user functions - run by the Python interpreter)"""
    return "numba-src" if os.environ.get("NUMBA_DISABLE_JIT", "0") == "1" else "numba"


def _run_program(prog, obs, errs):
    import numpy as np
    from pde.tools.expressions import ScalarExpression, TensorExpression

    kind = prog["kind"]
    NB = numba_tag()
    src_mode = NB == "numba-src"
    use_numba = (prog["jit"] or src_mode) and not prog.get("no_numba")
    ufs = _ufunc_objects(prog, "numpy") or None
    npts = len(prog["points"])
    n_sc = prog["n_scalar"]
    consts = {k: (np.array(v, dtype=float) if isinstance(v, list) else v) for k, v in prog["consts"].items()}
    for k, v in prog["array_consts"].items():
        consts[k] = np.array(v, dtype=float)
    consts = consts or None

    def args_of(pt):
        return [np.array(a, dtype=float) if isinstance(a, list) else a for a in pt]

    def array_args():
        cols = list(zip(*prog["points"][n_sc:])) if prog["points"] and prog["points"][0] else []
        out = []
        for col in cols:
            if isinstance(col[0], list):
                out.append(np.array(col, dtype=float).T.copy())    # (ncomp, npts)
            else:
                out.append(np.array(col, dtype=float))
        return out

    def record(route, pt, val, shape=()):
        """val: scalar or array-like of `shape`"""
        if shape == ():
            obs.append((route, pt, None, _fl(val)))
        else:
            arr = np.asarray(val)
            for comp in np.ndindex(*shape):
                obs.append((route, pt, list(comp), _fl(arr[comp])))

    def record_array(route, val, shape=()):
        n = npts - n_sc
        arr = np.asarray(val)
        if arr.shape == shape:          # constant expression: scalar result for array arguments
            arr = np.broadcast_to(arr.reshape(shape + (1,)), shape + (n,))
        if arr.shape != shape + (n,):
            errs.append((route, f"ShapeError: result shape {arr.shape}, expected {shape + (n,)}"))
            return
        for j in range(n):
            record(route, n_sc + j, arr[..., j], shape)

    def guarded(route, fn):
        try:
            fn()
        except _Timeout:
            raise
        except Exception as ex:
            errs.append((route, _exc(ex)))

    # ---------------------------------------------------------------------------------------
    if kind in ("scalar", "step0", "malformed", "outside"):
        text = prog["texts"]
        sig = None if prog["sig_none"] else [l if len(l) > 1 else l[0] for l in prog["sig"]]
        try:
            with _sympy_time_limit():
                e = ScalarExpression(text, sig, user_funcs=ufs, consts=consts, repl=prog["repl"] or None,
                                     allow_indexed=prog["indexed"])
        except _Timeout:
            raise
        except Exception as ex:
            errs.append(("construct", _exc(ex)))
            return
        obs.append(("vars", None, None, list(e.vars)))
        if kind in ("scalar", "step0") and not prog["sig_none"]:
            guarded("meta", lambda: obs.append(("meta", None, None, {
                "cls": type(e).__name__, "rank": int(e.rank), "shape": [int(n) for n in e.shape],
                "depends": {v: bool(e.depends_on(v)) for v in e.vars}})))
        names = [l[0] for l in prog["sig"]]
        if prog["sig_none"]:
            # without a signature the parameters are the symbols that survive sympy's
            # simplification, in sorted order: pass the arguments by name
            if not set(e.vars) <= set(names):
                errs.append(("construct", f"SignatureError: vars {list(e.vars)} not among {names}"))
                return
            cols = [names.index(v) for v in e.vars]
            prog = dict(prog, points=[[pt[c] for c in cols] for pt in prog["points"]],
                        sig=[[v] for v in e.vars], diff=[v for v in prog["diff"] if v in e.vars])

        def r_numpy():
            for i in range(n_sc):
                record("numpy", i, e(*args_of(prog["points"][i])))
            if npts > n_sc:
                record_array("numpy-array", e(*array_args()))
        guarded("numpy", r_numpy)
        if kind == "malformed":
            return
        if prog.get("parse_number") and n_sc:
            # `parse_number(text, variables)`: the same text as a number, all symbols substituted
            def r_parse_number():
                from pde.tools.expressions import parse_number

                names = [l for l in prog["sig"]]
                for i in range(min(n_sc, 2)):
                    variables = dict(prog["consts"])
                    for entry, a in zip(names, prog["points"][i]):
                        for nm in entry:
                            variables[nm] = a
                    for alias, nm in prog["repl"].items():
                        if nm in variables:
                            variables[alias] = variables[nm]
                    with _sympy_time_limit():
                        v = parse_number(text, variables)
                    record("parse_number", i, v)
            guarded("parse_number", r_parse_number)
        all_scalar = all(not isinstance(a, list) for pt in prog["points"] for a in pt) and prog["sig"]

        def r_single():
            f = e.get_function("numpy", single_arg=True)
            for i in range(n_sc):
                record("numpy-single", i, f(np.array(prog["points"][i], dtype=float)))
            if npts > n_sc:
                record_array("numpy-single-array", f(np.array(array_args())))
        if all_scalar:
            guarded("numpy-single", r_single)

        if use_numba:
            def r_numba():
                f = e.get_function("numba")
                for i in range(n_sc):
                    record(NB, i, f(*args_of(prog["points"][i])))
                if npts > n_sc:
                    record_array(NB + "-array", f(*array_args()))
            guarded(NB, r_numba)

            def r_numba_single():
                f = e.get_function("numba", single_arg=True)
                for i in range(n_sc):
                    record(NB + "-single", i, f(np.array(prog["points"][i], dtype=float)))
            if all_scalar and (src_mode or prog["id"] % 3 == 0):
                guarded(NB + "-single", r_numba_single)

        for v in prog["diff"]:
            def r_diff(v=v):
                with _sympy_time_limit():
                    de = e.differentiate(v)
                for i in range(n_sc):
                    record(f"differentiate:{v}", i, de(*args_of(prog["points"][i])))
                if npts > n_sc:
                    record_array(f"differentiate:{v}-array", de(*array_args()))
                if use_numba and (src_mode or prog["id"] % 4 == 0):
                    f = de.get_function("numba")
                    for i in range(n_sc):
                        record(f"differentiate-{NB}:{v}", i, f(*args_of(prog["points"][i])))
            guarded(f"differentiate:{v}", r_diff)
        if prog["diff"]:
            def r_derivs():
                with _sympy_time_limit():
                    ds = e.derivatives
                nvars = len(e.vars)
                for i in range(n_sc):
                    record("derivatives", i, ds(*args_of(prog["points"][i])), (nvars,))
                if npts > n_sc:
                    record_array("derivatives-array", ds(*array_args()), (nvars,))
            guarded("derivatives", r_derivs)
        return

    # ---------------------------------------------------------------------------------------
    if kind == "tensor":
        text = _nested_text(prog["texts"])
        sig = [l[0] for l in prog["sig"]]
        try:
            with _sympy_time_limit():
                e = TensorExpression(text, sig, consts=consts)
        except _Timeout:
            raise
        except Exception as ex:
            errs.append(("construct", _exc(ex)))
            return
        shape = tuple(e.shape)
        obs.append(("shape", None, None, list(shape)))

        def r_numpy():
            for i in range(n_sc):
                record("tensor-numpy", i, e(*prog["points"][i]), shape)
            record_array("tensor-numpy-array", e(*array_args()), shape)
        guarded("tensor-numpy", r_numpy)
        if use_numba:
            def r_numba():
                f = e.get_function("numba")
                for i in range(n_sc):
                    record("tensor-" + NB, i, np.array(f(*prog["points"][i])), shape)
            guarded("tensor-" + NB, r_numba)
            if prog.get("plain") and sig:
                from pde.backends.numba import numba_backend

                def r_arr():
                    f = numba_backend._make_expression_array(e, single_arg=False)
                    for i in range(n_sc):
                        record(f"tensor-{NB}-array-fn", i, f(*prog["points"][i]), shape)
                    record_array(f"tensor-{NB}-array-fn-array", f(*array_args()), shape)
                    f1 = numba_backend._make_expression_array(e, single_arg=True)
                    for i in range(n_sc):
                        record(f"tensor-{NB}-array-fn-single", i, f1(np.array(prog["points"][i], dtype=float)), shape)
                guarded(f"tensor-{NB}-array-fn", r_arr)
        for v in prog["diff"]:
            def r_diff(v=v):
                with _sympy_time_limit():
                    de = e.differentiate(v)
                for i in range(n_sc):
                    record(f"tensor-differentiate:{v}", i, de(*prog["points"][i]), shape)
            guarded(f"tensor-differentiate:{v}", r_diff)
        if prog["diff"]:
            def r_derivs():
                with _sympy_time_limit():
                    ds = e.derivatives
                for i in range(n_sc):
                    record("tensor-derivatives", i, ds(*prog["points"][i]), (len(sig),) + shape)
            guarded("tensor-derivatives", r_derivs)
        return

    # ---------------------------------------------------------------------------------------
    if kind == "tindex":
        text = _nested_text(prog["texts"])
        sig = [l if len(l) > 1 else l[0] for l in prog["sig"]]
        try:
            with _sympy_time_limit():
                e = TensorExpression(text, sig, consts=consts, user_funcs=ufs)
        except _Timeout:
            raise
        except Exception as ex:
            errs.append(("construct", _exc(ex)))
            return
        shape = tuple(e.shape)
        obs.append(("shape", None, None, list(shape)))
        obs.append(("vars", None, None, list(e.vars)))

        def meta(x):
            return {"cls": type(x).__name__, "rank": int(x.rank), "shape": [int(n) for n in x.shape],
                    "depends": {v: bool(x.depends_on(v)) for v in e.vars}}
        guarded("meta", lambda: obs.append(("meta", None, None, meta(e))))

        def r_numpy():
            for i in range(n_sc):
                record("tensor-numpy", i, e(*prog["points"][i]), shape)
            record_array("tensor-numpy-array", e(*array_args()), shape)
        guarded("tensor-numpy", r_numpy)
        if use_numba:
            def r_numba():
                f = e.get_function("numba")
                for i in range(n_sc):
                    record("tensor-" + NB, i, np.array(f(*prog["points"][i])), shape)
            guarded("tensor-" + NB, r_numba)
        for k, spec in enumerate(prog["indices"]):
            tag = spec["text"]
            try:
                with _sympy_time_limit():
                    sub = apply_chain(e, spec["chain"])
            except _Timeout:
                raise
            except Exception as ex:
                errs.append((f"index:{tag}", _exc(ex)))
                continue
            sshape = tuple(sub.shape)
            guarded(f"index-meta:{tag}", lambda: obs.append((f"index-meta:{tag}", None, None, meta(sub))))

            def r_inumpy():
                for i in range(n_sc):
                    record(f"index-numpy:{tag}", i, sub(*prog["points"][i]), sshape)
                record_array(f"index-numpy-array:{tag}", sub(*array_args()), sshape)
            guarded(f"index-numpy:{tag}", r_inumpy)
            if use_numba and (src_mode or k < 2):
                def r_inumba():
                    f = sub.get_function("numba")
                    for i in range(n_sc):
                        record(f"index-{NB}:{tag}", i, np.array(f(*prog["points"][i])), sshape)
                    if sshape == ():
                        record_array(f"index-{NB}-array:{tag}", f(*array_args()), sshape)
                guarded(f"index-{NB}:{tag}", r_inumba)
            for v in prog["diff"]:
                def r_idiff(v=v):
                    with _sympy_time_limit():
                        de = sub.differentiate(v)
                    for i in range(n_sc):
                        record(f"index-differentiate:{tag}:{v}", i, de(*prog["points"][i]), sshape)
                guarded(f"index-differentiate:{tag}:{v}", r_idiff)
        return

    # ---------------------------------------------------------------------------------------
    if kind == "field":
        import pde

        g = prog["grid"]
        if g["cls"] == "CartesianGrid":
            grid = pde.CartesianGrid(g["bounds"], g["shape"])
        elif g["cls"] == "UnitGrid":
            grid = pde.UnitGrid(g["shape"])
        elif g["cls"] == "PolarSymGrid":
            b = g["bounds"][0]
            grid = pde.PolarSymGrid(b[1] if b[0] == 0 else tuple(b), g["shape"][0])
        elif g["cls"] == "SphericalSymGrid":
            b = g["bounds"][0]
            grid = pde.SphericalSymGrid(b[1] if b[0] == 0 else tuple(b), g["shape"][0])
        else:
            grid = pde.CylindricalSymGrid(g["bounds"][0][1], tuple(g["bounds"][1]), g["shape"])
        cc = grid.cell_coords.reshape(-1, grid.num_axes)
        if cc.shape != (npts, grid.num_axes) or not np.allclose(cc, np.array(prog["points"]), rtol=0, atol=1e-13):
            errs.append(("grid", "cell centres differ from the defining formula"))
            return
        fconsts = dict(prog["consts"])
        for k, v in prog["array_consts"].items():
            if k == "cartesian":
                continue                    # provided by py-pde itself
            fconsts[k] = np.array(v, dtype=float).reshape(grid.shape)
        fconsts = fconsts or None
        rank = prog["rank"]
        cls = [pde.ScalarField, pde.VectorField, pde.Tensor2Field][rank]

        def r_field():
            with _sympy_time_limit():       # sympy + plain numpy only
                fld = cls.from_expression(grid, prog["texts"], user_funcs=ufs, consts=fconsts)
            data = np.asarray(fld.data)
            obs.append(("dtype", None, None, str(data.dtype)))
            shape = (grid.dim,) * rank
            flat = data.reshape(shape + (npts,))
            for j in range(npts):
                record(f"from_expression-{rank}", j, flat[..., j], shape)
        guarded(f"from_expression-{rank}", r_field)
        return
    raise ValueError(kind)


def _nested_text(t):
    return "[" + ", ".join(_nested_text(x) for x in t) + "]" if isinstance(t, list) else t


# ==========================================================================================
# references
def lean_request(prog, mode):
    enc = q if mode == "Q" else fbits

    def val(v):
        return [enc(x) for x in v] if isinstance(v, list) else enc(v)

    pconsts = [[k, [val(x) for x in v]] for k, v in prog["array_consts"].items()]
    return {
        "mode": mode, "rank": prog["rank"], "expr": prog["ast"], "sig": prog["sig"],
        "consts": [[k, val(v)] for k, v in prog["consts"].items()],
        "pconsts": pconsts,
        "repl": [[k, v] for k, v in prog["repl"].items()],
        "ufuncs": [{"name": n, "params": ps, "body": b} for n, (ps, b) in prog["ufuncs"].items()],
        "points": [[val(a) for a in pt] for pt in prog["points"]],
        "diff": prog["diff"],
        "single": False,
    }


def flat_asts(prog):
    a = prog["ast"]
    if prog["rank"] == 0:
        return [(None, a)]
    if prog["rank"] == 1:
        return [([i], e) for i, e in enumerate(a)]
    return [([i, j], e) for i, row in enumerate(a) for j, e in enumerate(row)]


def flat_texts(prog):
    t = prog["texts"]
    if prog["rank"] == 0:
        return [(None, t)]
    if prog["rank"] == 1:
        return [([i], e) for i, e in enumerate(t)]
    return [([i, j], e) for i, row in enumerate(t) for j, e in enumerate(row)]


def ufuncs_of(prog):
    return {n: (ps, b) for n, (ps, b) in prog["ufuncs"].items()}


def is_rational(prog):
    uf = ufuncs_of(prog)
    return all(X.rational_fragment(e, uf) for _c, e in flat_asts(prog))


def env_of(prog, ipt, written=True):
    """name -> value environment of point `ipt`.  written=True: the names as written in the text
    (aliases and synonyms bound to the value of their definite name) for Python's eval;
    written=False: definite names only (environment of the prepared expression)"""
    env = {}
    pt = prog["points"][ipt]
    for entry, a in zip(prog["sig"], pt):
        for n in (entry if written else entry[:1]):
            env[n] = a
    if written:
        for alias, name in prog["repl"].items():
            if name in env:
                env[alias] = env[name]
    for k, v in prog["consts"].items():
        env[k] = v
    for k, v in prog["array_consts"].items():
        env[k] = v[ipt]
    return env


def lean_value(mode, s):
    """decode one answer value -> float | 'undef' | 'rejected'"""
    if s in ("undef", "rejected"):
        return s
    if mode == "Q":
        return unq(s)
    return unfbits(s)


def pick(nested, comp):
    for c in comp or []:
        nested = nested[c]
    return nested


# ==========================================================================================
def close(a, b, tol=TOL):
    """NaN-safe: a non-finite value is never close to anything"""
    a, b = float(a), float(b)
    if not (math.isfinite(a) and math.isfinite(b)):
        return False
    return abs(a - b) <= tol * max(abs(a), abs(b)) or abs(a - b) < 1e-300


def mp_namespace(ufuncs=None):
    """the functions of the grammar at 30 significant digits (mpmath): an evaluator that shares nothing with sympy's
    printers, numpy or libm"""
    import mpmath as mp

    def heav(x, h=0.5):
        return mp.mpf(0) if x < 0 else (mp.mpf(1) if x > 0 else mp.mpf(h))

    ns = {"sin": mp.sin, "cos": mp.cos, "tan": mp.tan, "exp": mp.exp, "log": mp.log, "sqrt": mp.sqrt, "tanh": mp.tanh,
          "sinh": mp.sinh, "cosh": mp.cosh, "atan": mp.atan, "asin": mp.asin, "acos": mp.acos, "asinh": mp.asinh,
          "atanh": mp.atanh, "abs": abs, "erf": mp.erf, "floor": mp.floor, "ceiling": mp.ceil,
          "hypot": lambda a, b: mp.sqrt(a * a + b * b), "atan2": mp.atan2, "pi": mp.pi, "E": mp.e,
          "heaviside": heav, "Heaviside": heav, "__builtins__": {}}
    ns["Piecewise"] = X.piecewise
    base = dict(ns)        # the body of a user function sees the base functions only
    for name, (ps, body) in (ufuncs or {}).items():
        ns[name] = eval(f"lambda {', '.join(ps)}: {X.to_text(body)}", dict(base))
    return ns


def fd_derivative(prog, text, ipt, var):
    """derivative of the WRITTEN formula with respect to `var` at point `ipt`: numerical differentiation of Python's
    evaluation of the text with mpmath functions at 30 digits (accurate to far below the comparison tolerance; the
    name is historical).  None when the formula is not real-valued and smooth around the point."""
    import mpmath as mp

    uf = ufuncs_of(prog)
    env = env_of(prog, ipt)
    names = [n for entry in prog["sig"] if entry[0] == var for n in entry]
    names += [a for a, n in prog["repl"].items() if n == var]
    if var not in env or isinstance(env[var], (list, tuple)):
        return None
    code = compile(text, "<expr>", "eval")
    with mp.workdps(30):
        ns = mp_namespace(uf)
        for k, v in env.items():
            ns[k] = [mp.mpf(x) for x in v] if isinstance(v, (list, tuple)) else mp.mpf(v)

        def f(v):
            e2 = dict(ns)
            for n in names:
                e2[n] = v
            r = eval(code, e2)
            if isinstance(r, mp.mpc):
                raise ValueError("complex value")
            return r
        try:
            d = mp.diff(f, mp.mpf(env[var]))
            d2 = mp.diff(f, mp.mpf(env[var]), h=mp.mpf(10) ** -8)
        except (ValueError, ZeroDivisionError, OverflowError, TypeError, mp.libmp.NoConvergence):
            return None
        if isinstance(d, mp.mpc) or isinstance(d2, mp.mpc):
            return None
        d, d2 = float(d), float(d2)
    # two very different step sizes must agree: otherwise the formula is not smooth at this point
    if not (math.isfinite(d) and abs(d - d2) <= 1e-6 * max(abs(d), abs(d2), 1e-6)):
        return None
    return d


def run(ctx):
    from harness.common.isolated import run_many
    from harness.common.lean import LeanBatch, BrokenCheck

    rng = ctx.rng
    n_prog = ctx.budget(1000, 13400)
    n_jit = ctx.budget(240, 2400)
    progs = []
    kinds = (["scalar"] * 51 + ["field"] * 21 + ["tensor"] * 10 + ["step0"] * 10 + ["malformed"] * 6 + ["outside"] * 2
             + ["fallback"] * 5 + ["tindex"] * 7)
    jit_left = n_jit
    n_jit_index = 0
    for i in range(n_prog):
        kind = kinds[i % len(kinds)] if i >= len(kinds) else kinds[i]
        jit = jit_left > 0 and kind in ("scalar", "tensor", "step0", "outside") and rng.random() < 1.6 * n_jit / n_prog
        if kind == "tindex" and n_jit_index < ctx.budget(14, 160) and rng.random() < 0.25:
            # index programs compile one function per index expression: a small compiled subset of their own
            jit = True
            n_jit_index += 1
        elif jit:
            jit_left -= 1
        if kind == "scalar":
            p = gen_scalar_program(rng, i, jit)
        elif kind == "fallback":
            p = gen_fallback_program(rng, i)
        elif kind == "tindex":
            p = gen_tindex_program(rng, i, jit)
        elif kind == "field":
            p = gen_field_program(rng, i)
        elif kind == "tensor":
            p = gen_tensor_program(rng, i, jit)
        elif kind == "step0":
            p = gen_step_program(rng, i, jit)
        elif kind == "outside":
            p = gen_outside_program(rng, i, jit)
        else:
            p = gen_malformed_program(rng, i)
        progs.append(p)
    bad_rt = [p for p in progs if not p["roundtrip_ok"]]
    if bad_rt:
        raise BrokenCheck(f"printer/reader round trip failed for {len(bad_rt)} programs, e.g. {bad_rt[0]['texts']!r}")

    # --- the real code, in parallel -----------------------------------------------------------
    # two pools side by side (16 processes in total): the JIT subset with numba really compiling, every other program
    # with NUMBA_DISABLE_JIT=1, where the numba routes execute numba's source semantics (routes `numba-src*`)
    worst = X.selfcheck_erf()
    if not (worst <= 1e-13):
        raise BrokenCheck(f"libm erf (reference of the erf leg) deviates from mpmath by {worst:.3g} relative")
    order = list(range(len(progs)))
    ctx.sub_rng("shuffle").shuffle(order)
    jprogs = [progs[i] for i in order if progs[i]["jit"]]
    sprogs = [progs[i] for i in order if not progs[i]["jit"]]
    import threading

    box = {}

    def pool(name, args, env, procs):
        try:
            box[name] = run_many("harness.c11", "worker", args, env=env, procs=procs, timeout=3000)
        except Exception as ex:          # re-raised in the main thread
            box[name] = ex

    th = threading.Thread(target=pool, args=("J", jprogs, {"NUMBA_DISABLE_JIT": "0"}, 8))
    th.start()
    pool("S", sprogs, {"NUMBA_DISABLE_JIT": "1"}, 8)
    th.join()
    res_by_id = {}
    for name in ("S", "J"):
        if isinstance(box[name], Exception):
            raise box[name]
        for r in box[name]:
            if isinstance(r, str):
                raise BrokenCheck("worker failed: " + r)
            res_by_id[r["id"]] = r

    # --- the model ----------------------------------------------------------------------------
    batch = LeanBatch(ctx.workdir)
    slots, islots = {}, {}
    for p in progs:
        if p["kind"] == "outside":
            continue                    # no model for functions outside the grammar: monitor only
        rat = is_rational(p)
        slots[p["id"]] = (batch.add("c11.eval", lean_request(p, "Q")) if rat else None,
                          batch.add("c11.eval", lean_request(p, "F")))
        if p["kind"] == "tindex":
            # the model of `expr[...]` (`chainFunction`, `getChain`, `dependsOn`) in the number type of the main request
            islots[p["id"]] = batch.add("c11.index", dict(lean_request(p, "Q" if rat else "F"),
                                                         indices=[sp["chain"] for sp in p["indices"]]))
    answers = batch.run()

    # --- comparison -----------------------------------------------------------------------------
    stats = {"points": 0, "ok": 0, "ill": 0, "jump": 0, "undefined": 0}
    n_nonconst = n_wellcond = 0
    n_compared = 0
    for p in progs:
        res = res_by_id[p["id"]]
        if p["kind"] == "outside":
            judge_outside(ctx, p, res)
            continue
        iq, jf = slots[p["id"]]
        aF = answers[jf]
        aQ = answers[iq] if iq is not None else None
        if aF[0] != "ok" or (aQ is not None and aQ[0] != "ok"):
            ctx.disagree("model", {"texts": p["texts"]}, (aQ or aF)[1] if (aQ and aQ[0] != "ok") else aF[1], None,
                         "the model driver rejected the request")
            continue
        ians = None
        if p["id"] in islots:
            ai = answers[islots[p["id"]]]
            if ai[0] != "ok":
                ctx.disagree("model", {"texts": p["texts"]}, ai[1], None, "the model driver rejected the index request")
                continue
            ians = ai[1]
        judge_program(ctx, p, res, ("Q", aQ[1]) if aQ else ("F", aF[1]), aF[1], stats, ians)
    ctx.extra["programs"] = len(progs)
    # translated functions whose values were compared: distinct (program, route) pairs with at least one compared point
    # (`traces_validated_against_impl` counts all observations, `monitor_evaluations_on_real_code` the compared ones)
    ctx.extra["disagreements_checked"] = len(ctx.extra.pop("_pairs", ()))
    ctx.extra["points"] = dict(stats)
    tot = max(1, stats["points"])
    ctx.extra["fraction_well_conditioned_points"] = round(stats["ok"] / tot, 4)
    nt = ctx.extra.get("_nt", {})
    ctx.extra["fraction_nonconstant_programs"] = round(nt.get("nonconst", 0) / max(1, nt.get("n", 1)), 4)
    ctx.extra["fraction_nonconstant_wellconditioned_programs"] = round(nt.get("good", 0) / max(1, nt.get("n", 1)), 4)
    ctx.extra.pop("_nt", None)
    if ctx.monitor_failures:
        shrink_failures(ctx)


def judge_outside(ctx, p, res):
    """functions outside the compared grammar: exceptions are refusals (counted per function, route and error class),
    returned values are judged against Python's evaluation of the text"""
    fn = p["function"]
    case = {k: p[k] for k in ("kind", "function", "texts", "sig", "consts", "repl", "ufuncs", "points", "rank", "n_scalar",
                              "sig_none", "indexed", "array_consts", "diff", "jit")}
    case["exec_mode"] = res.get("exec_mode")
    ctx.hist("kind", "outside" + ("/jit" if p["jit"] else ""))
    ctx.count(case, nontrivial=True, leg="outside")
    refused = set()
    for route, msg in res["errs"]:
        refused.add(route.split(":")[0])
        ctx.hist("outside_grammar", f"{fn}:{route.split(':')[0]}:{msg.split(':')[0]}")
    ns = outside_namespace()
    good = set()
    for route, ipt, comp, val in res["obs"]:
        if ipt is None:
            continue
        env = dict(ns)
        env.update(env_of(p, ipt))
        pv = X.python_eval(p["texts"], env)
        if pv is None:
            continue
        ctx.monitor_evals += 1
        if val is None or not close(val, pv):
            ctx.monitor_fail(route, dict(case, route=route, point=ipt, comp=comp), val, pv,
                             f"{route}: a function outside the compared grammar returns a wrong value ({fn})",
                             key={"kind": "outside", "route": route, "function": fn})
        else:
            good.add(route)
    for route in good:
        ctx.hist("outside_grammar", f"{fn}:{route}:value-ok")


def judge_program(ctx, p, res, ans_main, ansF, stats, ians=None):
    kind = p["kind"]
    mode, ans = ans_main
    nt = ctx.extra.setdefault("_nt", {"n": 0, "nonconst": 0, "good": 0})
    errs = dict(res["errs"])
    obs = res["obs"]
    # everything `replay` needs to run the same program through the same routes in the same execution mode
    case = {k: p[k] for k in ("kind", "texts", "sig", "consts", "repl", "ufuncs", "points", "rank", "n_scalar", "sig_none",
                              "indexed", "array_consts", "diff", "jit")}
    case["exec_mode"] = res.get("exec_mode")
    for k in ("grid", "what", "form", "plain", "parse_number", "exact", "no_numba", "indices", "fallback", "shadow", "family"):
        if p.get(k):
            case[k] = p[k]
    uf = ufuncs_of(p)
    for kk in set().union(*[X.kinds(e) for _c, e in flat_asts(p)]):
        ctx.hist("construct", kk)
    ctx.hist("kind", kind + ("/jit" if p["jit"] else ""))
    if p.get("family"):
        ctx.hist("regression_family", p["family"])
    if p.get("fallback"):
        ctx.hist("fallback_form", f"rank{p['rank']}:{p['fallback']}")
    for nm in p.get("shadow") or ():
        ctx.hist("shadowing_user_function", nm)
    ctx.hist("number_type", mode)
    ctx.hist("depth", max(X.depth(e) for _c, e in flat_asts(p)))
    if res.get("complex_typed"):
        ctx.hist("complex_typed_results", kind, res["complex_typed"])

    # ---- malformed stream: expected outcome is an error class -------------------------------
    if kind == "malformed":
        ctx.monitor_evals += 1
        ctx.impl_traces += 1
        lean_rej = all(v == "rejected" for v in ans["vals"])
        what = p["what"]
        if what == "wrong-arg-count":
            got = errs.get("numpy", "")
            ok = got.startswith("TypeError")
        else:
            got = errs.get("construct", "")
            ok = got.startswith("RuntimeError")
        ctx.hist("malformed", f"{what}:{got.split(':')[0] or 'accepted'}")
        ctx.count(case, nontrivial=True, leg="malformed")
        if not ok:
            ctx.monitor_fail("malformed", case, got or "accepted", "RuntimeError/TypeError", f"malformed call accepted: {what}",
                             key={"kind": "malformed", "what": what})
        if not lean_rej:
            ctx.disagree("malformed", case, ans["vals"], got, "model accepts a call that must be rejected")
        return

    # ---- references per (point, component) ----------------------------------------------------
    asts = flat_asts(p)
    texts = dict((tuple(c) if c else None, t) for c, t in flat_texts(p))
    refs = {}
    vals_seen = []
    for ipt in range(len(p["points"])):
        for comp, ast in asts:
            ck = tuple(comp) if comp else None
            env_w = env_of(p, ipt)
            cond = X.conditioning(ast, env_w, uf)
            lv = lean_value(mode, pick(ans["vals"][ipt], comp))
            pv = X.python_eval(texts[ck], env_w, uf)
            stats["points"] += 1
            if lv == "rejected":
                st = ("rejected", "model rejects the call")
            elif cond[0] == "undefined" or pv is None or lv == "undef" or not math.isfinite(float(lv)):
                st = ("undefined", "")
            elif cond[0] != "ok" and not p.get("exact"):
                st = (cond[0], "")
            else:
                st = ("ok", float(lv), float(pv))
                vals_seen.append(round(float(lv), 9))
                # the two references must agree: otherwise the harness/model is wrong, not py-pde
                if not close(lv, pv):
                    ctx.disagree("references", dict(case, point=ipt, comp=comp), float(lv), float(pv),
                                 "Lean eval of the AST and Python eval of the text differ")
            stats[st[0] if st[0] in stats else "undefined"] += 1
            ctx.hist("point_status", st[0])
            refs[(ipt, ck)] = st
    n_ok = sum(1 for s in refs.values() if s[0] == "ok")
    nonconst = len(set(vals_seen)) > 1
    nt["n"] += 1
    nt["nonconst"] += 1 if nonconst else 0
    nt["good"] += 1 if (nonconst and n_ok > 0) else 0
    ctx.count(case, nontrivial=nonconst and n_ok > 0, leg=kind)
    if any(s[0] == "rejected" for s in refs.values()):
        ctx.disagree("model", case, "rejected", "accepted", "model rejects a call of the valid stream")
        return

    # ---- errors of the real code on valid programs ------------------------------------------------
    for route, msg in res["errs"]:
        if route.startswith("index:"):
            continue                    # `expr[...]` itself raised: judged with the index (valid or out of range)
        ctx.hist("impl_error", f"{route.split(':')[0]}:{msg.split(':')[0]}")
        tolerated = route == "timeout"
        if tolerated:
            ctx.note(f"time limit exceeded (sympy.simplify): {p['texts']!r}")
        if route.startswith("tensor-numba") and "-array-fn" in route and msg.split(":")[0] in ("TypingError", "NameError"):
            # `_make_expression_array` (only reachable through the deprecated get_compiled_array) prints the
            # components with str(): a name that differs between sympy and numpy (E from exp(1), Abs, asin...)
            # is refused at compile time.  Refusals are counted; values it does return are compared strictly.
            ctx.hist("refused", route.split(":")[0] + ":" + msg.split(":")[0])
            continue
        if ("numba" in route and "numba-src" not in route and msg.split(":")[0] == "TypingError"
                and any("call1:erf" in X.kinds(e) for _c, e in selected_asts(p, route, asts))):
            # py-pde's erf is scipy.special.erf, a ufunc that numba cannot type without the optional package
            # numba-scipy (not installed): a refusal at compile time, counted; the numpy, numba-src and field routes of
            # the same program are judged, and so is every value a compiled erf program does return
            ctx.hist("refused", f"{route.split(':')[0]}:erf:TypingError")
            continue
        # a route may legitimately fail only where every reference is undefined
        if not tolerated and n_ok > 0:
            # index routes carry the index expression in their name: the replay needs it
            ctx.monitor_fail(route.split(":")[0], dict(case, route=route) if route.startswith("index-") else case, msg, "a value",
                             f"{route.split(':')[0]} raises on a valid program", key=finding_key(p, route, msg))

    # ---- values ------------------------------------------------------------------------------------
    dref_cache = {}
    sig_none_vars = None
    for route, ipt, comp, val in obs:
        if route in ("vars", "shape"):
            names = [l[0] for l in p["sig"]]
            if route == "vars" and (list(val) != names if not p["sig_none"] else
                                    (not set(val) <= set(names) or list(val) != sorted(val))):
                ctx.disagree("signature", case, names, val, "expr.vars differs from the definite names")
            if route == "vars" and p["sig_none"]:
                sig_none_vars = list(val)
            continue
        if route == "dtype":
            # the field holds floating-point numbers whatever Python type the formula returns in the first cell
            # (a complex-TYPED field with vanishing imaginary part is counted, see `_fl`)
            ctx.monitor_evals += 1
            ctx.hist("field_dtype", val)
            if not (val == "float64" or (val == "complex128" and res.get("complex_typed"))):
                ctx.monitor_fail(f"from_expression-{p['rank']}", dict(case, route="dtype"), val, "float64",
                                 "from_expression: the field does not hold floating-point numbers",
                                 key={"kind": p["kind"], "route": f"from_expression-{p['rank']}", "what": "dtype"})
            continue
        if route == "meta" and kind in ("scalar", "step0"):
            judge_meta(ctx, p, case, "meta", val, (), [None], None, texts, refs, {None: p["ast"]})
            continue
        if route == "meta" or route.startswith("index-"):
            continue                    # judged by `judge_index`
        base = route.split(":")[0]
        is_d = base.startswith("differentiate") or base.startswith("derivatives") or base.startswith("tensor-d")
        ctx.impl_traces += 1
        if not is_d:
            st = refs[(ipt, tuple(comp) if comp else None)]
        else:
            st = derivative_status(p, mode, ans, ipt, comp, route, dref_cache, refs, texts, sig_none_vars)
        if st[0] != "ok":
            ctx.hist("skipped", f"{'deriv' if is_d else 'value'}:{st[0]}")
            continue
        _, lv, pv = st
        ctx.monitor_evals += 1
        ctx.extra.setdefault("_pairs", set()).add((p["id"], base))
        ctx.hist("route", base)
        c = dict(case, route=route, point=ipt, comp=comp)
        tol = TOL
        if val is None or not close(val, lv, tol):
            disagree_keyed(ctx, base, c, lv, val, "py-pde value differs from the model's value",
                           finding_key(p, route, "", None if is_d else comp, None if is_d else ipt))
        if pv is None and is_d:
            # no numerical derivative (the formula is not smooth / not real in a neighbourhood for mpmath): the monitor
            # falls back on the model's `diff`, which `diff_sound` proves to be the derivative of the formula
            pv = lv
            ctx.hist("derivative_reference", "model-diff")
        elif is_d:
            ctx.hist("derivative_reference", "mpmath")
        if pv is not None:
            # derivatives: the numerical derivative (mpmath, 30 digits) of the written formula is the independent
            # reference of the monitor; the model's `diff` is the other
            bad = (val is None or not (abs(val - pv) <= DTOL_REL * abs(pv) + DTOL_ABS * fscale(refs, ipt))) if is_d else \
                (val is None or not close(val, pv, tol))
            if bad:
                ctx.monitor_fail(base, c, val, pv, f"{base}: value differs from the written formula",
                                 key=finding_key(p, route, "", None if is_d else comp, None if is_d else ipt))
    if kind == "tindex" and ians is not None:
        judge_index(ctx, p, res, mode, ans, ians, refs, texts, case, n_ok, dref_cache)


def shape_of(p):
    a = p["texts"]
    return () if p["rank"] == 0 else (len(a),) if p["rank"] == 1 else (len(a), len(a[0]))


def split_index_route(route):
    """`index-numpy:[1:]` -> (base, tag, None); `index-differentiate:[1:]:x` -> (base, tag, "x")"""
    base, rest = route.split(":", 1)
    if base == "index-differentiate":
        tag, v = rest.rsplit(":", 1)
        return base, tag, v
    return base, rest, None


def selected_asts(p, route, asts):
    """the components a route evaluates: all of them, or the ones an index route selects"""
    if not route.startswith("index-") or ":" not in route:
        return asts
    _b, tag, _v = split_index_route(route)
    for sp in p.get("indices", ()):
        if sp["text"] == tag and sp["valid"]:
            _sh, sel = index_selection(shape_of(p), sp["chain"])
            keep = {tuple(o) for o in sel.values()}
            return [(c, e) for c, e in asts if tuple(c) in keep]
    return asts


def definite_symbols(p, ast):
    """the variables of the signature an AST refers to (synonyms and aliases resolved)"""
    out = set()
    for n in X.symbols(ast):
        n = p["repl"].get(n, n)
        for entry in p["sig"]:
            if n in entry:
                out.add(entry[0])
    return out


def semantic_dependence(p, text, var, uf, ipts):
    """True if the value of the written formula visibly changes when only `var` changes (at one of the points)"""
    entry = next(l for l in p["sig"] if l[0] == var)
    names = list(entry) + [a for a, n in p["repl"].items() if n == var]
    for ipt in ipts:
        env = env_of(p, ipt)
        if isinstance(env.get(var), (list, tuple)):
            continue
        v0 = X.python_eval(text, env, uf)
        for dv in (0.3125, -0.21875):
            env2 = dict(env)
            for n in names:
                env2[n] = env[var] + dv
            v1 = X.python_eval(text, env2, uf)
            if v0 is not None and v1 is not None and abs(v1 - v0) > 1e-6 * max(1.0, abs(v0), abs(v1)):
                return True
    return False


def judge_meta(ctx, p, case, route, m, sshape, origs, model, texts, refs, asts_by):
    """metadata of an (indexed) expression: class, rank, shape against numpy's indexing of the component coordinates;
    `depends_on(v)` must be False for a variable that the selected components do not mention and True for one whose
    change visibly changes their value (anything in between - `x - x` - is left to sympy's simplification)"""
    uf = ufuncs_of(p)
    ctx.monitor_evals += 1
    ctx.impl_traces += 1
    names = [l[0] for l in p["sig"]]
    probs = []
    if tuple(m["shape"]) != tuple(sshape):
        probs.append(("shape", m["shape"], list(sshape)))
    if m["rank"] != len(sshape):
        probs.append(("rank", m["rank"], len(sshape)))
    if route != "meta":
        want = "ScalarExpression" if sshape == () else "TensorExpression"
        if m["cls"] != want:
            probs.append(("class", m["cls"], want))
    syn = set()
    for o in origs:
        syn |= definite_symbols(p, asts_by[o])
    ok_pts = [i for i in range(p["n_scalar"]) if all(refs[(i, o)][0] == "ok" for o in origs)]
    for v in names:
        got = m["depends"].get(v)
        if got and v not in syn:
            probs.append((f"depends_on({v})", True, False))
        elif not got and v in syn and any(semantic_dependence(p, texts[o], v, uf, ok_pts[:2]) for o in origs):
            probs.append((f"depends_on({v})", False, True))
        ctx.hist("depends_on", f"{bool(got)}/{'mentioned' if v in syn else 'absent'}")
    for what, got, want in probs:
        ctx.monitor_fail(route.split(":")[0], dict(case, route=route, metadata=what), got, want,
                         f"{route.split(':')[0]}: {what.split('(')[0]} of the expression is wrong",
                         key={"kind": p["kind"], "route": route.split(":")[0], "what": what.split("(")[0]})
    # the model: rank and shape of `getChain`; `dependsOn` is the syntactic upper bound (theorem `dependsOn_sound`)
    if model is not None:
        if list(model["shape"]) != list(sshape) or model["rank"] != len(sshape):
            ctx.disagree("model-index", dict(case, route=route), [model["rank"], model["shape"]], [len(sshape), list(sshape)],
                         "shape of the model's getChain differs from numpy's indexing")
        for v, md in zip(names, model["depends"]):
            if md != (v in syn):
                ctx.disagree("model-index", dict(case, route=route), md, v in syn,
                             f"dependsOn({v}) of the model differs from the symbols of the selected components")
            if m["depends"].get(v) and not md:
                ctx.disagree(route.split(":")[0], dict(case, route=route), md, True,
                             f"depends_on({v}) is True although the model's expression does not mention {v}")


def judge_index(ctx, p, res, mode, ans, ians, refs, texts, case, n_ok, dref_cache):
    """`expr[...]`: refusal of out-of-range indices, metadata, values of the numpy / numba functions of the indexed
    expression (against the written formula of the selected component, the model `chainFunction`, and the component of
    py-pde's own evaluation of the whole array) and its derivatives"""
    shape = shape_of(p)
    obs = res["obs"]
    errs = dict(res["errs"])
    asts_by = {tuple(c): e for c, e in flat_asts(p)}
    full = {}
    by_tag = {}
    for route, ipt, comp, val in obs:
        if route in ("tensor-numpy", "tensor-numpy-array"):
            full[(ipt, tuple(comp))] = val
        elif route.startswith("index-"):
            by_tag.setdefault(split_index_route(route)[1], []).append((route, ipt, comp, val))
    for route, _i, _c, val in obs:
        if route == "meta":
            judge_meta(ctx, p, case, "meta", val, shape, list(asts_by), ians, texts, refs, asts_by)
    for k, spec in enumerate(p["indices"]):
        tag = spec["text"]
        ia = ians["indices"][k]
        err = errs.get(f"index:{tag}")
        c0 = dict(case, route=f"index:{tag}")
        ctx.hist("index_form", "".join("[" + ",".join("i" if "at" in t else "a:b" for t in tup) + "]" for tup in spec["chain"])
                 + ("" if spec["valid"] else " out of range"))
        ctx.monitor_evals += 1
        ctx.impl_traces += 1
        if not spec["valid"]:
            if ia["ok"]:
                ctx.disagree("model-index", c0, "accepted", "IndexError", "the model accepts an index that numpy's indexing refuses")
            if err is None:
                ctx.monitor_fail("index", c0, "accepted", "ValueError / IndexError", "index: an out-of-range index is accepted",
                                 key={"kind": "tindex", "route": "index", "what": "out-of-range index accepted"})
            else:
                ctx.hist("index_refused", err.split(":")[0])
            continue
        if not ia["ok"]:
            ctx.disagree("model-index", c0, "refused", "accepted", "the model refuses an index that numpy's indexing accepts")
            continue
        if err is not None:
            ctx.hist("impl_error", f"index:{err.split(':')[0]}")
            ctx.monitor_fail("index", c0, err, "an expression", "index: indexing raises for a valid index",
                             key=finding_key(p, "index", err))
            continue
        sshape, sel = index_selection(shape, spec["chain"])
        for route, ipt, comp, val in by_tag.get(tag, ()):
            base, _t, dvar = split_index_route(route)
            if base == "index-meta":
                judge_meta(ctx, p, case, route, val, sshape, sorted(set(sel.values())), ia, texts, refs, asts_by)
                continue
            ck = tuple(comp) if comp else ()
            c = dict(case, route=route, point=ipt, comp=comp)
            if ck not in sel:
                ctx.monitor_fail(base, c, list(ck), list(sshape), f"{base}: the result has a component the index does not select",
                                 key={"kind": "tindex", "route": base, "what": "shape"})
                continue
            orig = tuple(sel[ck])
            is_d = dvar is not None
            ctx.impl_traces += 1
            if not is_d:
                st = refs[(ipt, orig)]
            else:
                st = derivative_status(p, mode, ans, ipt, list(orig), f"tensor-differentiate:{dvar}", dref_cache, refs, texts)
            if st[0] != "ok":
                ctx.hist("skipped", f"{'deriv' if is_d else 'value'}:{st[0]}")
                continue
            _, lv, pv = st
            # the model of the INDEXED expression (`chainFunction`); by `chain_function_eval` it is the component of the
            # model's value of the whole array
            src = (ia["dvals"][p["diff"].index(dvar)] if is_d else ia["vals"])[ipt]
            dfd = (ia["ddefined"][p["diff"].index(dvar)] if is_d else ia["defined"])[ipt]
            if src == "rejected":
                ctx.disagree("model-index", c, "rejected", "accepted", "the model rejects the call of the indexed expression")
                continue
            ilv = lean_value(mode, pick(src, comp))
            if not pick(dfd, comp) or ilv in ("undef", "rejected") or not math.isfinite(float(ilv)):
                ctx.hist("skipped", "index:model-undefined")
                continue
            if not close(ilv, lv):
                ctx.disagree("model-index", c, float(ilv), lv, "model: the indexed expression and the component of the whole "
                             "array differ (chain_function_eval)")
            ctx.monitor_evals += 1
            ctx.extra.setdefault("_pairs", set()).add((p["id"], route))
            ctx.hist("route", base)
            if val is None or not close(val, ilv):
                disagree_keyed(ctx, base, c, float(ilv), val, "py-pde value of the indexed expression differs from the model's value",
                               finding_key(p, route, "", None if is_d else orig))
            if is_d:
                if pv is None:
                    pv = lv
                    ctx.hist("derivative_reference", "model-diff")
                else:
                    ctx.hist("derivative_reference", "mpmath")
                bad = val is None or not (abs(val - pv) <= DTOL_REL * abs(pv) + DTOL_ABS * fscale(refs, ipt))
            else:
                bad = val is None or not close(val, pv)
            if bad:
                ctx.monitor_fail(base, dict(c, component_of_array=list(orig)), val, pv,
                                 f"{base}: value of the indexed expression differs from the written formula of the selected component",
                                 key=finding_key(p, route, "", None if is_d else orig))
            elif not is_d and base in ("index-numpy", "index-numpy-array"):
                fv = full.get((ipt, orig))
                if fv is not None and not close(val, fv, 2 * TOL):
                    ctx.monitor_fail(base, c, val, fv, f"{base}: expr[...](x) differs from the component of expr(x)",
                                     key={"kind": "tindex", "route": base, "what": "component of the full evaluation"})


def disagree_keyed(ctx, leg, case, model, impl, note, key):
    """a model/code disagreement; when the deviation has the narrow key of a finding (`call_site` + `symptom`) the key
    is attached, so that a disagreement that is only the other face of a listed finding does not alarm on its own"""
    ctx.disagree(leg, case, model, impl, note)
    if key and key.get("call_site"):
        ctx.disagreements[-1]["key"] = key


def fscale(refs, ipt):
    """magnitude of the function values at a point (scale of the finite-difference error)"""
    vs = [abs(st[1]) for (i, _c), st in refs.items() if i == ipt and st[0] == "ok"]
    return max(vs + [1.0])


def simplify_flips_inequality(p, ipt):
    """True if the program is one comparison whose truth value at point `ipt` is changed by `sympy.simplify` (sympy
    1.14 divides a polynomial inequality in one symbol by the gcd of its coefficients without reversing it when that
    gcd is a negative non-rational number: `N**3*sin(4) <= 1` becomes `N**3 <= 1/sin(4)`)"""
    if p["rank"] != 0 or not isinstance(p.get("ast"), dict) or p["ast"].get("k") != "cmp" or ipt is None:
        return False
    if any(n["k"] in ("call1", "call2") and n["f"] in (p.get("ufuncs") or {}) for n in X.walk(p["ast"])):
        return False                # a user function is called: sympy alone cannot evaluate the comparison
    try:
        import sympy

        used = X.symbols(p["ast"])
        env = {n: v for n, v in env_of(p, ipt).items() if n in used}
        if any(isinstance(v, (list, tuple)) for v in env.values()):
            return False
        syms = {n: sympy.Symbol(n) for n in env}
        rel = sympy.parse_expr(p["texts"], local_dict=dict(syms, heaviside=sympy.Heaviside, hypot=lambda a, b: sympy.sqrt(a * a + b * b)))
        vals = {syms[n]: v for n, v in env.items()}
        before = bool(rel.subs(vals))
        after = bool(sympy.simplify(rel).subs(vals))
        return before != after
    except Exception:           # the attribution is best effort: without it the failure keeps its general key
        return False


def sympy_form_overflows(p, ipt):
    """True if sympy's own form of the scalar formula - parsed and simplified by sympy alone and evaluated with numpy
    (user functions and py-pde's special functions as plain Python callables), no py-pde involved - is a non-finite
    number at point `ipt` (where the reference value is finite: the caller asks only for compared points).  Without real
    assumptions sympy evaluates `Abs(exp(-tanh(250*x)))` to `exp(-sinh(500*re(x))/(2*cos(250*im(x))**2 +
    cosh(500*re(x)) - 1))`, which is inf/inf for x > 1.42."""
    if p["rank"] != 0 or not isinstance(p.get("ast"), dict) or ipt is None:
        return False
    try:
        import copy
        import warnings

        import numpy as np
        import sympy

        # indexed symbols `q[i]` become plain symbols `q__i` bound to the component (sympy alone is asked, so the way
        # py-pde passes arrays is irrelevant here)
        ast = copy.deepcopy(p["ast"])
        full = env_of(p, ipt)
        env = {}
        for nd in X.walk(ast):
            if nd["k"] == "idx":
                name = f"{nd['n']}__{nd['i']}"
                env[name] = full[nd["n"]][nd["i"]]
                nd.clear()
                nd.update({"k": "var", "n": name})
        text = X.to_text(ast)
        used = X.symbols(ast)
        env.update({n: v for n, v in full.items() if n in used and n not in env})
        if any(isinstance(v, (list, tuple)) for v in env.values()):
            return False
        names = sorted(env)
        syms = {n: sympy.Symbol(n) for n in names}
        ufs = _ufunc_objects(p, "numpy")
        loc = dict(syms, heaviside=sympy.Heaviside, hypot=sympy.Function("hypot"))
        loc.update({n: sympy.Function(n) for n in ufs})
        expr = sympy.simplify(sympy.parse_expr(text, local_dict=loc))
        special = {"re": np.real, "im": np.imag, "hypot": np.hypot, "erf": np.vectorize(math.erf),
                   "Heaviside": lambda x, h=0.5: np.heaviside(x, h)}
        with warnings.catch_warnings():
            warnings.simplefilter("ignore")
            v1 = complex(sympy.lambdify([syms[n] for n in names], expr, modules=[ufs, special, "numpy"])(*[env[n] for n in names]))
        return not bool(np.isfinite(v1))
    except Exception:           # best effort, as above
        return False


_ATTR = {}


def attributed(fn, p, ipt):
    """memo of the sympy-based attributions per (program, point): the same point fails on many routes"""
    k = (fn.__name__, p.get("id"), json_key(p["texts"]), ipt)
    if k not in _ATTR:
        _ATTR[k] = fn(p, ipt)
    return _ATTR[k]


def json_key(t):
    return t if isinstance(t, str) else repr(t)


def finding_key(p, route, msg, orig=None, ipt=None):
    """structural key of a monitor failure (matched against known_findings.json); `orig` = the component of the
    array whose value is wrong, `ipt` the point"""
    base = route.split(":")[0]
    key = {"kind": p["kind"], "route": base}
    if msg:
        key["error"] = msg.split(":")[0]
    if not msg and attributed(simplify_flips_inequality, p, ipt):
        key.update({"call_site": "ExpressionBase.__init__ (sympy.simplify)",
                    "symptom": "simplification changes the truth value of an inequality"})
    elif not msg and p["kind"] == "scalar" and attributed(sympy_form_overflows, p, ipt):
        key.update({"call_site": "parse_expr_guarded / sympy.simplify (sympy's form of the formula)",
                    "symptom": "sympy's form of the formula overflows to NaN where the formula is finite"})
    if "of type int which has no callable" in msg or ("int too big" in msg.lower()) or "Int value is too large" in msg:
        key.update({"call_site": "make_expression_function (sympy printer)",
                    "symptom": "integer literal beyond int64 reaches a numpy ufunc"})
    if "name 're' is not defined" in msg or "name 'im' is not defined" in msg:
        key.update({"call_site": "ExpressionBase.__init__ (sympy.simplify)",
                    "symptom": "Abs of an exponential becomes re(): NameError"})
    if p.get("fallback") and base.startswith("from_expression"):
        if "setting an array element with a sequence" in msg and p["rank"] == 0 and p.get("array_consts"):
            key.update({"call_site": "ScalarField.from_expression (cell-by-cell fallback)",
                        "symptom": "array-valued constant is not evaluated per cell: ValueError"})
        elif "truth value of an array" in msg and p["rank"] > 0:
            key.update({"call_site": ("VectorField" if p["rank"] == 1 else "Tensor2Field") + ".from_expression",
                        "symptom": "no cell-by-cell fallback: ValueError for an expression that cannot be evaluated on arrays"})
    if p["kind"] == "tindex" and not msg and orig is not None and name_capture(p, orig):
        key.update({"call_site": "make_expression_function (lambdify namespace)",
                    "symptom": "user function named like a function sympy prints (sqrt, exp) is called for the sympy function"})
    if p["kind"] == "tensor" and p["rank"] == 2 and base in ("tensor-numpy", "tensor-numpy-array"):
        variables = {l[0] for l in p["sig"]}
        if any(all(not (X.symbols(e) & variables) for e in row) for row in p["ast"]):
            key.update({"call_site": "NumpyArrayPrinter._print_ImmutableDenseNDimArray",
                        "symptom": "rank-2 array with an all-constant row, array arguments"})
    return key


def name_capture(p, orig):
    """component `orig` contains a power that sympy prints as `sqrt(..)` / `exp(..)` (`q**(1/2)`, `q**-(1/2)`, `E**a`,
    `E**2`) while the program defines a user function of that name"""
    uf = p.get("ufuncs") or {}
    if not ({"sqrt", "exp"} & set(uf)):
        return False
    half = {"k": "div", "a": {"k": "num", "v": "1"}, "b": {"k": "num", "v": "2"}}
    for n in X.walk(pick(p["ast"], list(orig))):
        if n["k"] == "call2" and n["f"] == "pow":
            b = n["b"]["a"] if n["b"]["k"] == "neg" else n["b"]
            if "sqrt" in uf and b == half:
                return True
            if "exp" in uf and n["a"] == {"k": "named", "n": "E"}:
                return True
        if n["k"] == "powi" and "exp" in uf and n["a"] == {"k": "named", "n": "E"} and n["n"] not in (0, 1):
            return True             # `E**2` is `exp(2)` for sympy
    return False


def derivative_status(p, mode, ans, ipt, comp, route, cache, refs, texts, observed_vars=None):
    """reference for a derivative observation: Lean `diff` (exact) and finite differences"""
    base = route.split(":")[0]
    uf = ufuncs_of(p)
    names = observed_vars if observed_vars is not None else [l[0] for l in p["sig"]]
    if "derivatives" in base:
        var, ccomp = names[comp[0]], (tuple(comp[1:]) or None)
    else:
        var, ccomp = route.split(":")[1].replace("-array", ""), (tuple(comp) if comp else None)
    if var not in p["diff"]:
        return ("undefined", "")
    key = (ipt, var, ccomp)
    if key in cache:
        return cache[key]
    k = p["diff"].index(var)
    lv = lean_value(mode, pick(ans["dvals"][k][ipt], ccomp))
    if lv in ("undef", "rejected") or not math.isfinite(float(lv)):
        st = ("undefined", "")
    else:
        c1 = X.conditioning(pick(ans["dexprs"][k], ccomp), env_of(p, ipt, written=False), uf)
        c0 = refs[(ipt, ccomp)]
        if c0[0] != "ok":
            st = (c0[0], "")
        elif c1[0] != "ok":
            st = (c1[0], "")
        else:
            st = ("ok", float(lv), fd_derivative(p, texts[ccomp], ipt, var))
    cache[key] = st
    return st


def shrink_failures(ctx):
    """shrink the expression of the first failure of each (leg, what) with the numpy pipeline as
    the system under test and Python's eval as the oracle"""
    import warnings

    warnings.filterwarnings("ignore")       # overflow warnings of the generated functions (main process)
    seen = set()
    for mf in ctx.monitor_failures:
        k = (mf["leg"], mf["what"])
        c = mf["case"]
        if k in seen or c.get("kind") not in ("scalar", "step0") or c.get("rank") != 0:
            continue
        if (mf.get("key") or {}).get("call_site"):
            continue                # attributed to a finding with a narrow key: the attribution is the explanation
        seen.add(k)
        try:
            small = shrink_case(c)
        except Exception as ex:     # shrinking is best effort
            mf["case"]["shrink_error"] = repr(ex)
            continue
        if small:
            mf["case"]["shrunk"] = small


def _direct_check(case, text):
    """True if the numpy pipeline deviates from Python's eval for `text` at the case's point"""
    prog = dict(case)
    prog.update({"texts": text, "id": 0, "n_scalar": len(case["points"]), "jit": "numba" in case.get("route", ""),
                 "diff": [], "sig_none": False, "indexed": True, "array_consts": case.get("array_consts", {}),
                 "ast": None})
    obs, errs = [], []
    _run_program(prog, obs, errs)
    uf = ufuncs_of(prog)
    base = case.get("route", "numpy").split(":")[0].replace("-array", "")
    for route, ipt, comp, val in obs:
        if route.split(":")[0] != base or ipt is None:
            continue
        pv = X.python_eval(text, env_of(prog, ipt), uf)
        ast = X.strip(X.read_text(text, set(env_of(prog, ipt))))
        cond = X.conditioning(ast, env_of(prog, ipt), uf)
        if pv is None or cond[0] != "ok":
            continue
        if val is None or not close(val, pv):
            return True
    return False


def shrink_case(case):
    if "differentiate" in case.get("route", "") or "derivatives" in case.get("route", "") or "numba-src" in case.get("route", ""):
        return None
    declared = {n for l in case["sig"] for n in l} | set(case["consts"]) | set(case["repl"])
    ast = X.read_text(case["texts"], declared)
    if not _direct_check(case, case["texts"]):
        return None
    small = X.shrink(ast, lambda e: _direct_check(case, X.to_text(e)))
    return {"text": X.to_text(small), "size": X.size(small)}


def search(ctx, broken):
    """a broken tie without a monitor failure: every observation has already been put through
    the monitor (Python's eval of the text) in `run`, so there is nothing further to search"""
    return []


def replay_worker(prog):
    import warnings

    warnings.filterwarnings("ignore")
    obs, errs = [], []
    try:
        _run_program(prog, obs, errs)
    except _Timeout:
        errs.append(("timeout", "program exceeded the time limit"))
    return {"obs": obs, "errs": errs}


def replay(ctx, rep):
    """re-run the RECORDED program (text, signature, constants, user functions, the recorded split of the points into
    scalar calls and the array call, signature=None or not) through py-pde in the recorded execution mode (numba
    compiled or source semantics), pick the recorded observation (route, point, component) and judge it against the
    written formula (Python's evaluation of the text; the mpmath derivative for derivative routes).  A recorded
    failure to evaluate (`key.error`) still fails while the route raises.  False iff the recorded symptom persists
    or cannot be re-judged."""
    from harness.common.isolated import run_one

    c = rep.get("case")
    if not isinstance(c, dict) or "kind" not in c:
        print("not replayable: the file records no program (kind=%s)" % rep.get("kind"))
        return False
    missing = [k for k in ("n_scalar", "sig_none", "array_consts", "diff") if k not in c]
    if missing:
        print(f"not replayable: recorded by an older version of the check (no {missing}); the split into scalar and array "
              "calls is unknown")
        return False
    route = c.get("route") or (rep.get("key") or {}).get("route")
    prog = {k: v for k, v in c.items() if k not in ("route", "point", "comp", "shrunk", "shrink_error", "exec_mode", "component_of_array", "metadata")}
    prog.update({"id": 0, "ast": None, "jit": bool(route and "numba" in route and "numba-src" not in route) or
                 (c.get("exec_mode") == "J" and bool(c.get("jit")))})
    prog.setdefault("indexed", True)
    mode = "S" if (route and "numba-src" in route) else ("J" if prog["jit"] else (c.get("exec_mode") or "S"))
    res = run_one("harness.c11", "replay_worker", prog, env={"NUMBA_DISABLE_JIT": "1" if mode == "S" else "0"})
    if isinstance(res, str):
        print("worker failed:", res)
        return False
    obs, errs = res["obs"], dict(res["errs"])
    print(f"execution mode {mode}; errors: {res['errs']}")

    # ---- malformed stream: the expected outcome is an error class -----------------------------------------------
    if c["kind"] == "malformed":
        if c.get("what") == "wrong-arg-count":
            got, want = errs.get("numpy", ""), "TypeError"
        else:
            got, want = errs.get("construct", ""), "RuntimeError"
        ok = got.startswith(want)
        print(f"malformed call ({c.get('what')}): {'rejected with ' + got if got else 'ACCEPTED'}; expected {want}: {'ok' if ok else 'FAILS'}")
        return ok
    if route is None:
        print("not replayable: the file records no route")
        return False
    base = route.split(":")[0]
    uf = ufuncs_of(prog)
    texts = dict((tuple(cc) if cc else None, t) for cc, t in flat_texts(prog))
    if route == "dtype":
        got = [val for r, _i, _c, val in obs if r == "dtype"]
        if not got:
            print(f"from_expression produced no field: {res['errs']}")
            return False
        print(f"dtype of the field: {got[0]} (expected float64)")
        return got[0] == "float64"
    if route == "meta" or base == "index" or base.startswith("index-"):
        return replay_index(c, rep, prog, obs, errs, texts)
    extra_ns = outside_namespace() if c["kind"] == "outside" else {}
    # with signature=None the function takes the surviving symbols in sorted order (as in the original run)
    sig_vars = None
    for r, _i, _c, val in obs:
        if r == "vars":
            sig_vars = list(val)
    names = sig_vars if (prog["sig_none"] and sig_vars is not None) else [l[0] for l in prog["sig"]]
    # ---- a recorded failure to evaluate -----------------------------------------------------------------------------
    err_routes = [r for r in errs if r.split(":")[0] == base or r == "construct" or base.startswith(r.split(":")[0] + "-")]
    if (rep.get("key") or {}).get("error") or isinstance(rep.get("observed"), str):
        if err_routes:
            print(f"route {base} still fails to evaluate: {[errs[r] for r in err_routes]}")
            return False
        print(f"route {base} no longer raises; judging the values it returns")
    elif err_routes:
        print(f"route {base} now raises: {[errs[r] for r in err_routes]}")
        return False
    # ---- the recorded observation(s) -------------------------------------------------------------------------------------
    ok, n = True, 0
    for r, ipt, comp, val in obs:
        if ipt is None or r.split(":")[0] != base:
            continue
        if "point" in c and not isinstance(rep.get("observed"), str):
            if r != route or ipt != c["point"] or comp != c.get("comp"):
                continue
        ck = tuple(comp) if comp else None
        is_d = base.startswith("differentiate") or base.startswith("derivatives") or base.startswith("tensor-d")
        if is_d:
            if "derivatives" in base:
                var, ck = names[comp[0]], (tuple(comp[1:]) or None)
            else:
                var = r.split(":")[1].replace("-array", "")
            pv = fd_derivative(prog, texts[ck], ipt, var)
            scale = abs(X.python_eval(texts[ck], env_of(prog, ipt), uf) or 1.0)
            good = pv is not None and val is not None and abs(val - pv) <= DTOL_REL * abs(pv) + DTOL_ABS * max(1.0, scale)
        else:
            pv = X.python_eval(texts[ck], dict(extra_ns, **env_of(prog, ipt)), uf)
            good = pv is not None and val is not None and close(val, pv, TOL)
        if pv is None and "point" not in c:
            continue            # a point where the formula is undefined (only when all points of a route are judged)
        n += 1
        print(f"route={r} point={ipt} comp={comp}: py-pde={val!r} formula={pv!r} {'ok' if good else 'DEVIATES'}")
        ok = ok and good
    if n == 0:
        print(f"no observation of route {route} at the recorded point was produced: the case cannot be re-judged")
        return False
    return ok


class _Collect:
    """a recorder with the interface `judge_meta` needs (replay: the monitor part only, no model)"""

    def __init__(self):
        self.failures = []
        self.monitor_evals = self.impl_traces = 0

    def hist(self, *_a, **_k):
        pass

    def disagree(self, *_a, **_k):
        pass

    def monitor_fail(self, leg, case, observed, expected, what, key=None):
        self.failures.append((what, observed, expected))


def replay_index(c, rep, prog, obs, errs, texts):
    """the recorded index expression `expr[...]` of the recorded array program: refusal / acceptance of the index, the
    metadata, or the recorded value (route, point, component) against the written formula of the selected component
    (the mpmath derivative for `index-differentiate`)"""
    route = c["route"]
    uf = ufuncs_of(prog)
    shape = shape_of(prog)
    asts_by = {}
    declared = {n for l in prog["sig"] for n in l} | set(prog["consts"]) | set(prog.get("array_consts") or ()) | set(prog["repl"])
    for cc, t in flat_texts(prog):
        asts_by[tuple(cc) if cc is not None else None] = X.strip(X.read_text(t, declared))
    refs = {}
    for ipt in range(len(prog["points"])):
        for cc, t in texts.items():
            pv = X.python_eval(t, env_of(prog, ipt), uf)
            refs[(ipt, cc)] = ("ok", pv, pv) if pv is not None else ("undefined", "")
    if "construct" in errs:
        print(f"the array expression itself is refused: {errs['construct']}")
        return False
    if route == "meta":
        m = [val for r, _i, _c, val in obs if r == "meta"]
        if not m:
            print("no metadata was produced")
            return False
        col = _Collect()
        judge_meta(col, prog, c, "meta", m[0], shape, list(asts_by), None, texts, refs, asts_by)
        for f in col.failures:
            print("metadata:", f)
        print(f"metadata of the whole array: {m[0]}: {'ok' if not col.failures else 'WRONG'}")
        return not col.failures
    base, tag, dvar = split_index_route(route)
    spec = next((sp for sp in prog.get("indices", ()) if sp["text"] == tag), None)
    if spec is None:
        print(f"not replayable: the file records no index {tag}")
        return False
    err = errs.get(f"index:{tag}")
    if not spec["valid"]:
        print(f"out-of-range index {tag}: {'refused with ' + err if err else 'ACCEPTED'}")
        return err is not None
    if err is not None:
        print(f"valid index {tag} raises: {err}")
        return False
    if base == "index":
        print(f"valid index {tag} is accepted")
        return True
    sshape, sel = index_selection(shape, spec["chain"])
    if base == "index-meta":
        m = [val for r, _i, _c, val in obs if r == route]
        if not m:
            print(f"no metadata was produced: {res_errors(errs, route)}")
            return False
        col = _Collect()
        judge_meta(col, prog, c, route, m[0], sshape, sorted(set(sel.values())), None, texts, refs, asts_by)
        for f in col.failures:
            print("metadata:", f)
        print(f"metadata of expr{tag}: {m[0]}: {'ok' if not col.failures else 'WRONG'}")
        return not col.failures
    err_routes = [r for r in errs if r == route or (r.split(":")[0] + "-array" == base and r.split(":", 1)[1] == route.split(":", 1)[1])]
    if err_routes:
        print(f"route {route} fails to evaluate: {[errs[r] for r in err_routes]}")
        return False
    ok, n = True, 0
    recorded_value = "point" in c and not isinstance(rep.get("observed"), str)
    # the recorded symptom may be the comparison with py-pde's own evaluation of the whole array
    vs_full = (rep.get("key") or {}).get("what") == "component of the full evaluation"
    full = {(ipt, tuple(comp)): val for r, ipt, comp, val in obs if r in ("tensor-numpy", "tensor-numpy-array")}
    for r, ipt, comp, val in obs:
        if ipt is None or r != route:
            continue
        if recorded_value and (ipt != c["point"] or comp != c.get("comp")):
            continue
        ck = tuple(comp) if comp else ()
        if ck not in sel:
            print(f"route={r} component {comp} is not selected by the index (shape {sshape})")
            ok = False
            n += 1
            continue
        orig = tuple(sel[ck])
        if vs_full:
            fv = full.get((ipt, orig))
            good = fv is not None and val is not None and close(val, fv, 2 * TOL)
            n += 1
            print(f"route={r} point={ipt} comp={comp}: expr{tag}(x)={val!r}, component {list(orig)} of expr(x)={fv!r} "
                  f"{'ok' if good else 'DIFFER'}")
            ok = ok and good
            continue
        if dvar is not None:
            pv = fd_derivative(prog, texts[orig], ipt, dvar)
            scale = abs(X.python_eval(texts[orig], env_of(prog, ipt), uf) or 1.0)
            good = pv is not None and val is not None and abs(val - pv) <= DTOL_REL * abs(pv) + DTOL_ABS * max(1.0, scale)
        else:
            pv = X.python_eval(texts[orig], env_of(prog, ipt), uf)
            good = pv is not None and val is not None and close(val, pv, TOL)
        if pv is None and not recorded_value:
            continue
        n += 1
        print(f"route={r} point={ipt} comp={comp} (component {list(orig)} of the array): py-pde={val!r} formula={pv!r} "
              f"{'ok' if good else 'DEVIATES'}")
        ok = ok and good
    if n == 0:
        print(f"no observation of route {route} at the recorded point was produced: the case cannot be re-judged")
        return False
    return ok


def res_errors(errs, route):
    return {r: m for r, m in errs.items() if r.split(":")[0] == route.split(":")[0]}
