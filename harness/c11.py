"""C11 - compiling an expression preserves its meaning (translation validation over programs).

Programs (expression texts with signature, constants, user functions, aliases) are produced by
a type-directed random generator, printed with minimal parentheses and re-read with Python's
`ast` module.  Every program is evaluated three ways at rational points and arrays:
  (1) the Lean model `PdeVerif.Ex.exprFunction` / `diff` on the re-read AST (exact `Rat` for the
      rational fragment, `Float` with the libm table otherwise)       -> correspondence,
  (2) Python's own `eval` of the text with `math` functions            -> monitor reference,
  (3) the py-pde pipeline: ScalarExpression / TensorExpression numpy function, numba-compiled
      function, single_arg variants, from_expression of the three field classes,
      differentiate and derivatives.
(1) vs (2) separates harness/model mistakes from pipeline defects."""
import math
import os

from harness.common import exprs as X
from harness.common.num import q, fbits, unfbits, unq

PID = "C11"
LEVEL = "translation_validation"
REQUIRED_THEOREMS = [
    "eval_compositional", "eval_subst", "alias_replacement_sound", "prepare_sound",
    "signature_order_irrelevant_for_named_env", "consts_as_partial_application", "exprFunction_spec",
    "diff_sound", "heaviside_semantics", "tensor_eval_componentwise", "eval_pointwise", "gradient_sound",
]
RULE = ("programs = expression texts drawn by a type-directed (interval-typed) random generator over the whole "
        "grammar (numbers incl. decimal/scientific, variables, constants, indexed symbols, + - * / **, unary minus, "
        "elementary functions, hypot/atan2/general power, user functions, heaviside/Heaviside, top-level comparisons, "
        "coordinate aliases, signature synonyms, arrays of rank 1 and 2), depth <= 6, printed with minimal parentheses "
        "and re-read by Python's ast module; a program is distinct by (text, signature, constants, user functions, "
        "points) and non-trivial if its reference value is not the same at all sample points and at least one point "
        "is well-conditioned (first-order error amplification <= 1e6, no step-function jump within reach)")
ASSUMPTIONS = [
    "sympy (parser, simplify, printers, lambdify) and numba are external: validated by this differential run, not verified",
    "Python's ast module defines how text maps to an AST (sympy's parse_expr is built on the same tokenizer/grammar)",
    "points where the formula is ill-conditioned (error amplification > 1e6, or a heaviside/comparison/floor argument "
    "that cannot be told from its jump under a 1e-12 relative perturbation) are counted and skipped",
    "Max/Min/sign/erf are outside the compared grammar: py-pde's numpy printer emits `max(a, b)` resolved to numpy.max "
    "(an error, not a wrong value), sign becomes a Piecewise that fails on arrays, erf cannot be compiled by numba",
    "numba_backend._make_expression_array (deprecated get_compiled_array) prints components with str(): compile-time "
    "refusals of names that differ between sympy and numpy are counted, not judged; returned values are judged",
]
TRUSTED_EXTRA = [
    "libm functions of Lean's Float equal CPython's math functions to 1e-12 relative",
    "harness/common/exprs.py: generator, printer, ast-based reader, conditioning analysis",
]
TOL = 1e-9

GENERAL_VARS = ["x", "y", "z", "u", "t", "E", "S", "beta", "x_2"]
POSITIVE_VARS = ["p", "r", "s", "rho", "N"]
SYNONYMS = {"x": ["x1", "xx"], "y": ["why"], "r": ["rad"], "p": ["pp", "P"], "u": ["uu"], "z": ["zeta_1"]}
CONST_NAMES = ["a", "b", "c0", "k_1", "phi0", "radius2", "D", "xr"]
UFUNC_NAMES = ["f", "g", "h2", "rphi", "myfun"]
RESERVED = {"E", "S", "N", "beta"}     # names sympy knows: usable as symbols only when declared in the signature


# ==========================================================================================
# program generation
def dy(rng, lo, hi, den=8):
    """dyadic value in [lo, hi]"""
    a, b = math.ceil(lo * den), math.floor(hi * den)
    return rng.randint(a, b) / den


def sample_value(rng, lo, hi):
    r = rng.random()
    if r < 0.7:
        v = dy(rng, lo, hi, rng.choice([2, 4, 8, 8, 16]))
    elif r < 0.9:
        v = round(rng.uniform(lo, hi), rng.choice([1, 2, 3]))
    else:
        v = rng.uniform(lo, hi)
    return min(max(v, lo), hi)


def canon_pow(e):
    """the reader sees `a**2` / `a**-2` as integer powers whatever the generator meant"""
    if isinstance(e, list):
        return [canon_pow(x) for x in e]
    e = dict(e)
    for c in ("a", "b", "h"):
        if c in e:
            e[c] = canon_pow(e[c])
    if e["k"] == "call2" and e["f"] == "pow":
        b = e["b"]
        if b["k"] == "num" and "/" not in b["v"] and "." not in b.get("t", b["v"]) and "e" not in b.get("t", ""):
            return {"k": "powi", "a": e["a"], "n": int(b["v"])}
        if b["k"] == "neg" and b["a"]["k"] == "num" and "/" not in b["a"]["v"] and "." not in b["a"].get("t", "") and "e" not in b["a"].get("t", ""):
            return {"k": "powi", "a": e["a"], "n": -int(b["a"]["v"])}
    return e


def strip_t(e):
    if isinstance(e, list):
        return [strip_t(x) for x in e]
    return X.strip(e)


def rename_vars(e, m):
    e = dict(e)
    if e["k"] in ("var", "idx") and e["n"] in m:
        e["n"] = m[e["n"]]
    for c in ("a", "b", "h"):
        if c in e:
            e[c] = rename_vars(e[c], m)
    return e


def finish_program(rng, prog, exprs_gen, declared):
    """print, re-read, self-check; exprs_gen = AST or nested list of ASTs (with alias names)"""
    sp = rng if rng.random() < 0.5 else None

    def texts(t):
        return [texts(x) for x in t] if isinstance(t, list) else X.to_text(t, sp)

    def reread(t):
        return [reread(x) for x in t] if isinstance(t, list) else X.read_text(t, declared)

    txt = texts(exprs_gen)
    re = reread(txt)
    prog["texts"] = txt
    prog["ast"] = strip_t(re)
    prog["roundtrip_ok"] = strip_t(canon_pow(exprs_gen)) == prog["ast"]
    return prog


def _sympy_knows(name):
    """parse_number has no guard: a symbol that sympy defines (`rad`, `beta`, `S`...) is not a symbol there"""
    import sympy

    return hasattr(sympy, name)


def gen_scalar_program(rng, i, jit):
    nv = rng.choice([1, 2, 2, 3, 3])
    names = rng.sample(GENERAL_VARS, rng.randint(0, nv)) if nv else []
    names += rng.sample(POSITIVE_VARS, nv - len(names))
    rng.shuffle(names)
    variables = {}
    for n in names:
        variables[n] = (0.25, 4.0) if n in POSITIVE_VARS else rng.choice([(-3.0, 3.0), (-3.0, 3.0), (-1.0, 2.0), (0.5, 2.5)])
    consts = {}
    for n in rng.sample(CONST_NAMES, rng.choice([0, 0, 1, 2, 3])):
        consts[n] = rng.choice([dy(rng, -4, 4, 4), round(rng.uniform(-3, 3), 2), dy(rng, 0.25, 4, 8)])
        if consts[n] == 0:
            consts[n] = 1.5
    # a quarter of the programs stay inside the fragment of `diff_sound`, so that differentiate /
    # derivatives are exercised on every differentiable construct
    diffable = rng.random() < 0.25
    if diffable:
        voc = X.Vocabulary(variables, consts, allow_step=False, fun1=sorted(X.DIFF_FUN1), fun2=["pow"])
    else:
        voc = X.Vocabulary(variables, consts)
    # user functions
    g0 = X.Gen(rng, voc)
    for n in rng.sample(UFUNC_NAMES, rng.choice([0, 0, 0, 1, 1, 2]) if not diffable else 0):
        ps = ["v"] if rng.random() < 0.6 else ["v", "w"]
        voc.ufuncs[n] = (ps, g0.user_body(ps, rng.choice([2, 3])))
    # indexed variable / indexed constant
    indexed_var = None
    if rng.random() < 0.15 and not diffable:
        indexed_var = rng.choice(["arr", "vec", "q"])
        voc.indexed[indexed_var] = [rng.choice([(-2.0, 2.0), (0.5, 3.0)]) for _ in range(rng.choice([2, 3]))]
    if rng.random() < 0.12:
        voc.indexed_consts["w"] = [dy(rng, -3, 3, 4) or 1.0 for _ in range(rng.choice([2, 3]))]
    gen = X.Gen(rng, voc)
    top_cmp = rng.random() < 0.06 and not diffable
    e = gen.comparison() if top_cmp else gen.expression(6)
    family = None
    if not top_cmp and not diffable and rng.random() < 0.05 and variables:
        # regression family: absolute values of exponentials, which sympy's simplification turns into
        # exp(re(.)) / 2**re(.) because symbols are not declared real (repaired: fix 23b1a1d)
        family = "abs-of-exponential"
        a = gen.gen(2, "small")
        v = X.var(rng.choice(sorted(variables)))
        form = rng.choice(["abs-exp", "abs-2pow", "abs-x-exp", "exp-abs-exp"])
        if form == "abs-exp":
            e = X.un("call1", X.un("call1", a, f="exp"), f="abs")
        elif form == "abs-2pow":
            e = X.un("call1", X.bi("call2", X.num(rng.choice(["2", "3", "0.5"])), a, f="pow"), f="abs")
        elif form == "abs-x-exp":
            e = X.un("call1", X.bi("mul", v, X.un("call1", a, f="exp")), f="abs")
        else:
            e = X.bi("mul", X.un("call1", v, f="exp"), X.un("call1", X.un("call1", X.un("neg", a), f="exp"), f="abs"))
        if rng.random() < 0.5:
            e = X.bi(rng.choice(["add", "mul"]), gen.gen(2, "any"), e)
    # signature: order, synonyms, repl
    sig_names = list(names) + ([indexed_var] if indexed_var else [])
    rng.shuffle(sig_names)
    used_syms = X.symbols(e)
    sig_none = (rng.random() < 0.12 and not indexed_var and not voc.indexed_consts
                and not (set(names) & RESERVED))
    sig, ren, repl = [], {}, {}
    for n in sig_names:
        entry = [n]
        if n in SYNONYMS and rng.random() < 0.5 and not sig_none:
            entry += rng.sample(SYNONYMS[n], rng.randint(1, len(SYNONYMS[n])))
            if rng.random() < 0.6:
                ren[n] = rng.choice(entry[1:])
        elif n == "r" and rng.random() < 0.5 and not sig_none:
            repl = {"radius": "r", "phi": "φ"}
            if rng.random() < 0.7:
                ren[n] = "radius"
        sig.append(entry)
    e_txt = rename_vars(e, ren)
    if sig_none:
        free = sorted(n for n in X.symbols(e_txt) if n not in consts and n not in voc.indexed_consts)
        sig = [[n] for n in free]
        sig_names = free
    # points
    n_sc, n_arr = 3, 4
    array_consts = {}
    if consts and rng.random() < 0.12:
        # one constant is an array over the points: only the array call is made
        cn = rng.choice(sorted(consts))
        n_sc, n_arr = 0, 5
        array_consts[cn] = [dy(rng, 0.5, 3, 8) for _ in range(n_arr)]
        del consts[cn]
    points = []
    for _ in range(n_sc + n_arr):
        pt = []
        for n in sig_names:
            if n == indexed_var:
                pt.append([sample_value(rng, lo, hi) for lo, hi in voc.indexed[n]])
            else:
                pt.append(sample_value(rng, *variables[n]))
        points.append(pt)
    # edge: exact zero for a general variable
    if points and sig_names and rng.random() < 0.1:
        j = rng.randrange(len(sig_names))
        if sig_names[j] in variables and variables[sig_names[j]][0] < 0:
            points[0][j] = 0.0
    allc = dict(consts)
    for n, l in voc.indexed_consts.items():
        allc[n] = list(l)
    # order of the constants dict matters for the generated function: shuffle it
    items = list(allc.items())
    rng.shuffle(items)
    prog = {"id": i, "kind": "scalar", "rank": 0, "sig": sig, "sig_none": sig_none, "consts": dict(items),
            "array_consts": array_consts, "repl": repl,
            "ufuncs": {n: [ps, X.strip(b)] for n, (ps, b) in voc.ufuncs.items()},
            "points": points, "n_scalar": n_sc, "indexed": bool(indexed_var or voc.indexed_consts), "jit": jit,
            "top_cmp": top_cmp, "family": family}
    declared = set(sig_names) | set(allc) | {s for l in sig for s in l}
    finish_program(rng, prog, e_txt, declared)
    fr = not top_cmp and not indexed_var and X.in_diff_fragment(prog["ast"]) and not voc.ufuncs
    prog["diff"] = [l[0] for l in sig if l[0] in variables] if fr else []
    # parse_number is plain sympy: it knows neither user functions nor py-pde's special functions
    # (heaviside substitution, hypot) nor indexed symbols
    kinds_ = X.kinds(prog["ast"])
    prog["parse_number"] = (not voc.ufuncs and not prog["indexed"] and not array_consts and not sig_none and
                            not (kinds_ & {"heav1", "heav2", "idx", "call2:hypot"}) and not any(k.startswith("cmp") for k in kinds_)
                            and not (set(names) & RESERVED) and rng.random() < 0.5
                            and not any(_sympy_knows(nm) for nm in X.symbols(prog["ast"])))
    return prog


GRIDS = [
    ("CartesianGrid", 1), ("CartesianGrid", 2), ("UnitGrid", 1), ("UnitGrid", 2), ("PolarSymGrid", 1),
    ("SphericalSymGrid", 1), ("CylindricalSymGrid", 2), ("CartesianGrid", 3),
]


def gen_grid(rng):
    cls, nax = rng.choice(GRIDS)
    if cls == "CartesianGrid":
        bounds = []
        for _ in range(nax):
            lo = dy(rng, -2, 2, 2)
            bounds.append([lo, lo + rng.choice([1.0, 2.0, 0.5, 4.0])])
        shape = [rng.choice([1, 2, 3, 4]) for _ in range(nax)]
        axes = ["x", "y", "z"][:nax]
        return {"cls": cls, "bounds": bounds, "shape": shape, "axes": axes, "dim": nax}
    if cls == "UnitGrid":
        shape = [rng.choice([1, 2, 3, 4]) for _ in range(nax)]
        return {"cls": cls, "bounds": [[0.0, float(s)] for s in shape], "shape": shape, "axes": ["x", "y", "z"][:nax], "dim": nax}
    if cls in ("PolarSymGrid", "SphericalSymGrid"):
        r0 = rng.choice([0.0, 0.5, 1.0])
        r1 = r0 + rng.choice([1.0, 2.0, 4.0])
        return {"cls": cls, "bounds": [[r0, r1]], "shape": [rng.choice([2, 3, 4])], "axes": ["r"],
                "dim": 2 if cls == "PolarSymGrid" else 3}
    r1 = rng.choice([1.0, 2.0])
    z0 = dy(rng, -1, 1, 2)
    return {"cls": cls, "bounds": [[0.0, r1], [z0, z0 + rng.choice([1.0, 2.0])]], "shape": [rng.choice([2, 3]), rng.choice([2, 3])],
            "axes": ["r", "z"], "dim": 3}


def grid_points(g):
    """cell centres by the defining formula (row-major over the axes)"""
    axes = [[lo + (i + 0.5) * (hi - lo) / n for i in range(n)] for (lo, hi), n in zip(g["bounds"], g["shape"])]
    pts = [[]]
    for ax in axes:
        pts = [p + [v] for p in pts for v in ax]
    return pts


def cartesian_of(g, pt):
    if g["cls"] in ("CartesianGrid", "UnitGrid"):
        return list(pt)
    if g["cls"] == "PolarSymGrid":
        return [pt[0], 0.0]
    if g["cls"] == "SphericalSymGrid":
        return [0.0, 0.0, pt[0]]
    return [pt[0], 0.0, pt[1]]


def gen_field_program(rng, i):
    g = gen_grid(rng)
    pts = grid_points(g)
    rank = rng.choice([0, 0, 0, 1, 1, 2]) if g["dim"] <= 2 else rng.choice([0, 0, 1])
    variables = {ax: (min(p[j] for p in pts), max(p[j] for p in pts)) for j, ax in enumerate(g["axes"])}
    consts = {}
    for n in rng.sample(CONST_NAMES, rng.choice([0, 0, 1, 2])):
        consts[n] = dy(rng, 0.25, 3, 8) * rng.choice([1, -1])
    array_consts = {}
    if rng.random() < 0.25:
        cn = rng.choice(["cfield", "phi_data"])
        array_consts[cn] = [dy(rng, 0.5, 3, 8) for _ in pts]
    voc = X.Vocabulary(variables, consts)
    for cn, vals in array_consts.items():
        voc.variables[cn] = (min(vals), max(vals))   # a range for the generator; bound per point for the model
    use_cart = rng.random() < 0.25
    if use_cart:
        carts = [cartesian_of(g, p) for p in pts]
        voc.indexed["cartesian"] = [(min(c[j] for c in carts), max(c[j] for c in carts)) for j in range(g["dim"])]
    g0 = X.Gen(rng, voc)
    for n in rng.sample(UFUNC_NAMES, rng.choice([0, 0, 0, 1])):
        ps = ["v"] if rng.random() < 0.7 else ["v", "w"]
        voc.ufuncs[n] = (ps, g0.user_body(ps, 2))
    gen = X.Gen(rng, voc)
    dmax = {0: 6, 1: 4, 2: 3}[rank]
    ren = {}
    if "r" in g["axes"] and g["cls"] != "CylindricalSymGrid" and rng.random() < 0.6:
        ren["r"] = "radius"

    def one():
        if rank == 0 and rng.random() < 0.08:
            e = gen.comparison()
        else:
            e = gen.expression(dmax)
        return rename_vars(e, ren) if rng.random() < 0.8 else e

    def has_both(e):
        s = X.symbols(e)
        return "r" in s and "radius" in s

    def one_ok():
        for _ in range(10):
            e = one()
            if not has_both(e):
                return e
        return X.var(g["axes"][0])

    d = g["dim"]
    ex = one_ok() if rank == 0 else [one_ok() for _ in range(d)] if rank == 1 else [[one_ok() for _ in range(d)] for _ in range(d)]
    repl = {"PolarSymGrid": {"radius": "r", "phi": "φ"}, "SphericalSymGrid": {"radius": "r", "theta": "θ", "phi": "φ"},
            "CylindricalSymGrid": {"phi": "φ"}}.get(g["cls"], {})
    allc = dict(consts)
    pcon = dict(array_consts)
    if use_cart:
        pcon["cartesian"] = [cartesian_of(g, p) for p in pts]
    prog = {"id": i, "kind": "field", "rank": rank, "grid": g, "sig": [[a] for a in g["axes"]], "sig_none": False,
            "consts": allc, "array_consts": pcon, "repl": repl,
            "ufuncs": {n: [ps, X.strip(b)] for n, (ps, b) in voc.ufuncs.items()},
            "points": pts, "n_scalar": 0, "indexed": True, "jit": False, "diff": [], "top_cmp": False}
    declared = set(g["axes"]) | set(allc) | set(pcon) | set(repl)
    return finish_program(rng, prog, ex, declared)


def gen_tensor_program(rng, i, jit):
    nv = rng.choice([1, 2, 2, 3])
    names = rng.sample(["x", "y", "z", "u"], nv - (1 if rng.random() < 0.4 else 0))
    names += rng.sample(["p", "s"], nv - len(names))
    variables = {n: ((0.25, 4.0) if n in ("p", "s") else (-2.0, 2.0)) for n in names}
    consts = {}
    plain = rng.random() < 0.4   # candidates for `_make_expression_array` (no consts, no step functions)
    if not plain:
        for n in rng.sample(CONST_NAMES, rng.choice([0, 1, 2])):
            consts[n] = dy(rng, 0.25, 3, 8)
    # `_make_expression_array` prints components with str(): only functions whose sympy name is
    # also the numpy name can be used there
    voc = X.Vocabulary(variables, consts, allow_step=not plain, allow_named=not plain,
                       fun1=["sin", "cos", "exp", "tanh", "sqrt", "log", "sinh", "cosh", "tan"] if plain else None,
                       fun2=["hypot", "pow"] if plain else None)
    gen = X.Gen(rng, voc)
    rank = rng.choice([1, 1, 2])
    shape = [rng.choice([1, 2, 3])] if rank == 1 else [rng.choice([1, 2]), rng.choice([2, 3])]
    ex = [gen.expression(4) for _ in range(shape[0])] if rank == 1 else [[gen.expression(3) for _ in range(shape[1])] for _ in range(shape[0])]
    n_arr = 3
    family = None
    if rng.random() < 0.3:
        # regression family: components that do not depend on the arguments, evaluated on arrays whose
        # length equals (or differs from) the row length (repaired: fix 8d22330)
        family = "constant-components"
        cgen = X.Gen(rng, X.Vocabulary({}, consts, allow_named=not plain, allow_step=False, fun1=["sin", "cos", "exp", "tanh"], fun2=[]))

        def cexpr():
            return cgen.literal() if rng.random() < 0.6 else cgen.expression(3)
        if rank == 1:
            which = rng.choice(["one", "all"])
            for j in range(shape[0]):
                if which == "all" or j == 0:
                    ex[j] = cexpr()
            n_arr = rng.choice([shape[0], shape[0], 3, 1])
        else:
            which = rng.choice(["row", "row", "all", "column", "scattered"])
            r0, c0 = rng.randrange(shape[0]), rng.randrange(shape[1])
            for a in range(shape[0]):
                for b in range(shape[1]):
                    if which == "all" or (which == "row" and a == r0) or (which == "column" and b == c0) or \
                            (which == "scattered" and rng.random() < 0.5):
                        ex[a][b] = cexpr()
            n_arr = rng.choice([shape[1], shape[1], shape[0], 3, 1, 4])
    points = [[sample_value(rng, *variables[n]) for n in names] for _ in range(3 + n_arr)]
    flat = ex if rank == 1 else [e for row in ex for e in row]
    prog = {"id": i, "kind": "tensor", "rank": rank, "sig": [[n] for n in names], "sig_none": False, "consts": consts,
            "array_consts": {}, "repl": {}, "ufuncs": {}, "points": points, "n_scalar": 3, "indexed": False, "jit": jit,
            "plain": plain, "top_cmp": False, "family": family}
    finish_program(rng, prog, ex, set(names) | set(consts))
    prog["diff"] = list(names) if all(X.in_diff_fragment(strip_t(canon_pow(e))) for e in flat) else []
    return prog


def gen_step_program(rng, i, jit):
    """heaviside / comparison arguments that are exactly zero in every route"""
    x0 = dy(rng, -2, 2, 4)
    y0 = dy(rng, -2, 2, 4)
    hval = rng.choice(["0.25", "0.75", "0", "1", "0.5", "0.3"])
    hv = rng.choice(["heaviside", "Heaviside"])
    forms = ["var", "var-lit", "lit-var", "var-var", "prod0", "cmp-tie", "cmp-lit", "scaled"]
    form = rng.choice(forms)
    x, y = X.var("x"), X.var("y")
    pts = [[x0, y0]]
    lit = lambda v: X.num(repr(abs(v))) if v >= 0 else X.un("neg", X.num(repr(abs(v))))
    if form == "var":
        arg = x
        pts = [[0.0, y0], [x0 or 1.0, y0], [-(abs(x0) or 1.0), y0]]
    elif form == "var-lit":
        arg = X.bi("sub", x, X.num(repr(abs(x0)))) if x0 >= 0 else X.bi("add", x, X.num(repr(abs(x0))))
        pts = [[x0, y0], [x0 + 0.5, y0], [x0 - 0.25, y0]]
    elif form == "lit-var":
        arg = X.bi("sub", lit(x0), x)
        pts = [[x0, y0], [x0 + 0.5, y0], [x0 - 0.25, y0]]
    elif form == "var-var":
        arg = X.bi("sub", x, y)
        pts = [[x0, x0], [x0, x0 - 1.0], [x0, x0 + 0.5]]
    elif form == "prod0":
        arg = X.bi("mul", x, y)
        pts = [[0.0, y0 or 1.0], [x0 or 1.0, 0.0], [1.0, 2.0], [-1.0, 0.5]]
    elif form == "scaled":
        k = rng.choice([2, 4, 0.5])
        arg = X.bi("sub", X.bi("mul", X.num(repr(k) if k < 1 else str(k)), x), X.num(repr(abs(k * x0)))) if x0 >= 0 else \
            X.bi("add", X.bi("mul", X.num(repr(k) if k < 1 else str(k)), x), X.num(repr(abs(k * x0))))
        pts = [[x0, y0], [x0 + 1.0, y0], [x0 - 1.0, y0]]
    if form in ("cmp-tie", "cmp-lit"):
        op = rng.choice(sorted(X.CMP))
        if form == "cmp-tie":
            e = {"k": "cmp", "op": op, "a": x, "b": y}
            pts = [[x0, x0], [x0, x0 + 0.5], [x0 + 0.25, x0]]
        else:
            e = {"k": "cmp", "op": op, "a": x, "b": lit(x0)}
            pts = [[x0, y0], [x0 + 0.5, y0], [x0 - 0.5, y0]]
        top_cmp = True
    else:
        top_cmp = False
        if rng.random() < 0.4:
            e = {"k": "heav1", "a": arg, "hv": hv}
        else:
            e = {"k": "heav2", "a": arg, "h": X.num(hval), "hv": hv}
        if rng.random() < 0.5:
            e = X.bi("add", X.bi("mul", rng.choice([y, X.num("3")]), e), X.num("1"))
    # the array call covers all points at once as well
    prog = {"id": i, "kind": "step0", "rank": 0, "sig": [["x"], ["y"]], "sig_none": False, "consts": {}, "array_consts": {},
            "repl": {}, "ufuncs": {}, "points": pts + pts, "n_scalar": len(pts), "indexed": False, "jit": jit, "diff": [],
            "top_cmp": top_cmp, "exact": True, "form": form}
    return finish_program(rng, prog, e, {"x", "y"})


def gen_malformed_program(rng, i):
    """calls that must be rejected (RuntimeError from _check_signature / TypeError from the call)"""
    what = rng.choice(["undefined-symbol", "synonym-and-definite", "wrong-arg-count"])
    voc = X.Vocabulary({"x": (-2.0, 2.0), "y": (-2.0, 2.0)})
    gen = X.Gen(rng, voc)
    for _ in range(50):
        e = gen.expression(4)
        if {"x", "y"} <= X.symbols(e):
            break
    else:
        e = X.bi("add", X.var("x"), X.var("y"))
    sig = [["x", "x1"], ["y"]]
    pts = [[1.5, 0.5]]
    # the offending symbols sit under different transcendental functions so that sympy's
    # simplification cannot cancel them
    if what == "undefined-symbol":
        e = X.bi("add", e, X.un("call1", X.var(rng.choice(["w", "radius", "x1x", "xy"])), f=rng.choice(["exp", "sin"])))
    elif what == "synonym-and-definite":
        # one term that contains both names inseparably (the generator does not know `x1`, so nothing
        # it produced can cancel this term)
        e = X.bi("add", e, X.un("call1", X.bi("mul", X.var("x"), X.var("x1")), f="atan"))
    else:
        pts = [[1.5] if rng.random() < 0.5 else [1.5, 0.5, 2.0]]
    prog = {"id": i, "kind": "malformed", "what": what, "rank": 0, "sig": sig, "sig_none": False, "consts": {},
            "array_consts": {}, "repl": {}, "ufuncs": {}, "points": pts, "n_scalar": 1, "indexed": False, "jit": False,
            "diff": [], "top_cmp": False}
    return finish_program(rng, prog, e, {"x", "y", "x1"})


# ==========================================================================================
# the real code (runs in worker processes)
def _ufunc_objects(prog, ns_kind):
    """python callables for the user functions (numpy flavour so they work on arrays and in numba)"""
    import numpy as np

    ns = {"sin": np.sin, "cos": np.cos, "tan": np.tan, "tanh": np.tanh, "sinh": np.sinh, "cosh": np.cosh,
          "exp": np.exp, "log": np.log, "sqrt": np.sqrt, "atan": np.arctan, "asin": np.arcsin, "acos": np.arccos,
          "asinh": np.arcsinh, "atanh": np.arctanh, "abs": np.abs}
    out = {}
    for name, (ps, body) in prog["ufuncs"].items():
        # arguments are converted to float first: an integer literal in the text (`g(5)`) reaches the
        # user's function as an int, and under numba integer arithmetic would then apply inside it
        # (`27**-1 == 0`), which is a property of the user's code, not of the expression pipeline
        src = f"def {name}({', '.join(ps)}):\n" + "".join(f"    {q_} = {q_} * 1.0\n" for q_ in ps) + \
            f"    return {X.to_text(body)}\n"
        loc = {}
        exec(src, dict(ns), loc)
        out[name] = loc[name]
    return out


def _fl(v):
    """canonical float (or None for non-finite / complex)"""
    import numpy as np

    if isinstance(v, (complex, np.complexfloating)):
        if v.imag != 0:
            return None
        v = v.real
    v = float(v)
    return v if math.isfinite(v) else None


class _Timeout(Exception):
    pass


def _alarm(_sig, _frm):
    raise _Timeout()


class _sympy_time_limit:
    """time limit for the sympy phases only (parsing, simplify, diff).  It must never fire inside
    numba: an exception raised in the middle of numba's lazy initialisation leaves the process
    with half-initialised tables (`KeyError: <ufunc 'positive'>`, `coverage has no attribute
    types`) and poisons every later program of the worker."""

    def __enter__(self):
        import signal

        signal.signal(signal.SIGALRM, _alarm)
        signal.alarm(int(os.environ.get("C11_PROG_TIMEOUT", "20")))

    def __exit__(self, *exc):
        import signal

        signal.alarm(0)
        return False


_WARM = []


def _warm_up_numba():
    """force numba's lazy initialisation outside any time limit"""
    if _WARM:
        return
    import numpy as np
    from pde.tools.expressions import ScalarExpression

    f = ScalarExpression("sin(x) + hypot(x, 1) + heaviside(x, 0.5)", ["x"]).get_function("numba")
    f(1.0)
    f(np.array([1.0, 2.0]))
    _WARM.append(True)


def worker(prog):
    """run one program through py-pde; returns {"id", "obs": [(route, point, comp, value)], "errs": [(route, text)]}"""
    import warnings

    warnings.filterwarnings("ignore")
    if prog["jit"]:
        _warm_up_numba()
    obs, errs = [], []
    try:
        _run_program(prog, obs, errs)
    except _Timeout:
        errs.append(("timeout", "program exceeded the time limit"))
        obs[:] = []
    return {"id": prog["id"], "obs": obs, "errs": errs}


def _exc(ex):
    return f"{type(ex).__name__}: {str(ex)[:160]}"


def _run_program(prog, obs, errs):
    import numpy as np
    from pde.tools.expressions import ScalarExpression, TensorExpression

    kind = prog["kind"]
    ufs = _ufunc_objects(prog, "numpy") or None
    npts = len(prog["points"])
    n_sc = prog["n_scalar"]
    consts = {k: (np.array(v, dtype=float) if isinstance(v, list) else v) for k, v in prog["consts"].items()}
    for k, v in prog["array_consts"].items():
        consts[k] = np.array(v, dtype=float)
    consts = consts or None

    def args_of(pt):
        return [np.array(a, dtype=float) if isinstance(a, list) else a for a in pt]

    def array_args():
        cols = list(zip(*prog["points"][n_sc:])) if prog["points"] and prog["points"][0] else []
        out = []
        for col in cols:
            if isinstance(col[0], list):
                out.append(np.array(col, dtype=float).T.copy())    # (ncomp, npts)
            else:
                out.append(np.array(col, dtype=float))
        return out

    def record(route, pt, val, shape=()):
        """val: scalar or array-like of `shape`"""
        if shape == ():
            obs.append((route, pt, None, _fl(val)))
        else:
            arr = np.asarray(val)
            for comp in np.ndindex(*shape):
                obs.append((route, pt, list(comp), _fl(arr[comp])))

    def record_array(route, val, shape=()):
        n = npts - n_sc
        arr = np.asarray(val)
        if arr.shape == shape:          # constant expression: scalar result for array arguments
            arr = np.broadcast_to(arr.reshape(shape + (1,)), shape + (n,))
        if arr.shape != shape + (n,):
            errs.append((route, f"ShapeError: result shape {arr.shape}, expected {shape + (n,)}"))
            return
        for j in range(n):
            record(route, n_sc + j, arr[..., j], shape)

    def guarded(route, fn):
        try:
            fn()
        except _Timeout:
            raise
        except Exception as ex:
            errs.append((route, _exc(ex)))

    # ---------------------------------------------------------------------------------------
    if kind in ("scalar", "step0", "malformed"):
        text = prog["texts"]
        sig = None if prog["sig_none"] else [l if len(l) > 1 else l[0] for l in prog["sig"]]
        try:
            with _sympy_time_limit():
                e = ScalarExpression(text, sig, user_funcs=ufs, consts=consts, repl=prog["repl"] or None,
                                     allow_indexed=prog["indexed"])
        except _Timeout:
            raise
        except Exception as ex:
            errs.append(("construct", _exc(ex)))
            return
        obs.append(("vars", None, None, list(e.vars)))
        names = [l[0] for l in prog["sig"]]
        if prog["sig_none"]:
            # without a signature the parameters are the symbols that survive sympy's
            # simplification, in sorted order: pass the arguments by name
            if not set(e.vars) <= set(names):
                errs.append(("construct", f"SignatureError: vars {list(e.vars)} not among {names}"))
                return
            cols = [names.index(v) for v in e.vars]
            prog = dict(prog, points=[[pt[c] for c in cols] for pt in prog["points"]],
                        sig=[[v] for v in e.vars], diff=[v for v in prog["diff"] if v in e.vars])

        def r_numpy():
            for i in range(n_sc):
                record("numpy", i, e(*args_of(prog["points"][i])))
            if npts > n_sc:
                record_array("numpy-array", e(*array_args()))
        guarded("numpy", r_numpy)
        if kind == "malformed":
            return
        if prog.get("parse_number") and n_sc:
            # `parse_number(text, variables)`: the same text as a number, all symbols substituted
            def r_parse_number():
                from pde.tools.expressions import parse_number

                names = [l for l in prog["sig"]]
                for i in range(min(n_sc, 2)):
                    variables = dict(prog["consts"])
                    for entry, a in zip(names, prog["points"][i]):
                        for nm in entry:
                            variables[nm] = a
                    for alias, nm in prog["repl"].items():
                        if nm in variables:
                            variables[alias] = variables[nm]
                    with _sympy_time_limit():
                        v = parse_number(text, variables)
                    record("parse_number", i, v)
            guarded("parse_number", r_parse_number)
        all_scalar = all(not isinstance(a, list) for pt in prog["points"] for a in pt) and prog["sig"]

        def r_single():
            f = e.get_function("numpy", single_arg=True)
            for i in range(n_sc):
                record("numpy-single", i, f(np.array(prog["points"][i], dtype=float)))
            if npts > n_sc:
                record_array("numpy-single-array", f(np.array(array_args())))
        if all_scalar:
            guarded("numpy-single", r_single)

        if prog["jit"]:
            def r_numba():
                f = e.get_function("numba")
                for i in range(n_sc):
                    record("numba", i, f(*args_of(prog["points"][i])))
                if npts > n_sc:
                    record_array("numba-array", f(*array_args()))
            guarded("numba", r_numba)

            def r_numba_single():
                f = e.get_function("numba", single_arg=True)
                for i in range(n_sc):
                    record("numba-single", i, f(np.array(prog["points"][i], dtype=float)))
            if all_scalar and prog["id"] % 3 == 0:
                guarded("numba-single", r_numba_single)

        for v in prog["diff"]:
            def r_diff(v=v):
                with _sympy_time_limit():
                    de = e.differentiate(v)
                for i in range(n_sc):
                    record(f"differentiate:{v}", i, de(*args_of(prog["points"][i])))
                if npts > n_sc:
                    record_array(f"differentiate:{v}-array", de(*array_args()))
                if prog["jit"] and prog["id"] % 4 == 0:
                    f = de.get_function("numba")
                    for i in range(n_sc):
                        record(f"differentiate-numba:{v}", i, f(*args_of(prog["points"][i])))
            guarded(f"differentiate:{v}", r_diff)
        if prog["diff"]:
            def r_derivs():
                with _sympy_time_limit():
                    ds = e.derivatives
                nvars = len(e.vars)
                for i in range(n_sc):
                    record("derivatives", i, ds(*args_of(prog["points"][i])), (nvars,))
                if npts > n_sc:
                    record_array("derivatives-array", ds(*array_args()), (nvars,))
            guarded("derivatives", r_derivs)
        return

    # ---------------------------------------------------------------------------------------
    if kind == "tensor":
        text = _nested_text(prog["texts"])
        sig = [l[0] for l in prog["sig"]]
        try:
            with _sympy_time_limit():
                e = TensorExpression(text, sig, consts=consts)
        except _Timeout:
            raise
        except Exception as ex:
            errs.append(("construct", _exc(ex)))
            return
        shape = tuple(e.shape)
        obs.append(("shape", None, None, list(shape)))

        def r_numpy():
            for i in range(n_sc):
                record("tensor-numpy", i, e(*prog["points"][i]), shape)
            record_array("tensor-numpy-array", e(*array_args()), shape)
        guarded("tensor-numpy", r_numpy)
        if prog["jit"]:
            def r_numba():
                f = e.get_function("numba")
                for i in range(n_sc):
                    record("tensor-numba", i, np.array(f(*prog["points"][i])), shape)
            guarded("tensor-numba", r_numba)
            if prog.get("plain") and sig:
                from pde.backends.numba import numba_backend

                def r_arr():
                    f = numba_backend._make_expression_array(e, single_arg=False)
                    for i in range(n_sc):
                        record("tensor-numba-array-fn", i, f(*prog["points"][i]), shape)
                    record_array("tensor-numba-array-fn-array", f(*array_args()), shape)
                    f1 = numba_backend._make_expression_array(e, single_arg=True)
                    for i in range(n_sc):
                        record("tensor-numba-array-fn-single", i, f1(np.array(prog["points"][i], dtype=float)), shape)
                guarded("tensor-numba-array-fn", r_arr)
        for v in prog["diff"]:
            def r_diff(v=v):
                with _sympy_time_limit():
                    de = e.differentiate(v)
                for i in range(n_sc):
                    record(f"tensor-differentiate:{v}", i, de(*prog["points"][i]), shape)
            guarded(f"tensor-differentiate:{v}", r_diff)
        if prog["diff"]:
            def r_derivs():
                with _sympy_time_limit():
                    ds = e.derivatives
                for i in range(n_sc):
                    record("tensor-derivatives", i, ds(*prog["points"][i]), (len(sig),) + shape)
            guarded("tensor-derivatives", r_derivs)
        return

    # ---------------------------------------------------------------------------------------
    if kind == "field":
        import pde

        g = prog["grid"]
        if g["cls"] == "CartesianGrid":
            grid = pde.CartesianGrid(g["bounds"], g["shape"])
        elif g["cls"] == "UnitGrid":
            grid = pde.UnitGrid(g["shape"])
        elif g["cls"] == "PolarSymGrid":
            b = g["bounds"][0]
            grid = pde.PolarSymGrid(b[1] if b[0] == 0 else tuple(b), g["shape"][0])
        elif g["cls"] == "SphericalSymGrid":
            b = g["bounds"][0]
            grid = pde.SphericalSymGrid(b[1] if b[0] == 0 else tuple(b), g["shape"][0])
        else:
            grid = pde.CylindricalSymGrid(g["bounds"][0][1], tuple(g["bounds"][1]), g["shape"])
        cc = grid.cell_coords.reshape(-1, grid.num_axes)
        if cc.shape != (npts, grid.num_axes) or not np.allclose(cc, np.array(prog["points"]), rtol=0, atol=1e-13):
            errs.append(("grid", "cell centres differ from the defining formula"))
            return
        fconsts = dict(prog["consts"])
        for k, v in prog["array_consts"].items():
            if k == "cartesian":
                continue                    # provided by py-pde itself
            fconsts[k] = np.array(v, dtype=float).reshape(grid.shape)
        fconsts = fconsts or None
        rank = prog["rank"]
        cls = [pde.ScalarField, pde.VectorField, pde.Tensor2Field][rank]

        def r_field():
            with _sympy_time_limit():       # sympy + plain numpy only
                fld = cls.from_expression(grid, prog["texts"], user_funcs=ufs, consts=fconsts)
            data = np.asarray(fld.data)
            shape = (grid.dim,) * rank
            flat = data.reshape(shape + (npts,))
            for j in range(npts):
                record(f"from_expression-{rank}", j, flat[..., j], shape)
        guarded(f"from_expression-{rank}", r_field)
        return
    raise ValueError(kind)


def _nested_text(t):
    return "[" + ", ".join(_nested_text(x) for x in t) + "]" if isinstance(t, list) else t


# ==========================================================================================
# references
def lean_request(prog, mode):
    enc = q if mode == "Q" else fbits

    def val(v):
        return [enc(x) for x in v] if isinstance(v, list) else enc(v)

    pconsts = [[k, [val(x) for x in v]] for k, v in prog["array_consts"].items()]
    return {
        "mode": mode, "rank": prog["rank"], "expr": prog["ast"], "sig": prog["sig"],
        "consts": [[k, val(v)] for k, v in prog["consts"].items()],
        "pconsts": pconsts,
        "repl": [[k, v] for k, v in prog["repl"].items()],
        "ufuncs": [{"name": n, "params": ps, "body": b} for n, (ps, b) in prog["ufuncs"].items()],
        "points": [[val(a) for a in pt] for pt in prog["points"]],
        "diff": prog["diff"],
        "single": False,
    }


def flat_asts(prog):
    a = prog["ast"]
    if prog["rank"] == 0:
        return [(None, a)]
    if prog["rank"] == 1:
        return [([i], e) for i, e in enumerate(a)]
    return [([i, j], e) for i, row in enumerate(a) for j, e in enumerate(row)]


def flat_texts(prog):
    t = prog["texts"]
    if prog["rank"] == 0:
        return [(None, t)]
    if prog["rank"] == 1:
        return [([i], e) for i, e in enumerate(t)]
    return [([i, j], e) for i, row in enumerate(t) for j, e in enumerate(row)]


def ufuncs_of(prog):
    return {n: (ps, b) for n, (ps, b) in prog["ufuncs"].items()}


def is_rational(prog):
    uf = ufuncs_of(prog)
    return all(X.rational_fragment(e, uf) for _c, e in flat_asts(prog))


def env_of(prog, ipt, written=True):
    """name -> value environment of point `ipt`.  written=True: the names as written in the text
    (aliases and synonyms bound to the value of their definite name) for Python's eval;
    written=False: definite names only (environment of the prepared expression)"""
    env = {}
    pt = prog["points"][ipt]
    for entry, a in zip(prog["sig"], pt):
        for n in (entry if written else entry[:1]):
            env[n] = a
    if written:
        for alias, name in prog["repl"].items():
            if name in env:
                env[alias] = env[name]
    for k, v in prog["consts"].items():
        env[k] = v
    for k, v in prog["array_consts"].items():
        env[k] = v[ipt]
    return env


def lean_value(mode, s):
    """decode one answer value -> float | 'undef' | 'rejected'"""
    if s in ("undef", "rejected"):
        return s
    if mode == "Q":
        return unq(s)
    return unfbits(s)


def pick(nested, comp):
    for c in comp or []:
        nested = nested[c]
    return nested


# ==========================================================================================
def close(a, b, tol=TOL):
    a, b = float(a), float(b)
    return abs(a - b) <= tol * max(abs(a), abs(b)) or abs(a - b) < 1e-300


def fd_derivative(prog, text, ipt, var):
    """central differences on Python's eval of the text (converged estimate or None)"""
    uf = ufuncs_of(prog)
    env = env_of(prog, ipt)
    names = [n for entry in prog["sig"] if entry[0] == var for n in entry]
    names += [a for a, n in prog["repl"].items() if n == var]
    x0 = env[var]
    est = []
    for h in (1e-4 * max(1.0, abs(x0)), 5e-5 * max(1.0, abs(x0))):
        vals = []
        for s in (1, -1, 2, -2):
            e2 = dict(env)
            for n in names:
                e2[n] = x0 + s * h
            v = X.python_eval(text, e2, uf)
            if v is None:
                return None
            vals.append(v)
        est.append((8 * (vals[0] - vals[1]) - (vals[2] - vals[3])) / (12 * h))
    if abs(est[0] - est[1]) > 1e-6 * max(abs(est[0]), abs(est[1]), 1e-6):
        return None
    return est[1]


def run(ctx):
    from harness.common.isolated import run_many
    from harness.common.lean import LeanBatch, BrokenCheck

    rng = ctx.rng
    n_prog = ctx.budget(900, 12000)
    n_jit = ctx.budget(240, 2400)
    progs = []
    kinds = (["scalar"] * 52 + ["field"] * 22 + ["tensor"] * 10 + ["step0"] * 10 + ["malformed"] * 6)
    jit_left = n_jit
    for i in range(n_prog):
        kind = kinds[i % len(kinds)] if i >= len(kinds) else kinds[i]
        jit = jit_left > 0 and kind in ("scalar", "tensor", "step0") and rng.random() < 1.6 * n_jit / n_prog
        if jit:
            jit_left -= 1
        if kind == "scalar":
            p = gen_scalar_program(rng, i, jit)
        elif kind == "field":
            p = gen_field_program(rng, i)
        elif kind == "tensor":
            p = gen_tensor_program(rng, i, jit)
        elif kind == "step0":
            p = gen_step_program(rng, i, jit)
        else:
            p = gen_malformed_program(rng, i)
        progs.append(p)
    bad_rt = [p for p in progs if not p["roundtrip_ok"]]
    if bad_rt:
        raise BrokenCheck(f"printer/reader round trip failed for {len(bad_rt)} programs, e.g. {bad_rt[0]['texts']!r}")

    # --- the real code, in parallel -----------------------------------------------------------
    order = list(range(len(progs)))
    ctx.sub_rng("shuffle").shuffle(order)
    results = run_many("harness.c11", "worker", [progs[i] for i in order], procs=16, timeout=3000)
    res_by_id = {}
    for r in results:
        if isinstance(r, str):
            raise BrokenCheck("worker failed: " + r)
        res_by_id[r["id"]] = r

    # --- the model ----------------------------------------------------------------------------
    batch = LeanBatch(ctx.workdir)
    slots = {}
    for p in progs:
        rat = is_rational(p)
        slots[p["id"]] = (batch.add("c11.eval", lean_request(p, "Q")) if rat else None,
                          batch.add("c11.eval", lean_request(p, "F")))
    answers = batch.run()

    # --- comparison -----------------------------------------------------------------------------
    stats = {"points": 0, "ok": 0, "ill": 0, "jump": 0, "undefined": 0}
    n_nonconst = n_wellcond = 0
    n_compared = 0
    for p in progs:
        res = res_by_id[p["id"]]
        iq, jf = slots[p["id"]]
        aF = answers[jf]
        aQ = answers[iq] if iq is not None else None
        if aF[0] != "ok" or (aQ is not None and aQ[0] != "ok"):
            ctx.disagree("model", {"texts": p["texts"]}, (aQ or aF)[1] if (aQ and aQ[0] != "ok") else aF[1], None,
                         "the model driver rejected the request")
            continue
        judge_program(ctx, p, res, ("Q", aQ[1]) if aQ else ("F", aF[1]), aF[1], stats)
    ctx.extra["programs"] = len(progs)
    ctx.extra["disagreements_checked"] = ctx.impl_traces
    ctx.extra["points"] = dict(stats)
    tot = max(1, stats["points"])
    ctx.extra["fraction_well_conditioned_points"] = round(stats["ok"] / tot, 4)
    nt = ctx.extra.get("_nt", {})
    ctx.extra["fraction_nonconstant_programs"] = round(nt.get("nonconst", 0) / max(1, nt.get("n", 1)), 4)
    ctx.extra["fraction_nonconstant_wellconditioned_programs"] = round(nt.get("good", 0) / max(1, nt.get("n", 1)), 4)
    ctx.extra.pop("_nt", None)
    if ctx.monitor_failures:
        shrink_failures(ctx)


def judge_program(ctx, p, res, ans_main, ansF, stats):
    kind = p["kind"]
    mode, ans = ans_main
    nt = ctx.extra.setdefault("_nt", {"n": 0, "nonconst": 0, "good": 0})
    errs = dict(res["errs"])
    obs = res["obs"]
    case = {k: p[k] for k in ("kind", "texts", "sig", "consts", "repl", "ufuncs", "points", "rank")}
    for k in ("array_consts", "grid", "what", "form", "sig_none", "n_scalar", "indexed", "plain"):
        if p.get(k):
            case[k] = p[k]
    uf = ufuncs_of(p)
    for kk in set().union(*[X.kinds(e) for _c, e in flat_asts(p)]):
        ctx.hist("construct", kk)
    ctx.hist("kind", kind + ("/jit" if p["jit"] else ""))
    if p.get("family"):
        ctx.hist("regression_family", p["family"])
    ctx.hist("number_type", mode)
    ctx.hist("depth", max(X.depth(e) for _c, e in flat_asts(p)))

    # ---- malformed stream: expected outcome is an error class -------------------------------
    if kind == "malformed":
        ctx.monitor_evals += 1
        ctx.impl_traces += 1
        lean_rej = all(v == "rejected" for v in ans["vals"])
        what = p["what"]
        if what == "wrong-arg-count":
            got = errs.get("numpy", "")
            ok = got.startswith("TypeError")
        else:
            got = errs.get("construct", "")
            ok = got.startswith("RuntimeError")
        ctx.hist("malformed", f"{what}:{got.split(':')[0] or 'accepted'}")
        ctx.count(case, nontrivial=True, leg="malformed")
        if not ok:
            ctx.monitor_fail("malformed", case, got or "accepted", "RuntimeError/TypeError", f"malformed call accepted: {what}",
                             key={"kind": "malformed", "what": what})
        if not lean_rej:
            ctx.disagree("malformed", case, ans["vals"], got, "model accepts a call that must be rejected")
        return

    # ---- references per (point, component) ----------------------------------------------------
    asts = flat_asts(p)
    texts = dict((tuple(c) if c else None, t) for c, t in flat_texts(p))
    refs = {}
    vals_seen = []
    for ipt in range(len(p["points"])):
        for comp, ast in asts:
            ck = tuple(comp) if comp else None
            env_w = env_of(p, ipt)
            cond = X.conditioning(ast, env_w, uf)
            lv = lean_value(mode, pick(ans["vals"][ipt], comp))
            pv = X.python_eval(texts[ck], env_w, uf)
            stats["points"] += 1
            if lv == "rejected":
                st = ("rejected", "model rejects the call")
            elif cond[0] == "undefined" or pv is None or lv == "undef" or not math.isfinite(float(lv)):
                st = ("undefined", "")
            elif cond[0] != "ok" and not p.get("exact"):
                st = (cond[0], "")
            else:
                st = ("ok", float(lv), float(pv))
                vals_seen.append(round(float(lv), 9))
                # the two references must agree: otherwise the harness/model is wrong, not py-pde
                if not close(lv, pv):
                    ctx.disagree("references", dict(case, point=ipt, comp=comp), float(lv), float(pv),
                                 "Lean eval of the AST and Python eval of the text differ")
            stats[st[0] if st[0] in stats else "undefined"] += 1
            ctx.hist("point_status", st[0])
            refs[(ipt, ck)] = st
    n_ok = sum(1 for s in refs.values() if s[0] == "ok")
    nonconst = len(set(vals_seen)) > 1
    nt["n"] += 1
    nt["nonconst"] += 1 if nonconst else 0
    nt["good"] += 1 if (nonconst and n_ok > 0) else 0
    ctx.count(case, nontrivial=nonconst and n_ok > 0, leg=kind)
    if any(s[0] == "rejected" for s in refs.values()):
        ctx.disagree("model", case, "rejected", "accepted", "model rejects a call of the valid stream")
        return

    # ---- errors of the real code on valid programs ------------------------------------------------
    for route, msg in res["errs"]:
        ctx.hist("impl_error", f"{route.split(':')[0]}:{msg.split(':')[0]}")
        tolerated = route == "timeout"
        if tolerated:
            ctx.note(f"time limit exceeded (sympy.simplify): {p['texts']!r}")
        if route.startswith("tensor-numba-array-fn") and msg.split(":")[0] in ("TypingError", "NameError"):
            # `_make_expression_array` (only reachable through the deprecated get_compiled_array) prints the
            # components with str(): a name that differs between sympy and numpy (E from exp(1), Abs, asin...)
            # is refused at compile time.  Refusals are counted; values it does return are compared strictly.
            ctx.hist("refused", "tensor-numba-array-fn:" + msg.split(":")[0])
            continue
        # a route may legitimately fail only where every reference is undefined
        if not tolerated and n_ok > 0:
            ctx.monitor_fail(route.split(":")[0], case, msg, "a value", f"{route.split(':')[0]} raises on a valid program",
                             key=finding_key(p, route, msg))

    # ---- values ------------------------------------------------------------------------------------
    dref_cache = {}
    sig_none_vars = None
    for route, ipt, comp, val in obs:
        if route in ("vars", "shape"):
            names = [l[0] for l in p["sig"]]
            if route == "vars" and (list(val) != names if not p["sig_none"] else
                                    (not set(val) <= set(names) or list(val) != sorted(val))):
                ctx.disagree("signature", case, names, val, "expr.vars differs from the definite names")
            if route == "vars" and p["sig_none"]:
                sig_none_vars = list(val)
            continue
        base = route.split(":")[0]
        is_d = base.startswith("differentiate") or base.startswith("derivatives") or base.startswith("tensor-d")
        ctx.impl_traces += 1
        if not is_d:
            st = refs[(ipt, tuple(comp) if comp else None)]
        else:
            st = derivative_status(p, mode, ans, ipt, comp, route, dref_cache, refs, texts, sig_none_vars)
        if st[0] != "ok":
            ctx.hist("skipped", f"{'deriv' if is_d else 'value'}:{st[0]}")
            continue
        _, lv, pv = st
        ctx.monitor_evals += 1
        ctx.hist("route", base)
        c = dict(case, route=route, point=ipt, comp=comp)
        tol = TOL
        if val is None or not close(val, lv, tol):
            ctx.disagree(base, c, lv, val, "py-pde value differs from the model's value")
        if pv is not None:
            # finite differences are a coarse, independent witness (catches a dropped factor or a
            # wrong sign); the sharp comparison of derivatives is the one against the model
            bad = (val is None or abs(val - pv) > 1e-4 * abs(pv) + 1e-7 * fscale(refs, ipt)) if is_d else \
                (val is None or not close(val, pv, tol))
            if bad:
                ctx.monitor_fail(base, c, val, pv, f"{base}: value differs from the written formula",
                                 key=finding_key(p, route, ""))


def fscale(refs, ipt):
    """magnitude of the function values at a point (scale of the finite-difference error)"""
    vs = [abs(st[1]) for (i, _c), st in refs.items() if i == ipt and st[0] == "ok"]
    return max(vs + [1.0])


def finding_key(p, route, msg):
    """structural key of a monitor failure (matched against known_findings.json)"""
    base = route.split(":")[0]
    key = {"kind": p["kind"], "route": base}
    if msg:
        key["error"] = msg.split(":")[0]
    if "name 're' is not defined" in msg or "name 'im' is not defined" in msg:
        key.update({"call_site": "ExpressionBase.__init__ (sympy.simplify)",
                    "symptom": "Abs of an exponential becomes re(): NameError"})
    if p["kind"] == "tensor" and p["rank"] == 2 and base in ("tensor-numpy", "tensor-numpy-array"):
        variables = {l[0] for l in p["sig"]}
        if any(all(not (X.symbols(e) & variables) for e in row) for row in p["ast"]):
            key.update({"call_site": "NumpyArrayPrinter._print_ImmutableDenseNDimArray",
                        "symptom": "rank-2 array with an all-constant row, array arguments"})
    return key


def derivative_status(p, mode, ans, ipt, comp, route, cache, refs, texts, observed_vars=None):
    """reference for a derivative observation: Lean `diff` (exact) and finite differences"""
    base = route.split(":")[0]
    uf = ufuncs_of(p)
    names = observed_vars if observed_vars is not None else [l[0] for l in p["sig"]]
    if "derivatives" in base:
        var, ccomp = names[comp[0]], (tuple(comp[1:]) or None)
    else:
        var, ccomp = route.split(":")[1].replace("-array", ""), (tuple(comp) if comp else None)
    if var not in p["diff"]:
        return ("undefined", "")
    key = (ipt, var, ccomp)
    if key in cache:
        return cache[key]
    k = p["diff"].index(var)
    lv = lean_value(mode, pick(ans["dvals"][k][ipt], ccomp))
    if lv in ("undef", "rejected") or not math.isfinite(float(lv)):
        st = ("undefined", "")
    else:
        c1 = X.conditioning(pick(ans["dexprs"][k], ccomp), env_of(p, ipt, written=False), uf)
        c0 = refs[(ipt, ccomp)]
        if c0[0] != "ok":
            st = (c0[0], "")
        elif c1[0] != "ok":
            st = (c1[0], "")
        else:
            st = ("ok", float(lv), fd_derivative(p, texts[ccomp], ipt, var))
    cache[key] = st
    return st


def shrink_failures(ctx):
    """shrink the expression of the first failure of each (leg, what) with the numpy pipeline as
    the system under test and Python's eval as the oracle"""
    seen = set()
    for mf in ctx.monitor_failures:
        k = (mf["leg"], mf["what"])
        c = mf["case"]
        if k in seen or c.get("kind") not in ("scalar", "step0") or c.get("rank") != 0:
            continue
        seen.add(k)
        try:
            small = shrink_case(c)
        except Exception as ex:     # shrinking is best effort
            mf["case"]["shrink_error"] = repr(ex)
            continue
        if small:
            mf["case"]["shrunk"] = small


def _direct_check(case, text):
    """True if the numpy pipeline deviates from Python's eval for `text` at the case's point"""
    prog = dict(case)
    prog.update({"texts": text, "id": 0, "n_scalar": len(case["points"]), "jit": "numba" in case.get("route", ""),
                 "diff": [], "sig_none": False, "indexed": True, "array_consts": case.get("array_consts", {}),
                 "ast": None})
    obs, errs = [], []
    _run_program(prog, obs, errs)
    uf = ufuncs_of(prog)
    base = case.get("route", "numpy").split(":")[0].replace("-array", "")
    for route, ipt, comp, val in obs:
        if route.split(":")[0] != base or ipt is None:
            continue
        pv = X.python_eval(text, env_of(prog, ipt), uf)
        ast = X.strip(X.read_text(text, set(env_of(prog, ipt))))
        cond = X.conditioning(ast, env_of(prog, ipt), uf)
        if pv is None or cond[0] != "ok":
            continue
        if val is None or not close(val, pv):
            return True
    return False


def shrink_case(case):
    if "differentiate" in case.get("route", "") or "derivatives" in case.get("route", ""):
        return None
    declared = {n for l in case["sig"] for n in l} | set(case["consts"]) | set(case["repl"])
    ast = X.read_text(case["texts"], declared)
    if not _direct_check(case, case["texts"]):
        return None
    small = X.shrink(ast, lambda e: _direct_check(case, X.to_text(e)))
    return {"text": X.to_text(small), "size": X.size(small)}


def search(ctx, broken):
    """a broken tie without a monitor failure: every observation has already been put through
    the monitor (Python's eval of the text) in `run`, so there is nothing further to search"""
    return []


def replay(ctx, rep):
    c = rep["case"]
    prog = dict(c)
    prog.update({"id": 0, "n_scalar": len(c["points"]) if c["kind"] != "field" else 0,
                 "jit": "numba" in c.get("route", ""), "diff": [], "sig_none": False, "indexed": True,
                 "array_consts": c.get("array_consts", {}), "ast": None, "plain": True})
    route = c.get("route", "numpy")
    if "differentiate" in route or "derivatives" in route:
        declared = {n for l in c["sig"] for n in l} | set(c["consts"])
        prog["diff"] = [l[0] for l in c["sig"]]
    obs, errs = [], []
    _run_program(prog, obs, errs)
    print("errors:", errs)
    ok = True
    uf = ufuncs_of(prog)
    texts = dict((tuple(cc) if cc else None, t) for cc, t in flat_texts(prog))
    for r, ipt, comp, val in obs:
        if ipt is None or r != route or ipt != c.get("point", ipt) or comp != c.get("comp", comp):
            continue
        if "differentiate" in r or "derivatives" in r:
            var = r.split(":")[1].replace("-array", "") if ":" in r else c["sig"][comp[0]][0]
            pv = fd_derivative(prog, prog["texts"], ipt, var)
            tol = 1e-5
        else:
            pv = X.python_eval(texts[tuple(comp) if comp else None], env_of(prog, ipt), uf)
            tol = TOL
        good = pv is not None and val is not None and close(val, pv, tol)
        print(f"route={r} point={ipt} comp={comp}: py-pde={val!r} formula={pv!r} {'ok' if good else 'DEVIATES'}")
        ok = ok and good
    if errs and rep.get("observed") and isinstance(rep["observed"], str):
        ok = False
    return ok
