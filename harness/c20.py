"""C20 - in-memory storage returns exactly what was stored, in order.

Correspondence: random operation sequences (length 5-40) on the real `MemoryStorage`
(ScalarField / VectorField / Tensor2Field / FieldCollection, all write modes, repeated and
unsorted time stamps, mutation of source fields and of fields read back, derived storages,
a malformed stream) against `PdeVerif.Storage.step` (Lean, exact rationals): after EVERY step
the error class, the returned observation, `times`, every frame's data, write mode, data shape,
grid, template, every live field's data and the memory-sharing partition are compared.
Monitor: `harness/common/c20_spec.py` (specification log under the documented semantics; it judges
itself, from the public state before the operation, whether an operation is valid and must succeed)."""
import functools
from fractions import Fraction

from harness.common import c20_world as W
from harness.common.c20_spec import Monitor, probe

PID = "C20"
LEVEL = "proof"
REQUIRED_THEOREMS = [
    "read_returns_appended_in_order", "read_returns_appended_from", "refines_run", "items_eq_contents",
    "template_present", "mode_truncate", "mode_truncate_once", "mode_append", "readonly_rejects",
    "mode_unknown_rejects", "start_accepted_iff", "append_accepted_iff", "rejected_keeps_contents",
    "truncate_once_then_append", "append_mode_never_truncates", "readonly_rejects_append", "readonly_frozen",
    "readonly_disables_writing", "appendOld_readonly_accepted", "srun_castfail", "bisect_spec", "bisectLeft_sorted", "bisectRight_sorted",
    "extract_time_range_is_slice", "extract_time_range_consistent", "extract_time_range_defaults",
    "extract_time_range_empty", "extractFieldPlan_cases", "sliceFrame_blocks", "sliceFrame_exhaustive",
    "extract_field_consistent", "view_field_consistent", "copy_apply_consistent", "mapFrames_applyTo",
    "inv_step", "frames_immutable", "world_refines_store", "world_run_refines", "extract_time_range_world",
    "extract_field_world", "apply_world", "getSlice_eq", "gatherInto_spec", "gatherInto_too_long",
    "collInfo_cases", "allwf_step", "applyTo_some_srun", "world_refines_store_all", "world_run_refines_all",
    "world_reads_appended",
    # review 1: acceptance (valid operations are never refused), full extract_time_range statement, the cast-fail
    # half of copy/apply, what the reading operations of the world return
    "extract_time_range_sorted", "copy_apply_castfail", "valid_session_accepted", "valid_sessions_accepted",
    "valid_history_stored", "runBoth_of_allAccepted", "mapFrames_items", "mapFrames_getSlice", "mapFrames_viewGet",
    "read_world", "items_world", "slice_world", "view_field_world", "world_read_returns_appended",
    # gap round (Props/C20Coll.lean)
    "from_collection_world", "from_collection_read", "gatherAll_spec", "bisect_local",
    "extract_time_range_any_times", "extract_time_range_any_times_world", "from_collection_succeeds",
    "world_slice_returns_appended", "world_view_read_returns_appended", "view_items_world",
]
# gap round: `from_collection` end to end (world level), `extract_time_range` boundaries on unsorted times
EXTRA_PROP_FILES = ["C20Coll"]
RULE = ("(1) adaptive random operation sequences of length 5-40 over newField/setField/newStore/setMode/"
        "start_writing/append/end_writing/clear/read/items/slice/extract_time_range/extract_field/view_field/"
        "copy/apply/from_fields/from_collection/direct frame writes, drawn from 8 field profiles (scalar, vector, "
        "tensor, collections with duplicate/missing labels, 1-cell and non-Cartesian grids), all write modes incl. "
        "an unknown one, repeated/unsorted/defaulted time stamps, sessions through StorageTracker objects, a "
        "malformed stream (writes without data shape, readonly writes, wrong grid/shape/dtype, out-of-range reads, bad "
        "field ids); distinct by operation list; non-trivial if >= 2 accepted appends of non-constant data, >= 1 "
        "accepted read or derived view and >= 1 mutation, mode transition, truncation or rejected operation. "
        "Half of the data values carry 30-37 significant bits (not representable in float32). "
        "(2) ALL sequences over a 13-operation alphabet up to length 2-4 per initial write mode; non-trivial if the "
        "storage state moves or an operation is rejected at least twice. (3) searchsorted vs numpy: a hard tie on "
        "sorted/tied lists, informative on unsorted lists. (4) real solver runs filling one storage through "
        "storage.tracker(). (5) get_memory_storage. (6) MONITOR ONLY: all 36 template/appended combinations of "
        "float64/float32/complex128/complex64/int64/int32 for scalar fields and collections, each followed by a change "
        "of the source, every read and every derived view, + adaptive sequences of generator (1) with 2-3 mixed dtypes, "
        "stepped slices and StorageView iteration")
ASSUMPTIONS = [
    "np.can_cast(field.dtype, storage dtype, 'same_kind') is an abstract flag of the append operation in the model; "
    "the harness supplies numpy's verdict (int64 sessions exercise the TypeError route); the model's values are exact "
    "rationals, so complex/float32/int32 data and the dtype pairs numpy casts 'same_kind' but not 'safe' are judged by "
    "the monitor alone (dtype leg), not by the model",
    "np.searchsorted on UNSORTED times is a detail of numpy's search loop: the model mirrors the loop of numpy 2.5.3; "
    "model and numpy are tied on sorted times only, on unsorted times the monitor demands a contiguous run and a "
    "differing bracket ends the model comparison of that sequence (recorded in the evidence, no alarm)",
    "numpy copy/view semantics (np.array copies, slicing shares) are observed through np.shares_memory / array bases",
    "the info dictionary shared between a storage and the storages derived from it is outside the model "
    "(extract_field on a derived storage without template is not generated)",
    "values are dyadic rationals so that the exact model and float64 agree bit for bit",
]
TRUSTED_EXTRA = ["harness/common/c20_spec.py: Python reference of the documented storage semantics (monitor)"]

KNOWN_NONTERMINAL = {"readonly-append-accepted"}


def M(kind, label=None):
    return {"kind": kind, "label": label}


PROFILES = [
    {"name": "scalar-1d",
     "main": {"grid": "u4", "kind": "scalar", "label": "a"},
     "alts": [{"grid": "c4", "kind": "scalar", "label": "a"}, {"grid": "u4p", "kind": "scalar"},
              {"grid": "u4", "kind": "vector"}, {"grid": "u3", "kind": "scalar", "label": "b"}]},
    {"name": "vector-2d",
     "main": {"grid": "u22", "kind": "vector", "label": "v"},
     "alts": [{"grid": "u22", "kind": "coll", "members": [M("scalar", "x"), M("scalar", "y")]},
              {"grid": "c22", "kind": "vector"}, {"grid": "u22", "kind": "scalar"}]},
    {"name": "coll-dup-labels",
     "main": {"grid": "u3", "kind": "coll", "label": "c",
              "members": [M("scalar", "a"), M("vector", "v"), M("scalar", "a")]},
     "alts": [{"grid": "u3", "kind": "coll", "members": [M("scalar", "p"), M("scalar"), M("scalar", "q")]},
              {"grid": "u3", "kind": "scalar"},
              {"grid": "u4", "kind": "coll", "members": [M("scalar", "a"), M("vector", "v"), M("scalar", "a")]}]},
    {"name": "coll-polar",
     "main": {"grid": "p3", "kind": "coll", "members": [M("scalar", "s"), M("vector", "v")]},
     "alts": [{"grid": "p3", "kind": "coll", "members": [M("vector", "v"), M("scalar", "s")]},
              {"grid": "p3", "kind": "vector"}, {"grid": "u3", "kind": "coll", "members": [M("scalar"), M("scalar"), M("scalar")]}]},
    {"name": "one-cell",
     "main": {"grid": "u1", "kind": "scalar"},
     "alts": [{"grid": "u1", "kind": "vector", "label": "w"},
              {"grid": "u1", "kind": "coll", "members": [M("scalar", "z")]}]},
    {"name": "tensor-1d",
     "main": {"grid": "u2", "kind": "tensor", "label": "T"},
     "alts": [{"grid": "u2", "kind": "vector"}, {"grid": "u2", "kind": "coll", "members": [M("scalar", "s")]}]},
    {"name": "coll-mixed-2d",
     "main": {"grid": "u22", "kind": "coll", "members": [M("scalar", "x"), M("vector", "w"), M("tensor", "T")]},
     "alts": [{"grid": "c22", "kind": "coll", "members": [M("scalar", "x"), M("vector", "w"), M("tensor", "T")]},
              {"grid": "u22", "kind": "vector"}]},
    {"name": "scalar-2d",
     "main": {"grid": "u23", "kind": "scalar", "label": "h"},
     "alts": [{"grid": "p3", "kind": "vector"}, {"grid": "u23", "kind": "vector"}]},
]


# ------------------------------------------------------------------------------------------
def probe_failure(world):
    """monitor failure `inconsistent-state` if the public state of a storage cannot even be inspected"""
    try:
        probe(world)
    except Exception as e:  # noqa: BLE001
        return Monitor._fail(f"storage left in an inconsistent state ({type(e).__name__}: {e})",
                             {"error": f"{type(e).__name__}: {e}"}, {"error": None}, "inconsistent-state")
    return None


def exec_ops(ops, stop_on_failure=True):
    """run `ops` on the real code with the monitor.
    -> dict(steps=[{err, obs, snap, mop}], failures=[{...}], world)"""
    world = W.RealWorld()
    mon = Monitor(world)
    steps, failures = [], []
    monitoring = True
    for i, op in enumerate(ops):
        if monitoring:
            mon.before(op)
        err, obs, mop = world.execute(op)
        if monitoring:
            try:
                bad = mon.after(op, err, obs)
            except Exception as e:  # noqa: BLE001 - a crashing monitor is reported, not hidden
                bad = Monitor._fail(f"monitor crashed: {type(e).__name__}: {e}", {}, {}, "monitor-crash")
            if bad is not None:
                bad["step"] = i
                failures.append(bad)
                if bad["key"]["symptom"] not in KNOWN_NONTERMINAL:
                    monitoring = False
                    if stop_on_failure:
                        steps.append({"err": err, "obs": obs, "snap": world.snapshot(), "mop": mop})
                        break
        steps.append({"err": err, "obs": obs, "snap": world.snapshot(), "mop": mop})
    if not failures:
        bad = probe_failure(world)
        if bad is not None:
            failures.append({**bad, "step": len(steps) - 1})
    return {"steps": steps, "failures": failures, "world": world, "monitor_evals": mon.evals}


class Gen:
    """adaptive generator: every operation is executed on the real code as soon as it is drawn,
    so that later operations can refer to the state reached"""

    def __init__(self, rng, hist, length, p_malformed, dtypes=None):
        self.rng, self.hist = rng, hist
        self.length, self.p_mal = length, p_malformed
        # `dtypes` (monitor-only leg): every new field draws its dtype from this list, the first entry most often
        self.dtypes = dtypes
        self.max_frames = 0
        self.world = W.RealWorld()
        self.mon = Monitor(self.world)
        self.ops, self.steps, self.failures = [], [], []
        self.profile = rng.choice(PROFILES)
        self.monitoring = True
        self.flags = set()
        self.n_ok_append = 0
        self.n_ok_view = 0
        self.avoid_s, self.avoid_f = set(), set()   # int64 objects of the dtype-rule stream

    # ---- helpers ---------------------------------------------------------------------
    def vals(self, n, integers=False, wide=False):
        """dyadic rationals (exact in float64 and in the model's `Rat`, also after the `scale`/`addTime`
        functions: at most 46 significant bits); half of the draws carry 30-37 significant bits, so that
        a frame that went through float32 (or any other narrowing) cannot equal what was appended"""
        r = self.rng
        style = 0.5 + r.random() / 2 if wide else r.random()
        if integers:
            if style < 0.1:
                return [0.0] * n
            if style < 0.5:
                return [float(r.randint(-9, 9)) for _ in range(n)]
            return [float(r.randint(-2 ** 40, 2 ** 40)) for _ in range(n)]
        if style < 0.05:
            return [0.0] * n
        if style < 0.1:
            c = r.randint(-4, 4) / 2
            return [c] * n
        if style < 0.15:
            return [r.choice([2.0 ** 40, 2.0 ** -20, -2.0 ** 30, 1.0, 0.0]) for _ in range(n)]
        if style < 0.5:
            return [r.randint(-16, 16) / 2 ** r.randint(0, 2) for _ in range(n)]
        s = r.randint(8, 30)
        return [(r.randint(2 ** 29, 2 ** 36) * r.choice([-1, 1])) / 2 ** s for _ in range(n)]

    def do(self, op):
        if self.monitoring:
            self.mon.before(op)
        err, obs, mop = self.world.execute(op)
        self.ops.append(op)
        if self.monitoring:
            try:
                bad = self.mon.after(op, err, obs)
            except Exception as e:  # noqa: BLE001
                bad = Monitor._fail(f"monitor crashed: {type(e).__name__}: {e}", {}, {}, "monitor-crash")
            if bad is not None:
                bad["step"] = len(self.ops) - 1
                self.failures.append(bad)
                if bad["key"]["symptom"] not in KNOWN_NONTERMINAL:
                    self.monitoring = False
        self.steps.append({"err": err, "obs": obs, "snap": self.world.snapshot(), "mop": mop})
        self.hist("op", op["op"])
        self.hist("outcome", err or "ok")
        self.hist("op-outcome", f"{op['op']}:{err or 'ok'}")
        for b in self.mon.branches:
            self.hist("branch", b)
        self.mon.branches.clear()
        self.max_frames = max([self.max_frames] + [len(st.times) for st in self.world.stores])
        return err

    def field_vals(self, dtype, n, wide=False):
        """{"vals": ..., ("ivals": ...)} for a field of `n` values of the given dtype"""
        import numpy as np
        kind = np.dtype(dtype).kind
        out = {"vals": self.vals(n, integers=kind in "iu", wide=wide)}
        if kind == "c":
            out["ivals"] = self.vals(n, wide=wide)
        return out

    def new_field(self, recipe=None):
        if recipe is None:
            recipe = self.profile["main"] if self.rng.random() < 0.7 else self.rng.choice(self.profile["alts"])
        if self.dtypes:
            dt = self.dtypes[0] if self.rng.random() < 0.5 else self.rng.choice(self.dtypes)
            recipe = {**recipe, "dtype": dt}
            self.hist("field-dtype", dt)
        self.do({"op": "newField", "recipe": recipe,
                 **self.field_vals(recipe.get("dtype", "float64"), W.recipe_size(recipe))})

    def matching_fields(self, st):
        out = []
        for i, f in enumerate(self.world.fields):
            if i in self.avoid_f:
                continue
            if st._data_shape is not None and tuple(f.data.shape) != tuple(st._data_shape):
                continue
            if st._grid is not None and f.grid != st._grid:
                continue
            out.append(i)
        return out

    def pick_field(self, st, valid=0.85):
        m = self.matching_fields(st)
        if m and self.rng.random() < valid:
            return self.rng.choice(m)
        return self.any_field()

    def any_field(self):
        ok = [i for i in range(len(self.world.fields)) if i not in self.avoid_f]
        return self.rng.choice(ok)

    def any_store(self):
        ok = [i for i in range(len(self.world.stores)) if i not in self.avoid_s]
        return self.rng.choice(ok)

    def next_time(self, st):
        r = self.rng
        last = st.times[-1] if len(st.times) else None
        x = r.random()
        if x < 0.1:
            return None
        if last is None:
            return r.choice([0, 0.0, 1, 0.5, -1, 2.25])
        if x < 0.65:
            t = last + r.choice([0.25, 0.5, 1, 1, 2])
        elif x < 0.8:
            t = last
            self.flags.add("repeated-time")
        elif x < 0.92:
            t = last - r.choice([0.5, 1, 3])
            self.flags.add("unsorted-time")
        else:
            t = r.choice([0, 1, 5, -2, 0.125])
        if float(t).is_integer() and r.random() < 0.5:
            t = int(t)
        return t

    def field_id_for(self, st):
        """a field selector for extract_field/view_field, mostly valid"""
        r = self.rng
        f = st._field
        if f is not None and hasattr(f, "fields"):
            n = len(f.fields)
            labels = [m.label for m in f.fields if m.label]
            x = r.random()
            if x < 0.45:
                return r.randrange(n)
            if x < 0.6:
                return -r.randint(1, n)
            if x < 0.9 and labels:
                return r.choice(labels)
            return r.choice([n, -n - 1, "nolabel", 7])
        return r.choice([0, 1, "a", -1])

    # ---- one step --------------------------------------------------------------------
    def step(self):
        r, w = self.rng, self.world
        if not w.fields:
            return self.new_field(self.profile["main"])
        if not w.stores:
            return self.do({"op": "newStore", "mode": r.choice(W.MODES[:3] + ["truncate_once", "truncate_once"])})
        if r.random() < self.p_mal and len(self.ops) + 3 <= self.length:
            return self.malformed()
        sid = self.any_store() if r.random() < 0.3 else self.favourite_store()
        st = w.stores[sid]
        kinds = [("append", 30), ("start", 9), ("end", 4), ("clear", 3), ("setMode", 3), ("setField", 12),
                 ("read", 8), ("items", 3), ("slice", 3), ("extractTimeRange", 5), ("extractField", 4),
                 ("viewRead", 3), ("viewItems", 2), ("apply", 5), ("newField", 5), ("newStore", 2),
                 ("fromFields", 1), ("poke", 2), ("fromCollection", 3)]
        k = r.choices([a for a, _ in kinds], [b for _, b in kinds])[0]
        via = "tracker" if r.random() < 0.25 else "direct"
        if k in ("extractField", "viewRead", "viewItems") and not hasattr(st._field, "fields") and r.random() < 0.85:
            # mostly on storages that hold collections (elsewhere these operations can only fail)
            colls = [i for i, x in enumerate(w.stores) if i not in self.avoid_s and hasattr(x._field, "fields")]
            if colls:
                sid = r.choice(colls)
                st = w.stores[sid]
            elif r.random() < 0.7:
                k = "read"
        n = len(st.times)
        if k == "append":
            if st._data_shape is None and r.random() < 0.9:
                k = "start"
            else:
                # now and then a burst, so that storages with many frames occur
                for _ in range(r.randint(3, 8) if r.random() < 0.12 else 1):
                    fid = self.pick_field(st)
                    err = self.do({"op": "append", "sid": sid, "fid": fid, "t": self.next_time(st), "via": via})
                    if err is None:
                        self.n_ok_append += 1
                        if len(set(W.flat(w.fields[fid].data))) > 1:
                            self.flags.add("nonconstant-data")
                    else:
                        self.flags.add("rejected")
                return None
        if k == "start":
            before = (n, st.write_mode)
            err = self.do({"op": "start", "sid": sid, "fid": self.pick_field(st, 0.9), "via": via,
                           "how": r.choice(["plain", "transform"])})
            if err is None:
                if before[0] > 0 and len(st.times) == 0:
                    self.flags.add("truncation")
                if before[0] > 0 and len(st.times) > 0:
                    self.flags.add("session-appended-to-existing")
                if before[1] != st.write_mode:
                    self.flags.add("mode-transition")
            else:
                self.flags.add("rejected")
            return None
        if k == "end":
            return self.do({"op": "end", "sid": sid, "via": via})
        if k == "clear":
            if n:
                self.flags.add("truncation")
            return self.do({"op": "clear", "sid": sid, "shape": r.random() < 0.4, "how": r.choice(["kw", "plain"])})
        if k == "setMode":
            self.flags.add("mode-set")
            return self.do({"op": "setMode", "sid": sid, "mode": r.choice(W.MODES + ["truncate_once", "append"])})
        if k == "setField":
            fid = self.any_field()
            f = w.fields[fid]
            self.flags.add("mutation")
            hows = ["inplace", "setter", "iadd", "members"] if str(f.dtype) == "float64" else ["inplace", "setter", "members"]
            return self.do({"op": "setField", "fid": fid, **self.field_vals(f.dtype, f.data.size), "how": r.choice(hows)})
        if k == "read":
            i = r.randrange(n) if n else 0
            if n and r.random() < 0.3:
                i -= n
            if self.do({"op": "read", "sid": sid, "i": i}) is None:
                self.n_ok_view += 1
            return None
        if k == "items":
            if self.do({"op": "items", "sid": sid, "how": r.choice(["items", "iter"])}) is None and n:
                self.n_ok_view += 1
            return None
        if k == "slice":
            c = [None, 0, 1, 2, -1, -2, n, n + 2, -n - 1, n // 2]
            op = {"op": "slice", "sid": sid, "a": r.choice(c), "b": r.choice(c)}
            if self.dtypes and r.random() < 0.5:
                op["step"] = r.choice([2, -1, 3, -2, 1])   # stepped slices are outside the model: monitor-only leg
            if self.do(op) is None and n:
                self.n_ok_view += 1
            return None
        if k == "extractTimeRange":
            ts = list(st.times)
            pool = [float(t) for t in ts] + [float(t) + 0.25 for t in ts[:3]] + [-10.0, 100.0, 0.0]
            kind = r.choice(["all", "upto", "pair", "pair", "pair"])
            if not ts and kind != "pair":
                kind = "pair"
            op = {"op": "extractTimeRange", "sid": sid, "kind": kind, "how": r.choice(["noarg", "none"])}
            if kind == "upto":
                op["b"] = r.choice(pool)
            if kind == "pair":
                a, b = r.choice(pool), r.choice(pool)
                if r.random() < 0.7 and a > b:
                    a, b = b, a
                op["a"] = None if (ts and r.random() < 0.25) else a
                op["b"] = None if (ts and r.random() < 0.25) else b
            if self.do(op) is None and n:
                self.n_ok_view += 1
            return None
        if k in ("extractField", "viewRead", "viewItems"):
            if st._field is None and "field_attributes" in st.info:
                return None  # info-dict sharing of derived storages is outside the model
            fidsel = self.field_id_for(st)
            if k == "extractField":
                op = {"op": k, "sid": sid, "field": fidsel, "label": r.choice([None, None, "new", ""])}
            elif k == "viewRead":
                kk = r.randrange(n) if n else 0
                op = {"op": k, "sid": sid, "field": fidsel, "k": kk - n if (n and r.random() < 0.2) else kk}
            else:
                op = {"op": k, "sid": sid, "field": fidsel, "how": r.choice(["items", "iter"])}
            if self.do(op) is None and n:
                self.n_ok_view += 1
            return None
        if k == "apply":
            func = r.choice([{"kind": "ident"}, {"kind": "ident"}, {"kind": "scale", "c": r.choice([2.0, -0.5, 0.0, 4.0])},
                             {"kind": "addTime"}, {"kind": "member", "i": r.randint(0, 2)}])
            if self.dtypes:
                # in-place arithmetic of the user function: none on integer data, no rounding on float32/complex64
                kind = "f" if st._field is None else __import__("numpy").dtype(st._field.dtype).kind
                if func["kind"] == "addTime" or (func["kind"] == "scale" and kind not in "fc"):
                    func = {"kind": "ident"}
            out = None
            others = [i for i in range(len(w.stores)) if i != sid and i not in self.avoid_s]
            if others and r.random() < 0.4:
                out = r.choice(others)
            if self.do({"op": "apply", "sid": sid, "func": func, "out": out, "how": r.choice(["copy", "apply"])}) is None and n:
                self.n_ok_view += 1
            return None
        if k == "newField":
            return self.new_field()
        if k == "newStore":
            return self.do({"op": "newStore", "mode": r.choice(W.MODES[:3] + ["truncate_once"])})
        if k == "fromFields":
            m = self.matching_fields(st) or [self.any_field()]
            fids = [r.choice(m) for _ in range(r.randint(1, 3))]
            ts = [float(i) for i in range(len(fids))]
            self.flags.add("from-fields")
            return self.do({"op": "fromFields", "times": ts, "fids": fids, "mode": r.choice(W.MODES[:3])})
        if k == "fromCollection":
            cands = [i for i, x in enumerate(w.stores)
                     if i not in self.avoid_s and [float(t) for t in x.times] == [float(t) for t in st.times] and
                     not (x._field is None and "field_attributes" in x.info)]
            x = r.random()
            if x < 0.75 and cands:
                sids = [sid] + [r.choice(cands) for _ in range(r.randint(0, 2))]
            elif x < 0.9:
                sids = [self.any_store() for _ in range(r.randint(0, 3))]
            else:
                sids = [sid, self.any_store()]
            sids = [i for i in sids if not (w.stores[i]._field is None and "field_attributes" in w.stores[i].info)]
            self.flags.add("from-collection")
            tol = r.choice([(1e-5, 1e-8), (1e-5, 1e-8), (0.5, 0.0), (0.0, 0.25), (0.0, 0.0)])
            if self.do({"op": "fromCollection", "sids": sids, "label": r.choice([None, "L"]),
                        "rtol": tol[0], "atol": tol[1]}) is None and n:
                self.n_ok_view += 1
            return None
        if k == "poke":
            if n == 0 or len(st.data) != n:
                return None
            i = r.randrange(n)
            self.flags.add("mutation")
            kind = st.data[i].dtype.kind
            return self.do({"op": "poke", "sid": sid, "i": i, "vals": self.vals(st.data[i].size, integers=kind in "iu")})
        return None

    def favourite_store(self):
        # concentrate on the storage that holds most frames (ties: the first)
        best, bn = self.any_store(), -1
        for i, st in enumerate(self.world.stores):
            if i in self.avoid_s:
                continue
            if len(st.times) > bn:
                best, bn = i, len(st.times)
        return best if self.rng.random() < 0.7 else min(i for i in range(len(self.world.stores)) if i not in self.avoid_s)

    def malformed(self):
        r, w = self.rng, self.world
        sid = self.any_store()
        st = w.stores[sid]
        n = len(st.times)
        c = r.choice(["append-fresh", "readonly-start", "readonly-append", "wrong-field", "read-range",
                      "bad-field-id", "etr-empty", "unknown-mode", "apply-readonly", "from-fields-bad", "wrong-start",
                      "wrong-dtype"])
        if c == "wrong-dtype" and (len(self.ops) + 15 > self.length or self.dtypes):
            c = "append-fresh"
        self.hist("malformed", c)
        self.flags.add("malformed")
        if c == "append-fresh":
            self.do({"op": "newStore", "mode": r.choice(W.MODES)})
            return self.do({"op": "append", "sid": len(w.stores) - 1, "fid": self.any_field(), "t": 0})
        if c == "wrong-dtype":
            # the dtype rule: an int64 session refuses float64 data (TypeError) and accepts int64 data; a
            # float64 session accepts int64 data.  The int64 objects are kept out of the other operations.
            recipe = {"grid": self.profile["main"]["grid"], "kind": "scalar", "label": "n", "dtype": "int64"}
            nvals = W.recipe_size(recipe)
            self.do({"op": "newField", "recipe": recipe, "vals": [float(r.randint(-9, 9)) for _ in range(nvals)]})
            fint = len(w.fields) - 1
            self.avoid_f.add(fint)
            self.do({"op": "newField", "recipe": {**recipe, "dtype": "float64"},
                     "vals": [r.randint(-9, 9) / 2 for _ in range(nvals)]})
            fflt = len(w.fields) - 1
            self.do({"op": "newStore", "mode": r.choice(W.MODES[:3])})
            sint = len(w.stores) - 1
            self.avoid_s.add(sint)
            self.do({"op": "start", "sid": sint, "fid": fint})
            self.do({"op": "append", "sid": sint, "fid": fflt, "t": 0.0})
            self.do({"op": "append", "sid": sint, "fid": fint, "t": 1.0})
            if r.random() < 0.5:
                self.do({"op": "clear", "sid": sint, "shape": True})     # forgets shape and dtype ...
                self.do({"op": "start", "sid": sint, "fid": fflt})       # ... so a float64 session can follow
                self.do({"op": "append", "sid": sint, "fid": fflt, "t": 2.0})
                self.do({"op": "append", "sid": sint, "fid": fint, "t": 3.0})   # int64 -> float64 is a safe cast
            self.do({"op": "items", "sid": sint})
            self.do({"op": "newStore", "mode": "truncate_once"})
            sflt = len(w.stores) - 1
            self.avoid_s.add(sflt)   # will hold an int64 frame: direct writes of non-integers would truncate
            self.do({"op": "start", "sid": sflt, "fid": fflt})
            return self.do({"op": "append", "sid": sflt, "fid": fint, "t": 0.0})
        if c in ("readonly-start", "readonly-append"):
            self.do({"op": "setMode", "sid": sid, "mode": "readonly"})
            fid = self.pick_field(st, 1.0)
            if c == "readonly-start":
                self.do({"op": "start", "sid": sid, "fid": fid, "via": r.choice(["direct", "tracker"])})
            else:
                self.do({"op": "append", "sid": sid, "fid": fid, "t": self.next_time(st)})
            if r.random() < 0.7:
                self.do({"op": "setMode", "sid": sid, "mode": r.choice(W.MODES[:3])})
            return None
        if c in ("wrong-field", "wrong-start"):
            if len(w.fields) < 6:
                self.new_field(r.choice(self.profile["alts"]))
            bad = [i for i in range(len(w.fields)) if i not in self.matching_fields(st) and i not in self.avoid_f]
            fid = r.choice(bad) if bad else self.any_field()
            if c == "wrong-field":
                return self.do({"op": "append", "sid": sid, "fid": fid, "t": self.next_time(st)})
            return self.do({"op": "start", "sid": sid, "fid": fid})
        if c == "read-range":
            i = r.choice([n, -n - 1, n + 5, -n - 7])
            return self.do(r.choice([{"op": "read", "sid": sid, "i": i},
                                     {"op": "viewRead", "sid": sid, "field": 0, "k": i}]))
        if c == "bad-field-id":
            if st._field is None and "field_attributes" in st.info:
                return None
            return self.do(r.choice([
                {"op": "extractField", "sid": sid, "field": r.choice([9, -9, "nolabel"]), "label": None},
                {"op": "viewRead", "sid": sid, "field": r.choice([9, -9, "nolabel"]), "k": 0},
                {"op": "viewItems", "sid": sid, "field": r.choice([9, "nolabel"])}]))
        if c == "etr-empty":
            self.do({"op": "newStore", "mode": "truncate_once"})
            return self.do({"op": "extractTimeRange", "sid": len(w.stores) - 1,
                            "kind": r.choice(["all", "upto"]), "b": 1.0})
        if c == "unknown-mode":
            self.do({"op": "setMode", "sid": sid, "mode": "other"})
            self.do({"op": "start", "sid": sid, "fid": self.pick_field(st, 1.0)})
            return self.do({"op": "setMode", "sid": sid, "mode": r.choice(W.MODES[:3])})
        if c == "apply-readonly":
            self.do({"op": "newStore", "mode": r.choice(["readonly", "other"])})
            return self.do({"op": "apply", "sid": sid, "func": {"kind": "ident"}, "out": len(w.stores) - 1})
        if c == "from-fields-bad":
            fids = [self.any_field() for _ in range(r.randint(0, 3))]
            return self.do({"op": "fromFields", "times": [0.0] * r.randint(0, 3), "fids": fids, "mode": "append"})
        return None

    def generate(self):
        guard = 0
        while len(self.ops) < self.length and guard < 10 * self.length and self.monitoring:
            guard += 1
            try:
                self.step()
            except Exception as e:  # noqa: BLE001 - the real objects are in a state the generator cannot use
                bad = probe_failure(self.world)
                if bad is None:
                    raise            # not explained by the state of the real objects: a defect of the generator
                if self.monitoring:
                    self.failures.append({**bad, "step": len(self.ops) - 1})
                    self.monitoring = False
                break
        return self

    def nontrivial(self):
        return (self.n_ok_append >= 2 and "nonconstant-data" in self.flags and self.n_ok_view >= 1 and
                bool(self.flags & {"mutation", "mode-transition", "truncation", "rejected", "malformed", "mode-set"}))


# ------------------------------------------------------------------------------------------
@functools.lru_cache(maxsize=200000)
def qf(s):
    fr = Fraction(s)
    f = float(fr)
    if Fraction(f) != fr:
        raise ValueError(f"model value {s} is not a float64")
    return f


def conv_store(d):
    return {"times": tuple(qf(t) for t in d["times"]),
            "frames": tuple(tuple(qf(x) for x in fr) for fr in d["frames"]),
            "mode": d["mode"], "shape": d["shape"], "dtype": d["dtype"], "grid": d["grid"],
            "tmpl": d["tmpl"], "ids": d["ids"]}


def conv_obs(o):
    if o is None:
        return None
    if "store" in o:
        return {"store": o["store"]}
    if "field" in o:
        return {"field": {"info": o["field"]["info"], "vals": tuple(qf(x) for x in o["field"]["vals"])}}
    if "fields" in o:
        return {"fields": [{"info": f["info"], "vals": tuple(qf(x) for x in f["vals"])} for f in o["fields"]]}
    if "items" in o:
        return {"items": [{"t": qf(i["t"]), "info": i["info"], "vals": tuple(qf(x) for x in i["vals"])}
                          for i in o["items"]]}
    return o


def norm_obs(o):
    """real observation in the same form (tuples of floats)"""
    if o is None:
        return None
    if "field" in o:
        return {"field": {"info": o["field"]["info"], "vals": tuple(o["field"]["vals"])}}
    if "fields" in o:
        return {"fields": [{"info": f["info"], "vals": tuple(f["vals"])} for f in o["fields"]]}
    if "items" in o:
        return {"items": [{"t": float(i["t"]), "info": i["info"], "vals": tuple(i["vals"])} for i in o["items"]]}
    return o


def unsorted_etr(steps, i):
    """is step i an `extract_time_range` on a storage whose times are not sorted?  There
    `np.searchsorted` returns whatever its internal search loop happens to reach - a detail of the
    numpy version, not of py-pde; the property (monitor) only demands a contiguous run."""
    mop = steps[i]["mop"]
    if mop.get("op") != "extractTimeRange" or i == 0 or steps[i - 1]["snap"] is None:
        return False
    prev = steps[i - 1]["snap"]["stores"]
    if mop["sid"] >= len(prev):
        return False
    ts = prev[mop["sid"]]["times"]
    return any(x > y for x, y in zip(ts, ts[1:]))


def compare(steps, model_steps):
    """first difference between the real trace and the model trace, or None.
    {"soft": True, ...}: model and numpy chose different brackets for an `extract_time_range` on
    UNSORTED times (the model mirrors the search loop of one numpy version); no disagreement, the
    comparison of this sequence ends there because the derived storages differ from then on."""
    mstores, mfields = [], []
    if len(model_steps) < len(steps):
        return {"step": len(model_steps), "what": "model trace too short"}
    for i, (real, mod) in enumerate(zip(steps, model_steps)):
        if real["err"] is None and mod["err"] is None and unsorted_etr(steps, i):
            new = [conv_store(d) for idx, d in mod["stores"] if idx == len(mstores)]
            rs = real["snap"]["stores"][len(mstores)] if len(real["snap"]["stores"]) > len(mstores) else None
            if not new or rs is None or new[0]["times"] != rs["times"] or new[0]["frames"] != rs["frames"]:
                return {"soft": True, "step": i, "what": "bracket of searchsorted on unsorted times"}
        for idx, d in mod["stores"]:
            d = conv_store(d)
            if idx == len(mstores):
                mstores.append(d)
            else:
                mstores[idx] = d
        for idx, d in mod["fields"]:
            d = {"buf": d["buf"], "vals": tuple(qf(x) for x in d["vals"])}
            if idx == len(mfields):
                mfields.append(d)
            else:
                mfields[idx] = d
        rerr = real["err"]
        if rerr != mod["err"]:
            return {"step": i, "what": "error class", "model": mod["err"], "impl": rerr}
        if rerr is None and norm_obs(real["obs"]) != conv_obs(mod["obs"]):
            return {"step": i, "what": "returned value", "model": conv_obs(mod["obs"]), "impl": norm_obs(real["obs"])}
        snap = real["snap"]
        if len(snap["stores"]) != len(mstores) or len(snap["fields"]) != len(mfields):
            return {"step": i, "what": "number of objects", "model": [len(mstores), len(mfields)],
                    "impl": [len(snap["stores"]), len(snap["fields"])]}
        for sid, (rs, ms) in enumerate(zip(snap["stores"], mstores)):
            for key in ("times", "frames", "mode", "shape", "dtype", "grid", "tmpl"):
                if rs[key] != ms[key]:
                    return {"step": i, "what": f"storage {sid} {key}", "model": ms[key], "impl": rs[key]}
        for fid, (rf, mf) in enumerate(zip(snap["fields"], mfields)):
            if rf != mf["vals"]:
                return {"step": i, "what": f"field {fid} data", "model": mf["vals"], "impl": rf}
        roots, malias = {}, []
        for mf in mfields:
            malias.append(roots.setdefault(mf["buf"], len(roots)))
        for ms in mstores:
            for b in ms["ids"]:
                malias.append(roots.setdefault(b, len(roots)))
        if malias != snap["alias"]:
            return {"step": i, "what": "memory sharing partition", "model": malias, "impl": snap["alias"]}
    return None


def model_traces(ctx, list_of_steps):
    from harness.common.lean import LeanBatch
    b = LeanBatch(ctx.workdir)
    for steps in list_of_steps:
        b.add("c20.replay", {"ops": [s["mop"] for s in steps]})
    return b.run()


def check_against_model(ctx, list_of_steps):
    """-> list of (index, difference)"""
    out = []
    for i, (steps, ans) in enumerate(zip(list_of_steps, model_traces(ctx, list_of_steps))):
        if ans[0] != "ok":
            out.append((i, {"step": None, "what": "model error", "model": ans[1], "impl": None}))
            continue
        try:
            d = compare(steps, ans[1])
        except ValueError as e:
            d = {"step": None, "what": str(e)}
        if d is not None and d.get("soft"):
            ctx.hist("searchsorted-unsorted", "model bracket differs from numpy: comparison of the sequence ends there")
            continue
        if d is not None:
            out.append((i, d))
    return out


# ------------------------------------------------------------------------------------------
def created_objects(ops):
    """for every op: ('f'|'s', index) of the object it created on the real code, or None"""
    world = W.RealWorld()
    out = []
    for op in ops:
        nf, ns = len(world.fields), len(world.stores)
        world.execute(op)
        out.append(("f", nf) if len(world.fields) > nf else (("s", ns) if len(world.stores) > ns else None))
    return out


def remove_op(ops, k, created):
    """ops without op k; if op k created an object, later references are renumbered and the
    operations that used the object are dropped"""
    c = created[k]
    out = []
    for i, op in enumerate(ops):
        if i == k:
            continue
        if c is None or i < k:
            out.append(op)
            continue
        op = dict(op)
        keys = ["fid"] if c[0] == "f" else ["sid", "out"]
        drop = False
        for key in keys:
            v = op.get(key)
            if isinstance(v, int):
                if v == c[1]:
                    drop = True
                elif v > c[1]:
                    op[key] = v - 1
        if c[0] == "s" and "sids" in op:
            if c[1] in op["sids"]:
                drop = True
            else:
                op["sids"] = [v - 1 if v > c[1] else v for v in op["sids"]]
        if c[0] == "f" and "fids" in op:
            if c[1] in op["fids"]:
                drop = True
            else:
                op["fids"] = [v - 1 if v > c[1] else v for v in op["fids"]]
        if not drop:
            out.append(op)
    return out


def shrink(ctx, ops, still_fails, max_rounds=80):
    """greedy removal of operations (chunks first, then single operations with renumbering of the
    objects they created) while `still_fails(list of candidate op lists) -> [bool]`"""
    cur = list(ops)
    for _ in range(max_rounds):
        if len(cur) <= 1:
            break
        cands = []
        for size in sorted({max(2, len(cur) // 2), max(2, len(cur) // 4)}, reverse=True):
            for start in range(0, len(cur), size):
                c = cur[:start] + cur[start + size:]
                if c and c not in cands:
                    cands.append(c)
        created = created_objects(cur)
        for k in range(len(cur) - 1, -1, -1):
            c = remove_op(cur, k, created)
            if c and c not in cands:
                cands.append(c)
        res = still_fails(cands)
        nxt = next((c for c, bad in zip(cands, res) if bad), None)
        if nxt is None:
            break
        cur = nxt
    return cur


def monitor_fails(ops, symptom, route=None):
    import warnings
    with warnings.catch_warnings():
        warnings.simplefilter("ignore")
        r = exec_ops(ops)
    return any(f["key"]["symptom"] == symptom and f["key"].get("route") == route for f in r["failures"])


def shrink_monitor_failure(ctx, ops, symptom, route=None):
    return shrink(ctx, ops, lambda cands: [monitor_fails(c, symptom, route) for c in cands])


def shrink_disagreement(ctx, ops, what):
    def fails(cands):
        traces = [exec_ops(c, stop_on_failure=False)["steps"] for c in cands]
        bad = dict(check_against_model(ctx, traces))
        return [i in bad for i in range(len(cands))]
    return shrink(ctx, ops, fails, max_rounds=40)


# ------------------------------------------------------------------------------------------
def run(ctx):
    msg = W.check_grid_table()
    if msg:
        from harness.common.lean import BrokenCheck
        raise BrokenCheck(msg)
    rng = ctx.rng
    n_seq = ctx.budget(1200, 12000)
    chunk = 400
    done = 0
    reported_dis, reported_mon = set(), set()
    while done < n_seq:
        gens = []
        for _ in range(min(chunk, n_seq - done)):
            length = rng.randint(5, 40)
            g = Gen(rng, ctx.hist, length, rng.choice([0.0, 0.05, 0.1, 0.25])).generate()
            gens.append(g)
            case = {"profile": g.profile["name"], "ops": g.ops}
            ctx.count(case, nontrivial=g.nontrivial(), leg="sequence")
            ctx.hist("profile", g.profile["name"])
            ctx.hist("length", f"{10 * (len(g.ops) // 10)}-{10 * (len(g.ops) // 10) + 9}")
            for fl in g.flags:
                ctx.hist("feature", fl)
            ctx.hist("storages", len(g.world.stores))
            ctx.hist("max-frames-in-a-storage", "0" if g.max_frames == 0 else "1-2" if g.max_frames <= 2 else
                     "3-5" if g.max_frames <= 5 else "6-10" if g.max_frames <= 10 else "11+")
            ctx.monitor_evals += g.mon.evals
            for o in g.world.observations:
                ctx.hist("observation", "from_collection broadcast storages of different length into a ragged storage")
                if not any(n.startswith("observation:") for n in ctx.notes):
                    ctx.note("observation: " + o)
            for f in g.failures:
                sym = f["key"]["symptom"]
                ops = g.ops[: f["step"] + 1]
                if sym not in reported_mon:
                    reported_mon.add(sym)
                    ops = shrink_monitor_failure(ctx, ops, sym)
                    again = [x for x in exec_ops(ops)["failures"] if x["key"]["symptom"] == sym]
                    f = again[0] if again else f
                ctx.monitor_fail("monitor", {"ops": ops, "symptom": sym}, f["observed"], f["expected"], f["what"],
                                 key=f["key"])
        done += len(gens)
        for i, d in check_against_model(ctx, [g.steps for g in gens]):
            g = gens[i]
            ops = g.ops if d.get("step") is None else g.ops[: d["step"] + 1]
            tag = d["what"].split(" ")[0] + ":" + str(d.get("model"))[:20]
            if len(reported_dis) < 3 and tag not in reported_dis:
                reported_dis.add(tag)
                ops = shrink_disagreement(ctx, ops, d["what"])
                tr = exec_ops(ops, stop_on_failure=False)["steps"]
                dd = dict(check_against_model(ctx, [tr])).get(0)
                d = dd or d
            ctx.disagree("correspondence", {"ops": ops}, d.get("model"), d.get("impl"),
                         f"step {d.get('step')}: {d['what']}")
        ctx.impl_traces += sum(len(g.steps) for g in gens)
    exhaustive_leg(ctx)
    bisect_leg(ctx)
    solver_leg(ctx)
    context_manager_leg(ctx)
    dtype_leg(ctx)
    ctx.disagreements.sort(key=lambda d: len(d["case"].get("ops", [])))


def bisect_leg(ctx):
    """numpy's searchsorted on unsorted/tied lists vs the model's binary search"""
    import numpy as np
    from harness.common.lean import LeanBatch
    from harness.common.num import q
    rng = ctx.sub_rng("bisect")
    b = LeanBatch(ctx.workdir)
    cases = []
    for _ in range(ctx.budget(400, 4000)):
        n = rng.choice([0, 1, 2, 3, 4, 5, 7, 8, 9, 16, 17, 33])
        ts = [rng.randint(-6, 6) / 2 for _ in range(n)]
        if rng.random() < 0.5:
            ts.sort()
        x = rng.choice(ts) if ts and rng.random() < 0.6 else rng.randint(-8, 8) / 2 + rng.choice([0, 0.25])
        cases.append((ts, x))
        b.add("c20.bisect", {"times": [q(t) for t in ts], "x": q(x)})
        ctx.hist("bisect", "sorted" if ts == sorted(ts) else "unsorted")
    n_uns = n_uns_same = 0
    for (ts, x), ans in zip(cases, b.run()):
        real = [int(np.searchsorted(ts, x, side="left")), int(np.searchsorted(ts, x, side="right"))]
        ctx.impl_traces += 1
        ctx.count({"bisect": [ts, x]}, nontrivial=len(ts) > 1, leg="bisect")
        if ans[0] != "ok":
            ctx.disagree("bisect", {"times": ts, "x": x}, ans[1], real, "searchsorted: model error")
        elif ts == sorted(ts):
            # sorted: every correct search returns the partition points (theorems bisectLeft/Right_sorted)
            if ans[1] != real:
                ctx.disagree("bisect", {"times": ts, "x": x}, ans[1], real, "searchsorted on sorted times")
        else:
            # unsorted: the result is a detail of numpy's search loop (the model mirrors the one of numpy 2.5.3);
            # recorded, not a tie - but both must stay inside the list
            n_uns += 1
            n_uns_same += ans[1] == real
            if not all(0 <= v <= len(ts) for v in real + list(ans[1])):
                ctx.disagree("bisect", {"times": ts, "x": x}, ans[1], real, "searchsorted index outside [0, n]")
            else:
                # theorems bisect_local / extract_time_range_any_times: on ANY list the answers are crossing points
                # (element before `left` is < x and the one at `left` is not; element before `right` is <= x and
                # the one at `right` is > x).  Required of numpy's answer and of the model's, whichever loop is used.
                nn = len(ts)
                for who, (lft, rgt) in (("numpy", real), ("model", ans[1])):
                    okc = ((lft == 0 or ts[lft - 1] < x) and (lft == nn or not ts[lft] < x) and
                           (rgt == 0 or ts[rgt - 1] <= x) and (rgt == nn or x < ts[rgt]))
                    ctx.hist("bisect-crossing", f"{who}: crossing point" if okc else f"{who}: NOT a crossing point")
                    if not okc:
                        ctx.disagree("bisect", {"times": ts, "x": x}, ans[1], real,
                                     f"searchsorted on unsorted times: answer of {who} is not a crossing point "
                                     "(theorem bisect_local)")
    ctx.note(f"searchsorted on unsorted lists: the model equals numpy {np.__version__} on {n_uns_same}/{n_uns} "
             "(informative, not a tie; sorted lists are a hard tie)")


def solver_case(cfg):
    """two (or more) real solver runs writing into ONE storage through `storage.tracker()`.
    cfg = {"mode": m, "runs": [{"init": [4 values], "t_range": T}, ...]}.
    -> (monitor failure or None, model steps): the frames must equal the states a CallbackTracker
    saw at the same interrupts; the sessions (start, appends, end) are also replayed on the model."""
    import logging
    import numpy as np
    from pde import CallbackTracker, DiffusionPDE, MemoryStorage, ScalarField, UnitGrid
    from harness.common.c20_spec import Cell
    logging.disable(logging.WARNING)
    recipe = {"grid": "u4", "kind": "scalar", "label": None}
    grid = UnitGrid([4])
    st = MemoryStorage(write_mode=cfg["mode"])
    world = W.RealWorld()
    world.stores.append(st)
    mon = Monitor(world)
    op0 = {"op": "newStore", "mode": cfg["mode"]}
    mon.after(op0, None, None)
    steps = [{"err": None, "obs": {"store": 0}, "snap": world.snapshot(), "mop": op0}]
    bad = None
    for run in cfg["runs"]:
        state = ScalarField(grid, list(run["init"]))
        seen = []
        cb = CallbackTracker(lambda s_, t: seen.append((t, W.flat(s_.data))), interrupts=0.5)
        try:
            DiffusionPDE(diffusivity=0.25).solve(state, t_range=run["t_range"], dt=0.25, backend="numpy",
                                                 tracker=[st.tracker(0.5), cb])
        except Exception as e:  # noqa: BLE001 - a writable storage refused a session of the solver
            bad = Monitor._fail(f"a solver run writing through storage.tracker() into a storage in mode '{cfg['mode']}' "
                                "raised", {"error": f"{type(e).__name__}: {e}", "times": [float(t) for t in st.times]},
                                {"error": None}, "solver-run-raised", "StorageTracker")
            return bad, steps
        fid0 = len(world.fields)
        for vals in [seen[0][1]] + [v for _t, v in seen]:
            f = W.build_field(recipe, list(vals))
            world.fields.append(f)
            steps.append({"err": None, "obs": None, "snap": None,
                          "mop": {"op": "newField", "info": W.info_of(f), "vals": [W.q(v) for v in vals]}})
        sess = [{"op": "start", "sid": 0, "fid": fid0}] + \
               [{"op": "append", "sid": 0, "fid": fid0 + 1 + j, "t": float(t)} for j, (t, _v) in enumerate(seen)] + \
               [{"op": "end", "sid": 0}]
        sp = mon.specs[0]
        for op in sess:
            mop = dict(op)
            if op["op"] == "append":
                mop["t"] = W.q(op["t"])
                sp.log.append((op["t"], Cell(vals=W.flat(world.fields[op["fid"]].data))))
            elif op["op"] == "start":
                if sp.mode == "truncate" or (sp.mode == "truncate_once" and sp.fresh):
                    sp.log = []
                sp.fresh = False
            steps.append({"err": None, "obs": None, "snap": None, "mop": mop})
        steps[-1]["snap"] = world.snapshot()
        bad = bad or mon.check_contents(touched=0)
    return bad, steps


def solver_leg(ctx):
    rng = ctx.sub_rng("solver")
    traces = []
    for mode in W.MODES[:3]:
        for _rep in range(ctx.budget(1, 4)):
            cfg = {"mode": mode, "runs": [{"init": [rng.randint(-8, 8) / 2 for _ in range(4)],
                                            "t_range": rng.choice([1, 1.5])} for _ in range(2)]}
            bad, steps = solver_case(cfg)
            case = {"solver": cfg}
            ctx.monitor_evals += len(cfg["runs"])
            ctx.count(case, nontrivial=True, leg="solver")
            if bad:
                ctx.monitor_fail("solver", case, bad["observed"], bad["expected"],
                                 "StorageTracker: " + bad["what"], key=bad["key"])
            traces.append((case, steps))
    answers = model_traces(ctx, [s for _c, s in traces])
    for (case, steps), ans in zip(traces, answers):
        ctx.impl_traces += 1
        if ans[0] != "ok":
            ctx.disagree("solver", case, ans[1], None, "model error")
            continue
        # compare where a snapshot was taken (end of each session): accumulate the model state
        sub_real, sub_model = [], []
        acc = {"stores": {}, "fields": {}}
        for real, mod in zip(steps, ans[1]):
            for idx, d in mod["stores"]:
                acc["stores"][idx] = d
            for idx, d in mod["fields"]:
                acc["fields"][idx] = d
            if real["snap"] is not None:
                sub_real.append(real)
                sub_model.append({"err": mod["err"], "obs": None,
                                  "stores": sorted(acc["stores"].items()), "fields": sorted(acc["fields"].items()),
                                  "ns": mod["ns"], "nf": mod["nf"]})
                acc = {"stores": {}, "fields": {}}
        d = compare_solver(sub_real, sub_model)
        if d is not None:
            ctx.disagree("solver", case, d.get("model"), d.get("impl"), d["what"])


def compare_solver(reals, mods):
    """storage state only (the fields of this leg are reconstructions, not the solver's state)"""
    mstores = {}
    for real, mod in zip(reals, mods):
        for idx, d in mod["stores"]:
            mstores[idx] = conv_store(d)
        rs = real["snap"]["stores"][0]
        ms = mstores.get(0)
        if ms is None:
            return {"what": "no model storage"}
        for key in ("times", "frames", "mode", "shape", "dtype", "grid", "tmpl"):
            if rs[key] != ms[key]:
                return {"what": f"solver storage {key}", "model": ms[key], "impl": rs[key]}
    return None


def exhaustive_leg(ctx):
    """ALL operation sequences up to a length bound over a 13-letter alphabet on one storage
    (sessions, defaulted/explicit appends, clears, every mode change, a read, a mutation of the
    source, an out-of-range read) for every initial write mode incl. an unknown one"""
    import itertools
    recipe = {"grid": "u2", "kind": "scalar", "label": "e"}
    prefix = lambda mode: [{"op": "newField", "recipe": recipe, "vals": [1.0, 2.0]},
                           {"op": "newField", "recipe": recipe, "vals": [-3.0, 0.5]},
                           {"op": "newStore", "mode": mode}]
    alphabet = [
        {"op": "start", "sid": 0, "fid": 0}, {"op": "append", "sid": 0, "fid": 0, "t": None},
        {"op": "append", "sid": 0, "fid": 1, "t": 1.0}, {"op": "clear", "sid": 0, "shape": False},
        {"op": "clear", "sid": 0, "shape": True}, {"op": "end", "sid": 0},
        {"op": "setMode", "sid": 0, "mode": "truncate"}, {"op": "setMode", "sid": 0, "mode": "truncate_once"},
        {"op": "setMode", "sid": 0, "mode": "append"}, {"op": "setMode", "sid": 0, "mode": "readonly"},
        {"op": "read", "sid": 0, "i": -1}, {"op": "setField", "fid": 0, "vals": [9.0, 9.0]},
        {"op": "extractTimeRange", "sid": 0, "kind": "upto", "b": 0.5},
    ]
    bounds = {"truncate_once": ctx.budget(3, 4), "truncate": ctx.budget(2, 4), "append": ctx.budget(2, 3),
              "readonly": ctx.budget(2, 3), "other": ctx.budget(2, 3)}
    batch = []

    def flush():
        for i, d in check_against_model(ctx, [st for _ops, st in batch]):
            ops = batch[i][0]
            ctx.disagree("exhaustive", {"ops": ops}, d.get("model"), d.get("impl"), f"step {d.get('step')}: {d['what']}")
        ctx.impl_traces += sum(len(st) for _ops, st in batch)
        batch.clear()

    for mode, bound in bounds.items():
        for n in range(1, bound + 1):
            for combo in itertools.product(range(len(alphabet)), repeat=n):
                ops = prefix(mode) + [dict(alphabet[c]) for c in combo]
                r = exec_ops(ops, stop_on_failure=False)
                ctx.monitor_evals += r["monitor_evals"]
                sn = [st_["snap"]["stores"][0] for st_ in r["steps"][2:]]
                moved = sum(1 for x, y in zip(sn, sn[1:]) if x != y) + sum(1 for st_ in r["steps"][3:] if st_["err"])
                ctx.count({"exhaustive": [mode, list(combo)]}, nontrivial=n >= 2 and moved >= 2, leg="exhaustive")
                ctx.hist("exhaustive", f"{mode}/len{n}")
                for f in r["failures"]:
                    sym = f["key"]["symptom"]
                    ctx.monitor_fail("exhaustive", {"ops": ops[: f["step"] + 1], "symptom": sym}, f["observed"],
                                     f["expected"], f["what"], key=f["key"])
                batch.append((ops, r["steps"]))
                if len(batch) >= 3000:
                    flush()
    flush()
    ctx.note("exhaustive leg: all sequences over 13 operations up to length "
             + ", ".join(f"{m}:{b}" for m, b in bounds.items()))


def ctxmgr_case(cm):
    """`with get_memory_storage(field) as st: st.append(...)` for cm = {"recipe": ..., "vals": [[...], ...]}
    against the same history performed with explicit calls.
    -> (failures, explicit ops, steps of the explicit run)"""
    import numpy as np
    from pde.storage.memory import get_memory_storage
    recipe, vals = cm["recipe"], cm["vals"]
    f = W.build_field(recipe, vals[0])
    ops = [{"op": "newField", "recipe": recipe, "vals": vals[0]}]
    crash = None
    try:
        with get_memory_storage(f) as st:
            t = 0.0
            for v in vals:
                f.data[...] = np.array(v).reshape(f.data.shape)
                st.append(f, t)
                t += 0.5
    except Exception as e:  # noqa: BLE001
        crash = f"{type(e).__name__}: {e}"
    t = 0.0
    for v in vals:
        ops += [{"op": "setField", "fid": 0, "vals": v}, {"op": "append", "sid": 0, "fid": 0, "t": t}]
        t += 0.5
    f.data[...] = 0      # a later change of the source
    full = [ops[0], {"op": "newStore", "mode": "truncate_once"}, {"op": "start", "sid": 0, "fid": 0}] + ops[1:] + \
           [{"op": "end", "sid": 0}, {"op": "setField", "fid": 0, "vals": [0.0] * len(vals[0])}]
    r = exec_ops(full)
    failures = list(r["failures"])
    if crash is not None:
        failures.append({**Monitor._fail("`with get_memory_storage(field) as st: st.append(...)` raised", {"error": crash},
                                         {"error": None}, "context-manager-raised", "get_memory_storage"),
                         "step": len(full) - 1})
        return failures, full, r
    ref = r["world"].stores[0]
    got = {"times": [float(x) for x in st.times], "data": [W.flat(d) for d in st.data], "mode": st.write_mode}
    exp = {"times": [float(x) for x in ref.times], "data": [W.flat(d) for d in ref.data], "mode": ref.write_mode}
    want = {"times": [0.5 * i for i in range(len(vals))], "data": [tuple(float(x) for x in v) for v in vals]}
    if not failures and not (W.same_vals(got["times"], exp["times"]) and len(got["data"]) == len(exp["data"]) and
                             all(W.same_vals(a, b) for a, b in zip(got["data"], exp["data"])) and
                             got["mode"] == exp["mode"] and W.same_vals(got["times"], want["times"]) and
                             all(W.same_vals(a, b) for a, b in zip(got["data"], want["data"]))):
        failures.append({**Monitor._fail(
            "get_memory_storage differs from MemoryStorage()+start_writing+append+end_writing (or from what was appended)",
            got, exp, "context-manager", "get_memory_storage"), "step": len(full) - 1})
    return failures, full, r


def context_manager_leg(ctx):
    """`get_memory_storage` = MemoryStorage() + start_writing ... end_writing"""
    rng = ctx.sub_rng("ctxmgr")
    traces = []
    for _ in range(ctx.budget(5, 40)):
        prof = rng.choice(PROFILES)
        recipe = prof["main"]
        n = W.recipe_size(recipe)
        cm = {"recipe": recipe, "vals": [[rng.randint(-8, 8) / 2 for _ in range(n)] for _ in range(rng.randint(1, 4))]}
        failures, full, r = ctxmgr_case(cm)
        ctx.monitor_evals += r["monitor_evals"] + 1
        case = {"context_manager": cm}
        ctx.count(case, nontrivial=len(cm["vals"]) > 1, leg="context-manager")
        for fl in failures:
            ctx.monitor_fail("context-manager", {**case, "symptom": fl["key"]["symptom"]}, fl["observed"], fl["expected"],
                             fl["what"], key=fl["key"])
        traces.append(({**case, "ops": full}, r["steps"]))
    for i, d in check_against_model(ctx, [s for _c, s in traces]):
        ctx.disagree("context-manager", traces[i][0], d.get("model"), d.get("impl"), d["what"])
    ctx.impl_traces += len(traces)


DTYPES = ["float64", "float32", "complex128", "complex64", "int64", "int32"]


def dtype_matrix_ops(a, b, coll, gen):
    """one session whose template has dtype `a` and that is offered data of dtype `b`, followed by a later
    change of the source and all reads / derived views"""
    if coll:
        recipe = {"grid": "u3", "kind": "coll", "label": "c", "members": [M("scalar", "s"), M("vector", "v")]}
    else:
        recipe = {"grid": "u3", "kind": "scalar", "label": "d"}
    n = W.recipe_size(recipe)
    ops = [{"op": "newField", "recipe": {**recipe, "dtype": a}, **gen.field_vals(a, n, wide=True)},
           {"op": "newField", "recipe": {**recipe, "dtype": b}, **gen.field_vals(b, n, wide=True)},
           {"op": "newStore", "mode": "truncate_once"},
           {"op": "start", "sid": 0, "fid": 0},
           {"op": "append", "sid": 0, "fid": 1, "t": 0.0},
           {"op": "append", "sid": 0, "fid": 0, "t": 1.0},
           {"op": "fromFields", "times": [0.0], "fids": [0], "mode": "append"},
           {"op": "append", "sid": 1, "fid": 1, "t": 1.0},       # a storage without `_dtype` (template only)
           {"op": "setField", "fid": 1, "vals": [0.0] * n, "how": "inplace"},
           {"op": "read", "sid": 0, "i": 0}, {"op": "items", "sid": 0, "how": "items"},
           {"op": "slice", "sid": 0, "a": None, "b": None, "step": -1},
           {"op": "apply", "sid": 0, "func": {"kind": "ident"}, "out": None, "how": "copy"},
           {"op": "extractTimeRange", "sid": 0, "kind": "all", "how": "noarg"},
           {"op": "read", "sid": 1, "i": -1}]
    if coll:
        ops += [{"op": "extractField", "sid": 0, "field": "v", "label": None},
                {"op": "viewRead", "sid": 0, "field": 1, "k": 0},
                {"op": "viewItems", "sid": 0, "field": "s", "how": "iter"},
                {"op": "apply", "sid": 0, "func": {"kind": "member", "i": 1}, "out": None, "how": "apply"}]
    return ops


def dtype_leg(ctx):
    """MONITOR ONLY (the Lean model treats numpy's cast verdict as an abstract flag and its values are
    rationals): float64/float32/complex128/complex64/int64/int32 fields in (1) every template/appended dtype
    combination, scalar fields and collections, followed by a change of the source and every read and derived
    view, (2) adaptive random sequences of the generator of leg (1) of `run` with mixed dtypes (also stepped
    slices).  The monitor judges the literal clause: whatever was accepted reads back EQUAL to the data that was
    appended (complex parts, all bits of float64, large integers), a safely castable append must be accepted,
    one numpy cannot cast (same_kind) to the dtype of the storage must raise TypeError."""
    import warnings
    import numpy as np
    rng = ctx.sub_rng("dtype")
    nohist = lambda *a, **k: None
    reported = set()

    def report(ops, failures, leg_case):
        for f in failures:
            sym = f["key"]["symptom"]
            o = ops[: f["step"] + 1]
            tag = (sym, f["key"].get("route"))
            if tag not in reported:
                reported.add(tag)
                o = shrink_monitor_failure(ctx, o, sym, f["key"].get("route"))
                again = [x for x in exec_ops(o)["failures"] if x["key"]["symptom"] == sym]
                f = again[0] if again else f
            ctx.monitor_fail("dtype", {**leg_case, "ops": o, "symptom": sym}, f["observed"], f["expected"], f["what"],
                             key=f["key"])

    with warnings.catch_warnings():
        warnings.simplefilter("ignore")       # ComplexWarning of numpy when a read drops the imaginary part
        gen = Gen(rng, nohist, 0, 0.0)
        for a in DTYPES:
            for b in DTYPES:
                for coll in (False, True):
                    for _rep in range(ctx.budget(1, 3)):
                        ops = dtype_matrix_ops(a, b, coll, gen)
                        r = exec_ops(ops)
                        ctx.monitor_evals += r["monitor_evals"]
                        acc = len(r["steps"]) > 4 and r["steps"][4]["err"] is None
                        ctx.count({"dtype": [a, b, coll], "ops": ops}, nontrivial=True, leg="dtype")
                        same_kind = bool(np.can_cast(b, a, casting="same_kind"))
                        safe = bool(np.can_cast(b, a, casting="safe"))
                        ctx.hist("dtype", f"{a}<-{b}:{'safe' if safe else 'same_kind' if same_kind else 'not-castable'}:"
                                          f"{'accepted' if acc else 'refused'}")
                        report(ops, r["failures"], {"dtype": {"template": a, "appended": b, "collection": coll}})
        # a later session replaces the template by one of a narrower dtype while the old frames are kept
        for a, b in [("complex128", "float64"), ("float64", "float32"), ("int64", "int32"), ("complex64", "float32")]:
            recipe = {"grid": "u3", "kind": "scalar", "label": "d"}
            ops = [{"op": "newField", "recipe": {**recipe, "dtype": a}, **gen.field_vals(a, 3, wide=True)},
                   {"op": "newField", "recipe": {**recipe, "dtype": b}, **gen.field_vals(b, 3, wide=True)},
                   {"op": "newStore", "mode": "append"}, {"op": "start", "sid": 0, "fid": 0},
                   {"op": "append", "sid": 0, "fid": 0, "t": 0.0}, {"op": "end", "sid": 0},
                   {"op": "start", "sid": 0, "fid": 1}, {"op": "append", "sid": 0, "fid": 1, "t": 1.0},
                   {"op": "read", "sid": 0, "i": 0}, {"op": "items", "sid": 0, "how": "iter"}]
            r = exec_ops(ops)
            ctx.monitor_evals += r["monitor_evals"]
            ctx.count({"dtype-template-change": [a, b], "ops": ops}, nontrivial=True, leg="dtype")
            report(ops, r["failures"], {"dtype_template_change": [a, b]})
        for _ in range(ctx.budget(150, 1500)):
            k = rng.randint(2, 3)
            g = Gen(rng, ctx.hist, rng.randint(8, 40), rng.choice([0.0, 0.1]), dtypes=rng.sample(DTYPES, k)).generate()
            ctx.monitor_evals += g.mon.evals
            ctx.count({"dtype-sequence": g.dtypes, "profile": g.profile["name"], "ops": g.ops},
                      nontrivial=g.nontrivial(), leg="dtype-sequence")
            ctx.hist("dtype-sequence", "+".join(sorted(g.dtypes)))
            report(g.ops, g.failures, {"dtype_sequence": g.dtypes})


def search(ctx, broken):
    """failing-input search after a broken correspondence: the monitor on the disagreeing
    sequences (full length) and on a fresh, larger sample of the same generator"""
    found = []
    for d in broken:
        c = d.get("case") if isinstance(d, dict) else None
        if not c or "ops" not in c:
            continue
        r = exec_ops(c["ops"])
        for f in r["failures"]:
            if f["key"]["symptom"] in KNOWN_NONTERMINAL:
                continue
            ops = shrink_monitor_failure(ctx, c["ops"][: f["step"] + 1], f["key"]["symptom"])
            found.append({"leg": "monitor", "case": {"ops": ops, "symptom": f["key"]["symptom"]},
                          "observed": f["observed"], "expected": f["expected"], "what": f["what"], "key": f["key"]})
            return found
    rng = ctx.sub_rng("search")
    nohist = lambda *a, **k: None
    for _ in range(ctx.budget(1500, 6000)):
        g = Gen(rng, nohist, rng.randint(10, 40), rng.choice([0.0, 0.1, 0.25])).generate()
        for f in g.failures:
            if f["key"]["symptom"] in KNOWN_NONTERMINAL:
                continue
            ops = shrink_monitor_failure(ctx, g.ops[: f["step"] + 1], f["key"]["symptom"])
            found.append({"leg": "monitor", "case": {"ops": ops, "symptom": f["key"]["symptom"]},
                          "observed": f["observed"], "expected": f["expected"], "what": f["what"], "key": f["key"]})
            return found
    return found


def replay(ctx, rep):
    """re-run the recorded case (same leg, same inputs) on the real code under the monitor; True iff
    the monitor reports nothing any more"""
    import warnings
    c = rep.get("case")
    if not isinstance(c, dict):
        print("this replay file records no monitor case (a broken tie is replayed by harness/run.py)")
        return False
    sym = c.get("symptom")
    if "solver" in c:
        bad, _steps = solver_case(c["solver"])
        print("solver case:", c["solver"])
        print("monitor:", (bad["what"], bad["observed"], bad["expected"]) if bad else "holds")
        return bad is None
    if "context_manager" in c:
        failures, full, r = ctxmgr_case(c["context_manager"])
        ops = full
    elif "ops" in c:
        with warnings.catch_warnings():
            warnings.simplefilter("ignore")
            r = exec_ops(c["ops"])
        failures, ops = r["failures"], c["ops"]
    else:
        print("this case cannot be replayed (no operation list, solver or context-manager record):", sorted(c))
        return False
    for i, (op, s_) in enumerate(zip(ops, r["steps"])):
        print(f"{i:3d} {op}  ->  {s_['err'] or 'ok'}")
    for sid, st in enumerate(r["world"].stores):
        print(f"storage {sid}: mode={st.write_mode} times={list(st.times)} data={[W.flat(d) for d in st.data]}")
    for f in failures:
        print("monitor:", f["what"], "| observed", f["observed"], "| expected", f["expected"], "| key", f["key"])
    if not failures:
        print("monitor: holds")
    elif sym and not any(f["key"]["symptom"] == sym for f in failures):
        print(f"(the recorded symptom `{sym}` is gone, but the case still fails with another one)")
    return not failures
