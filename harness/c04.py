"""C04 - results never depend on what was computed earlier in the process.

Legs
  pairs      key relation: pairs of requests that coincide in some attributes; on the real objects
             `hash_mutable(a) == hash_mutable(b)` (and, observationally, whether the cached method hands out the
             same object) is compared with key equality in the Lean model (`PdeVerif.Cache.hashMutableG`) fed with
             the serialised object graphs, and with key equality of the graphs the model builds itself from the
             attribute specification (the objects of the theorems).  Monitor: after a cached call for `a`, the
             cached call for `b` behaves like a freshly built `b` (decided by applying both to random data).
  leaves     CPython hash facts the model states (numeric hash, None, str/bytes, ...), exact.
  decorator  `_class_cache` on toy classes (extra_args, ignore_args, finite capacity, invalidation) against the
             state machine `runEvents`.
  histories  random sequences of operator/ghost-cell-setter/interpolator constructions, collections, PDE
             constructions, evolution rates, short solves in ONE interpreter; the LAST result is compared with the
             same call in a fresh interpreter (forked from a process that has only imported `pde`; a subset in a
             really new interpreter through harness/common/isolated.py).
  heap       histories {write, relink by a collection, assign `_data_full`, interpolate, rate of a PDE using the
             field as a constant} against `hrun`/`href`; heap:jit the same around the numba-COMPILED rate
             (`make_pde_rhs(state, "numba")` with the JIT enabled), whose model carries the copy numba freezes.
  Every monitor result is classified by a narrow key; findings E (KEY_FROZEN) and H (KEY_UNINIT, KEY_UNINIT_FIELD)
  are genuine defects of the unchanged tree (notes/C04.md, notes/proposed_fixes/).
"""
import copy
import itertools
import json
import math
import os
import pickle
import sys
import time
import traceback

import numpy as np

from harness.common.isolated import run_many
from harness.c02 import make_grid, gen_grid, AXES, DIM

PID = "C04"
LEVEL = "proof"
EXTRA_PROP_FILES = ["C04Proc"]  # the process of several objects (procRun), PDE._cache / solve
REQUIRED_THEOREMS = [
    "cache_sound_of_faithful", "cache_unsound_of_collision", "events_sound_of_faithful",
    "bc_key_faithful", "bc_key_collision_dirichlet_neumann_old",
    "interpolator_reads_current_buffer", "interpolator_stale_after_relink_old",
    "kwargs_order_independent",
    "opreq_key_faithful", "bcs_key_faithful", "grid_key_faithful_mutable",
    "helpers_read_current_content", "helpers_read_current_content_fixE", "pde_rate_jit_stale_after_write",
    "cache_sound_of_faithful_on", "events_sound_of_faithful_on", "grid_obs_of_key_eq", "arg_obs_of_key_eq",
    "kwargs_obs_of_key_eq", "opreq_obs_of_key_eq", "make_operator_cache_sound", "make_operator_events_sound",
    "kwargs_method_cache_sound",
    "proc_sound_of_faithful_on", "proc_object_independent", "process_cache_sound", "solve_history_independent",
    "registry_cache_sound_by_info", "registry_cache_stale_by_name", "served_of_faithful_key", "pde_operator_table_faithful",
    "pde_operator_table_order_independent", "pde_bc_per_variable", "pde_shared_table_serves_first", "pde_shared_operator_table_unsound",
]
RULE = ("pairs: a seed-derived base request (grid of every class, operator, per-side boundary conditions of every "
        "constant class incl. normal/mixed/periodic - normal_* with EVERY operator of rank >= 1 -, dtype, kwargs) and a variant "
        "that changes one or two attributes (class with equal value, side, axis, rank, normal flag, homogeneous vs per-face array "
        "with equal entries, value/const numbers incl. -1/-2, 0.0/-0.0 and equal-bytes int/float, flip sign, grid class with equal "
        "bounds, bounds, shape, periodicity, operator, kwargs order/values, dtype spelling); a case is distinct by the two "
        "requests and non-trivial if both requests can be built and at least one attribute differs.  histories: "
        "3-12 operations over 1-2 grids and 1-4 fields drawn from the same vocabulary (operators, ghost-cell setters, "
        "interpolation, PDEs with numeric/field constants, two-variable PDEs on collections, argument objects shared between "
        "requests, one PDE object on twin grids of different class, evaluate, solve); distinct by the operation list, "
        "non-trivial if the last call touches a cache that an earlier operation filled; theme rereg: a custom operator registered "
        "(register_operator) under a name that is registered again later with another factory / at another (backend class, grid class) "
        "slot / removed / set back, asked through field.apply_operator, grid.make_operator, grid.make_operator_no_bc(name), "
        "NumbaBackend.make_operator(grid, name), a PDE object, evaluate, on the queried and on an equal unqueried grid object.  heap / "
        "heap:jit: 3-14 events on one field {write, relink, assign, interpolate, interpreted rate, compiled rate}.  registry: 4-12 "
        "events {register at one of four slots, unregister, query through one of eight call sites on one of two equal grid / PDE "
        "objects} against the registry machine; non-trivial if a query follows the second change.  pdevars: PDEs with 2-3 variables "
        "whose equations use the same operator name (laplace / gradient_squared / d2_dx2, some a second one, some coupled "
        "algebraically), every variable with conditions of another kind (value / derivative / mixed / curvature) given as VAR:OP, "
        "VAR:* or the default bc, in EVERY order of the variables, queried through evolution_rate / make_pde_rhs numpy+numba / "
        "solve, some after an earlier request in the same process; distinct by configuration + order, non-trivial if the "
        "conditions of the variables differ")
ASSUMPTIONS = [
    "the builtin hash of str/bytes/tuple/frozenset is idealised as injective (chance collisions of the 64-bit hash "
    "are excluded); its systematic coincidences (numeric hash modulo 2^61-1, hash(-1)=-2, None, '' and b'', ASCII "
    "str vs bytes, list vs tuple) are modelled and compared exactly",
    "global configuration (default backend, numba options: the entries of `pde.config`) is held fixed within a history (as the "
    "property says).  Registering an operator (`register_operator`) is NOT counted as a configuration option: the registry is the "
    "binding of the `operator` argument (like the contents of a field are the binding of a field), the statement forbids a "
    "dependence on `which other operators ... were created, queried ... before`, and after a name was registered again two equal "
    "grid objects answer the same request differently depending only on whether one of them was queried before.  The reference of "
    "a history with registrations is therefore a fresh process that performs only the LAST registration of every slot",
    "fresh interpreter = process forked from one that has only imported pde and initialised third-party libraries (sympy's "
    "parser, numba's typed dictionary); no py-pde call made; a subset of the histories is additionally run in a really new interpreter",
    "MPI conditions (_MPIBC._cache_hash), jax/torch backends are not installed: their keys are modelled but not run",
    "a function object handed out earlier (a compiled rhs, an interpolator) and kept by the caller is not called again "
    "after the state changed: every query of a history asks py-pde again (make_pde_rhs, make_interpolator, solve ...), "
    "as the property's 'requests' do",
]
MIN_LEGS = {"registry": 100, "pdevars:S": 60, "pdevars:J": 1, "histories:S": 150}
TRUSTED_EXTRA = ["harness/common/pygraph.py: the serialiser of real objects into model object graphs (my reading of "
                 "which branch of hash_mutable applies; it never calls hash_mutable)"]

KEY_NEG = {"call_site": "hash_mutable", "symptom": "hash(-1)==hash(-2)"}
KEY_ARR = {"call_site": "hash_mutable", "symptom": "ndarray dtype not in key"}
KEY_PDE = {"call_site": "PDE._prepare_cache", "symptom": "stale const field buffer after relink"}
KEY_F1 = {"call_site": "hash_mutable", "symptom": "class not in key of __dict__ fallback"}
KEY_GRID = {"call_site": "GridBase._cache_hash", "symptom": "builtin hash of bounds: hash(-1)==hash(-2)"}
KEY_F2 = {"call_site": "FieldBase._data_full", "symptom": "stale interpolator after relink"}
# finding E (reviewer finding 1): numba freezes closure arrays when it compiles; `_prepare_cache` reuses the compiled rhs
# as long as the constant field's array OBJECT is the same, so in-place writes to the constant are ignored
KEY_FROZEN = {"call_site": "PDE._prepare_cache", "backend": "numba",
              "symptom": "compiled rhs keeps the compile-time copy of a field-valued constant after an in-place write"}
# finding H (reviewer finding 2): the operator wrapper allocates the padded array with np.empty and `normal_*` conditions
# set only the ghost cells of the normal component
KEY_UNINIT = {"call_site": "NumbaBackend.make_operator", "conditions": "normal_*",
              "symptom": "ghost cells that no condition sets are read uninitialised (np.empty)"}
KEY_UNINIT_FIELD = {"call_site": "DataFieldBase.apply_operator", "conditions": "normal_*",
                    "symptom": "ghost cells that no condition sets are read uninitialised (np.empty)"}
KEY_CRASH = {"call_site": "history", "symptom": "crash or setup error on one side only"}
# finding I (this round): caches that are asked with an operator NAME keep the implementation that was registered when they
# were filled, after the name was registered again with another factory (`register_operator`)
REREG_SYMPTOM = "the implementation registered earlier is used after the name was registered again"
KEY_REREG_NOBC = {"call_site": "GridBase.make_operator_no_bc", "argument": "operator given by name", "symptom": REREG_SYMPTOM}
KEY_REREG_BACKEND = {"call_site": "NumbaBackend.make_operator", "argument": "operator given by name", "symptom": REREG_SYMPTOM}
KEY_REREG_PDE = {"call_site": "PDE._prepare_cache", "argument": "PDE object prepared before the registration", "symptom": REREG_SYMPTOM}
KEY_PDEVARS = {"call_site": "PDE._prepare_cache", "symptom": "a variable of a multi-variable PDE is served the operator prepared for another variable"}


# ==========================================================================================
# value encoding (cases must be JSON-able for the replay files)
def dec(v):
    """tagged JSON value -> Python object"""
    t = v[0]
    if t == "i":
        return int(v[1])
    if t == "f":
        return float(v[1])
    if t == "b":
        return bool(v[1])
    if t == "none":
        return None
    if t == "s":
        return v[1]
    if t == "bytes":
        return bytes.fromhex(v[1])
    if t == "c":
        return complex(v[1], v[2])
    if t == "np":
        return np.dtype(v[1]).type(dec(v[2]))
    if t == "arr":
        return np.array(v[2], dtype=v[1])
    if t == "t":
        return tuple(dec(x) for x in v[1])
    if t == "l":
        return [dec(x) for x in v[1]]
    if t == "d":
        return {k: dec(x) for k, x in v[1]}
    if t == "od":
        import collections
        return collections.OrderedDict((k, dec(x)) for k, x in v[1])
    if t == "dtype":
        return np.dtype(v[1])
    if t == "type":
        return {"float": float, "complex": complex, "int": int, "np.float64": np.float64,
                "np.complex128": np.complex128, "np.float32": np.float32}[v[1]]
    if t == "slice":
        return slice(dec(v[1]), dec(v[2]), dec(v[3]))
    if t == "backend":
        from pde import get_backend
        return get_backend(v[1])
    raise ValueError(f"unknown tag {t}")


def dec_bc(spec):
    """per-side dictionary with encoded values -> what py-pde gets"""
    out = {}
    for k, s in spec.items():
        if isinstance(s, str):
            out[k] = s
        else:
            d = {"type": s["type"], "value": dec(s["value"])}
            if "const" in s:
                d["const"] = dec(s["const"])
            out[k] = d
    return out


def quiet():
    import logging
    import warnings
    logging.getLogger("pde").setLevel(logging.ERROR)
    warnings.simplefilter("ignore")


def rnd_data(seed, shape, cplx=False):
    r = np.random.default_rng(seed)
    a = r.integers(-8, 9, size=shape).astype(float) / 4
    if cplx:
        a = a + 1j * r.integers(-8, 9, size=shape) / 4
    return a


def arr_close(x, y, tol=1e-10, mask=None):
    """ELEMENTWISE comparison: two entries agree if both are NaN, if they are equal (this is the only way for
    infinite entries), or if both are finite and `|x-y| <= tol * max(1, |x|, |y|)`.  A non-finite entry on one side
    only is a difference; one huge entry does not widen the tolerance of the others.
    `mask` (boolean, broadcastable): entries where it is False are not compared."""
    x, y = np.asarray(x), np.asarray(y)
    if x.shape != y.shape:
        return False
    if x.size == 0:
        return True
    if x.dtype == object or y.dtype == object:
        return False
    with np.errstate(all="ignore"):
        both_nan = np.isnan(x) & np.isnan(y)
        eq = x == y
        fin = np.isfinite(x) & np.isfinite(y)
        sc = np.maximum(1.0, np.maximum(np.abs(x), np.abs(y)))
        close = fin & (np.abs(x - y) <= tol * sc)
        ok = both_nan | eq | close
    if mask is not None:
        ok = ok | ~np.broadcast_to(np.asarray(mask, dtype=bool), ok.shape)
    return bool(np.all(ok))


def lst(x):
    """array -> JSON-able nested list (complex as [re, im])"""
    x = np.asarray(x)
    if np.iscomplexobj(x):
        return {"re": x.real.tolist(), "im": x.imag.tolist()}
    return x.tolist()


def exc_class(e):
    return type(e).__name__


# ==========================================================================================
# PAIRS: generators
OPS_CART = [("laplace", 0), ("gradient", 0), ("gradient_squared", 0), ("divergence", 1), ("vector_laplace", 1),
            ("vector_gradient", 1), ("tensor_divergence", 2)]
OPS_CURV = [("laplace", 0), ("gradient", 0), ("gradient_squared", 0), ("divergence", 1)]
KIND_ALIAS = {"dirichlet": "value", "neumann": "derivative", "mixed": "mixed", "curvature": "curvature"}
DTYPES = [["none"], ["type", "float"], ["s", "float64"], ["dtype", "float64"], ["type", "np.float64"],
          ["type", "complex"], ["dtype", "complex128"], ["s", "complex128"]]


def axes_of(gd):
    return list(AXES[gd["cls"]])[:len(gd["shape"])]


def dim_of(gd):
    return DIM.get(gd["cls"], len(gd["shape"]))


def ops_of(gd):
    return OPS_CART if gd["cls"] in ("UnitGrid", "CartesianGrid") else OPS_CURV


def gen_grid_small(rng):
    gd = gen_grid(rng, min_cells=2)
    while len(gd["shape"]) > 2:
        gd = gen_grid(rng, min_cells=2)
    return gd


def gen_number(rng):
    r = rng.random()
    if r < 0.25:
        return ["i", rng.choice([0, 1, -1, -2, 2, 3])]
    if r < 0.35:
        return ["f", rng.choice([-1.0, -2.0, 0.0, -0.0, 1.0])]
    return ["f", rng.randint(-8, 8) / rng.choice([1, 2, 4])]


def num_of(v):
    return dec(v)


# `normal_*` conditions only set the ghost cells of the normal component.  They are generated together with EVERY
# operator of rank >= 1: with operators that also read the other components' ghost cells (vector_laplace,
# vector_gradient) some output cells are not determined by data and conditions; `defined_mask` finds those cells, all
# comparisons are made on the determined cells, and `heap_dependence` judges the rest literally (finding H, KEY_UNINIT)


def has_normal(bc):
    return any(not isinstance(s, str) and s["type"].startswith("normal_") for s in bc.values())


def gen_side(rng, gd, axis, rank):
    """one local condition with a homogeneous value (variants make it inhomogeneous)"""
    kinds = ["dirichlet", "neumann", "mixed", "curvature"]
    kind = rng.choice(kinds)
    normal = rank >= 1 and rng.random() < 0.3
    alias = ("normal_" if normal else "") + KIND_ALIAS[kind]
    s = {"type": alias, "value": gen_number(rng)}
    if kind == "mixed":
        s["value"] = ["f", abs(float(num_of(s["value"])))]
        s["const"] = gen_number(rng)
    return s


def gen_bc(rng, gd, rank, op=None):
    spec = {}
    for ax, name in enumerate(axes_of(gd)):
        if gd["periodic"][ax]:
            spec[name] = rng.choice(["periodic", "periodic", "anti-periodic"])
        else:
            lo = gen_side(rng, gd, ax, rank)
            hi = copy.deepcopy(lo) if rng.random() < 0.3 else gen_side(rng, gd, ax, rank)
            spec[name + "-"], spec[name + "+"] = lo, hi
    return spec


def gen_req(rng):
    gd = gen_grid_small(rng)
    op, rank = rng.choice(ops_of(gd))
    kwargs = []
    if op in ("gradient", "divergence", "vector_gradient", "tensor_divergence") and gd["cls"] in ("UnitGrid", "CartesianGrid") and rng.random() < 0.4:
        kwargs.append(["method", ["s", rng.choice(["central", "forward", "backward"])]])
    if op == "gradient_squared" and rng.random() < 0.4:
        kwargs.append(["central", ["b", rng.random() < 0.5]])
    return {"grid": gd, "op": op, "rank": rank, "bc": gen_bc(rng, gd, rank, op), "dtype": rng.choice(DTYPES),
            "kwargs": kwargs, "korder": 0}


def face_shape(gd, axis):
    return [n for j, n in enumerate(gd["shape"]) if j != axis]


def side_keys(req):
    return [k for k, v in req["bc"].items() if not isinstance(v, str)]


def axis_of_key(req, k):
    return axes_of(req["grid"]).index(k[:-1])


def full_value(req, k, x, dtype="float64"):
    """array of the full (tensor + face) shape filled with x"""
    s = req["bc"][k]
    normal = s["type"].startswith("normal_")
    vr = req["rank"] - 1 if normal else req["rank"]
    shape = [dim_of(req["grid"])] * vr + face_shape(req["grid"], axis_of_key(req, k))
    return ["arr", dtype, np.full(shape, x).tolist()]


VARIANTS = ["same", "class", "swap_sides", "swap_axes", "normal", "homog", "value_num", "neg12", "int_float",
            "same_bytes", "signed_zero", "const", "value_const", "flip", "gridcls", "bounds", "bounds_hash", "shape", "periodic",
            "op", "kw_value", "kw_order", "dtype", "expr_value", "expr_bc", "rank"]


def apply_variant(rng, req, v):
    """returns the variant request (or None if the variant does not apply)"""
    b = copy.deepcopy(req)
    gd = b["grid"]
    keys = side_keys(b)
    if v == "same":
        return b
    if v == "class":
        if not keys:
            return None
        k = rng.choice(keys)
        cur = b["bc"][k]["type"]
        pre = "normal_" if cur.startswith("normal_") else ""
        others = [pre + a for a in ("value", "derivative", "curvature", "mixed") if pre + a != cur]
        b["bc"][k]["type"] = rng.choice(others)
        if b["bc"][k]["type"].endswith("mixed"):
            b["bc"][k].setdefault("const", ["i", 0])
        else:
            b["bc"][k].pop("const", None)
        return b
    if v == "swap_sides":
        ax = [n for n in axes_of(gd) if n + "-" in b["bc"]]
        if not ax:
            return None
        n = rng.choice(ax)
        b["bc"][n + "-"], b["bc"][n + "+"] = b["bc"][n + "+"], b["bc"][n + "-"]
        return b
    if v == "swap_axes":
        ax = axes_of(gd)
        if len(ax) < 2 or any(gd["periodic"]) or gd["shape"][0] != gd["shape"][1]:
            return None
        for s in ("-", "+"):
            b["bc"][ax[0] + s], b["bc"][ax[1] + s] = b["bc"][ax[1] + s], b["bc"][ax[0] + s]
        return b
    if v == "normal":
        if not keys or b["rank"] < 1:
            return None
        k = rng.choice(keys)
        t = b["bc"][k]["type"]
        b["bc"][k]["type"] = t[len("normal_"):] if t.startswith("normal_") else "normal_" + t
        return b
    if v == "homog":
        if not keys:
            return None
        k = rng.choice(keys)
        val = b["bc"][k]["value"]
        if val[0] not in ("i", "f"):
            return None
        b["bc"][k]["value"] = full_value(b, k, float(dec(val)))
        return b
    if v == "value_num":
        if not keys:
            return None
        k = rng.choice(keys)
        val = b["bc"][k]["value"]
        if val[0] not in ("i", "f"):
            return None
        x = dec(val)
        b["bc"][k]["value"] = [val[0], rng.choice([x + 1, -x if x else 1, x * 2 if x else 3])]
        if b["bc"][k]["type"].endswith("mixed"):
            b["bc"][k]["value"] = ["f", abs(float(dec(b["bc"][k]["value"])))]
        return b
    if v == "neg12":
        if not keys:
            return None
        k = rng.choice([k for k in keys if not req["bc"][k]["type"].endswith("mixed")] or [None])
        if k is None:
            return None
        t = rng.choice(["i", "f"])
        req["bc"][k]["value"] = [t, -1]
        b["bc"][k]["value"] = [t, -2]
        return b
    if v == "int_float":
        if not keys:
            return None
        k = rng.choice(keys)
        x = rng.choice([0, 1, 2, 3])
        req["bc"][k]["value"] = ["i", x]
        b["bc"][k]["value"] = ["f", float(x)]
        return b
    if v == "same_bytes":
        if not keys:
            return None
        k = rng.choice([k for k in keys if not req["bc"][k]["type"].endswith("mixed")] or [None])
        if k is None:
            return None
        x = rng.choice([1, 2, 4607182418800017408, 4611686018427387904])
        req["bc"][k]["value"] = ["i", x]
        b["bc"][k]["value"] = ["f", float(np.array(x, dtype=np.int64).view(np.float64))]
        return b
    if v == "signed_zero":
        if not keys:
            return None
        k = rng.choice(keys)
        req["bc"][k]["value"] = ["f", 0.0]
        b["bc"][k]["value"] = ["f", -0.0]
        return b
    if v == "const":
        ks = [k for k in keys if "const" in b["bc"][k]]
        if not ks:
            return None
        k = rng.choice(ks)
        b["bc"][k]["const"] = ["f", float(dec(b["bc"][k]["const"])) + rng.choice([1.0, -1.0, 0.5])]
        return b
    if v == "value_const":
        ks = [k for k in keys if "const" in b["bc"][k]]
        if not ks:
            return None
        k = rng.choice(ks)
        val, con = b["bc"][k]["value"], b["bc"][k]["const"]
        b["bc"][k]["value"], b["bc"][k]["const"] = ["f", abs(float(dec(con)))], val
        return b
    if v == "flip":
        ks = [k for k, s in b["bc"].items() if isinstance(s, str)]
        if not ks:
            return None
        k = rng.choice(ks)
        b["bc"][k] = "anti-periodic" if b["bc"][k] == "periodic" else "periodic"
        return b
    if v == "gridcls":
        if gd["cls"] == "UnitGrid":
            gd["cls"] = "CartesianGrid"
            return b
        if gd["cls"] == "CartesianGrid":
            # make the base a grid that a UnitGrid can reproduce
            for g in (req["grid"], gd):
                g["bounds"] = [[0.0, float(n)] for n in g["shape"]]
            gd["cls"] = "UnitGrid"
            return b
        if gd["cls"] in ("PolarSymGrid", "SphericalSymGrid"):
            gd["cls"] = "SphericalSymGrid" if gd["cls"] == "PolarSymGrid" else "PolarSymGrid"
            return b
        return None
    if v == "bounds":
        if gd["cls"] == "UnitGrid":
            return None
        ax = rng.randrange(len(gd["shape"]))
        lo, hi = gd["bounds"][ax]
        gd["bounds"][ax] = [lo, lo + 2 * (hi - lo)] if rng.random() < 0.5 else [lo + 1.0, hi + 1.0]
        return b
    if v == "bounds_hash":
        # bounds whose builtin hashes coincide: -1 / -2, 0.5 / 2**60
        if gd["cls"] != "CartesianGrid":
            return None
        ax = rng.randrange(len(gd["shape"]))
        if rng.random() < 0.7:
            hi = rng.choice([1.0, 0.0, 3.0])
            req["grid"]["bounds"][ax] = [-1.0, hi]
            gd["bounds"][ax] = [-2.0, hi]
        else:
            req["grid"]["bounds"][ax] = [0.0, 0.5]
            gd["bounds"][ax] = [0.0, float(1 << 60)]
        for r in (req, b):
            for k in side_keys(r):
                for f in ("value", "const"):
                    if f in r["bc"][k] and r["bc"][k][f][0] == "s":
                        r["bc"][k][f] = ["f", 1.0]
        return b
    if v == "shape":
        ax = rng.randrange(len(gd["shape"]))
        if gd["cls"] == "UnitGrid":
            gd["shape"][ax] += 1
            gd["bounds"][ax][1] += 1.0
        else:
            gd["shape"][ax] += 1
        # per-face arrays of the other axes would no longer fit: keep only scalar values
        for k in side_keys(b):
            for f in ("value", "const"):
                if f in b["bc"][k] and b["bc"][k][f][0] == "arr":
                    b["bc"][k][f] = ["f", 1.0]
        return b
    if v == "periodic":
        cand = [i for i in range(len(gd["shape"]))
                if not (gd["cls"] in ("PolarSymGrid", "SphericalSymGrid") or (gd["cls"] == "CylindricalSymGrid" and i == 0))]
        if not cand:
            return None
        ax = rng.choice(cand)
        name = axes_of(gd)[ax]
        if gd["periodic"][ax]:
            gd["periodic"][ax] = False
            b["bc"].pop(name)
            b["bc"][name + "-"] = gen_side(rng, gd, ax, b["rank"])
            b["bc"][name + "+"] = gen_side(rng, gd, ax, b["rank"])
        else:
            gd["periodic"][ax] = True
            b["bc"].pop(name + "-")
            b["bc"].pop(name + "+")
            b["bc"][name] = "periodic"
        return b
    if v == "op":
        same_rank = [o for o, r in ops_of(gd) if r == b["rank"] and o != b["op"]]
        if not same_rank:
            return None
        b["op"] = rng.choice(same_rank)
        b["kwargs"] = []
        return b
    if v == "kw_value":
        if b["op"] in ("gradient", "divergence", "vector_gradient", "tensor_divergence") and gd["cls"] in ("UnitGrid", "CartesianGrid"):
            cur = dict((k, x) for k, x in b["kwargs"]).get("method", ["s", "central"])[1]
            b["kwargs"] = [["method", ["s", rng.choice([m for m in ("central", "forward", "backward") if m != cur])]]]
            return b
        if b["op"] == "gradient_squared":
            cur = dict((k, x) for k, x in b["kwargs"]).get("central", ["b", True])[1]
            b["kwargs"] = [["central", ["b", not cur]]]
            return b
        return None
    if v == "kw_order":
        b["korder"] = rng.randint(1, 5)
        return b
    if v == "dtype":
        b["dtype"] = rng.choice([d for d in DTYPES if d != b["dtype"]])
        return b
    if v == "expr_value":
        # constant value given as a number vs the same value given as an expression string
        ks = [k for k in keys if b["rank"] == 0 and b["bc"][k]["value"][0] in ("i", "f") and "const" not in b["bc"][k]]
        if not ks:
            return None
        k = rng.choice(ks)
        x = float(dec(b["bc"][k]["value"]))
        req["bc"][k]["value"] = ["f", x]
        b["bc"][k]["value"] = ["s", repr(x)]
        return b
    if v == "expr_bc":
        ks = [k for k in keys if b["rank"] == 0 and b["bc"][k]["type"] in ("value", "derivative")
              and b["bc"][k]["value"][0] in ("i", "f")]
        if not ks:
            return None
        k = rng.choice(ks)
        x = float(dec(b["bc"][k]["value"]))
        b["bc"][k] = {"type": b["bc"][k]["type"] + "_expression", "value": ["s", repr(x)]}
        return b
    if v == "rank":
        # same condition data for an operator of another rank (scalar values broadcast)
        others = [(o, r) for o, r in ops_of(gd) if r != b["rank"]]
        if not others or any(s["value"][0] == "arr" or s["type"].startswith("normal_") for s in b["bc"].values() if not isinstance(s, str)):
            return None
        b["op"], b["rank"] = rng.choice(others)
        b["kwargs"] = []
        return b
    raise ValueError(v)


def gen_req_pair(rng, hist):
    for _ in range(50):
        a = gen_req(rng)
        vs = [rng.choice(VARIANTS)]
        if rng.random() < 0.2:
            vs.append(rng.choice(VARIANTS))
        b = a
        ok = True
        for v in vs:
            nb = apply_variant(rng, b, v)  # some variants also adjust their first argument
            if nb is None:
                ok = False
                break
            b = nb
        if ok:
            for v in vs:
                hist("variant", v)
            hist("req:grid-class", f"{a['grid']['cls']}/{len(a['grid']['shape'])}d" + ("/periodic" if any(a["grid"]["periodic"]) else ""))
            hist("req:operator", a["op"] if a["op"] == b["op"] else f"{a['op']}|{b['op']}")
            for r in (a, b):
                for sd in r["bc"].values():
                    hist("req:bc-class", sd if isinstance(sd, str) else sd["type"] + (":" + sd["value"][0] if sd["value"][0] in ("arr", "s") else ""))
                if has_normal(r["bc"]):
                    hist("req:normal-with-operator", r["op"])
            return {"kind": "req", "a": a, "b": b, "variants": vs, "seed": rng.randrange(1 << 30)}
    raise RuntimeError("no applicable variant")


def gen_obj_pair(rng, hist):
    """single boundary-condition objects / grids taken from a pair of related requests"""
    pair = gen_req_pair(rng, lambda *a: None)
    if rng.random() < 0.25:
        hist("obj-pair", "grid:" + "+".join(pair["variants"]))
        return {"kind": "gridobj", "a": pair["a"]["grid"], "b": pair["b"]["grid"]}
    na, nb = len(pair["a"]["grid"]["shape"]), len(pair["b"]["grid"]["shape"])
    r = rng.random()
    if r < 0.5:
        ax = rng.randrange(min(na, nb))
        up = rng.random() < 0.5
        pa, pb, how = [ax, up], [ax, up], "same-place"
    elif r < 0.8:
        ax = rng.randrange(min(na, nb))
        pa, pb, how = [ax, False], [ax, True], "low-vs-high"
    else:
        pa, pb, how = [rng.randrange(na), rng.random() < 0.5], [rng.randrange(nb), rng.random() < 0.5], "any"
    if how != "same-place" and rng.random() < 0.5:
        pair["b"] = copy.deepcopy(pair["a"])
    hist("obj-pair", "bc:" + how)
    return {"kind": "bcobj", "a": pair["a"], "b": pair["b"], "pick_a": pa, "pick_b": pb, "seed": pair["seed"]}


# ---- leaves -------------------------------------------------------------------------------
def gen_leaf_pair(rng, hist):
    P = (1 << 61) - 1
    pools = {
        "neg": [["i", -1], ["i", -2], ["f", -1.0], ["f", -2.0], ["np", "float64", ["f", -1.0]], ["np", "int64", ["i", -2]]],
        "one": [["i", 1], ["f", 1.0], ["b", True], ["np", "float64", ["f", 1.0]], ["np", "int64", ["i", 1]], ["c", 1.0, 0.0],
                ["np", "float32", ["f", 1.0]]],
        "zero": [["i", 0], ["f", 0.0], ["f", -0.0], ["b", False], ["s", ""], ["bytes", ""], ["c", 0.0, 0.0], ["t", []], ["l", []]],
        "mod": [["i", P], ["i", 0], ["i", P + 1], ["i", 1], ["f", 0.5], ["i", 1 << 60], ["i", -P - 1], ["i", -P], ["f", 0.25],
                ["i", 1 << 59], ["f", float(1 << 61)], ["i", 2], ["i", 1 << 61]],
        "none": [["none"], ["i", 4238894112], ["f", 4238894112.0], ["s", "None"]],
        "str": [["s", "abc"], ["bytes", "616263"], ["s", "abd"], ["s", "ä"], ["bytes", "c3a4"], ["s", "float64"], ["dtype", "float64"],
                ["type", "float"], ["type", "np.float64"], ["s", "value"], ["s", "derivative"]],
        "inf": [["f", float("inf")], ["i", 314159], ["f", float("-inf")], ["i", -314159], ["np", "float64", ["f", float("inf")]]],
        "seq": [["t", [["i", 1], ["i", 2]]], ["l", [["i", 1], ["i", 2]]], ["t", [["i", 2], ["i", 1]]], ["t", [["f", 1.0], ["i", 2]]],
                ["t", [["t", [["i", 1]]], ["i", 2]]], ["t", [["i", 1], ["t", [["i", 2]]]]], ["l", [["l", [["i", 1], ["i", 2]]]]]],
        "dict": [["d", [["a", ["i", 1]], ["b", ["i", 2]]]], ["d", [["b", ["i", 2]], ["a", ["i", 1]]]], ["d", [["a", ["i", 2]], ["b", ["i", 1]]]],
                 ["od", [["a", ["i", 1]], ["b", ["i", 2]]]], ["od", [["b", ["i", 2]], ["a", ["i", 1]]]],
                 ["d", [["a", ["i", 1]], ["b", ["i", 2]], ["_cache_x", ["i", 5]]]], ["d", [["a", ["i", 1]], ["b", ["i", 2]], ["_cachefoo", ["i", 7]]]],
                 ["d", [["a", ["i", 1]], ["b", ["i", 2]], ["cache", ["i", 5]]]], ["d", [["a", ["i", 1]]]], ["d", []], ["od", []], ["t", []]],
        "arr": [["arr", "float64", [0.0]], ["arr", "int32", [0, 0]], ["arr", "float64", [[0.0]]], ["arr", "int64", [1]], ["arr", "float64", [5e-324]],
                ["arr", "float64", [1.0]], ["arr", "float64", []], ["arr", "int64", []], ["bytes", "0000000000000000"], ["arr", "float64", 1.0],
                ["arr", "int64", 4607182418800017408], ["arr", "float64", [1.0, 2.0]], ["arr", "float64", [[1.0], [2.0]]], ["arr", "float64", [[1.0, 2.0]]],
                ["arr", "complex128", [1.0]], ["arr", "float64", [1.0, 0.0]], ["arr", "bool", [True]], ["arr", "int8", [1]], ["arr", "uint8", [1]]],
        "slice": [["slice", ["none"], ["i", 2], ["none"]], ["slice", ["i", 0], ["i", 2], ["none"]], ["t", [["none"], ["i", 2], ["none"]]],
                  ["slice", ["i", -1], ["none"], ["none"]], ["slice", ["i", -2], ["none"], ["none"]]],
        "cplx": [["c", 1.0, 2.0], ["c", 2.0, 1.0], ["i", 2000007], ["c", 0.0, 1.0], ["i", 1000003], ["c", -1.0, 0.0], ["c", -2.0, 0.0], ["i", -2],
                 ["np", "complex128", ["c", 1.0, 2.0]]],
    }
    name = rng.choice(sorted(pools))
    pool = pools[name]
    a, b = rng.choice(pool), rng.choice(pool)
    if rng.random() < 0.3:
        # embed into a kwargs dictionary as the wrapper does
        k = rng.choice(["fill", "value", "x"])
        a, b = ["t", [["t", []], ["d", [[k, a]]]]], ["t", [["t", []], ["d", [[k, b]]]]]
    if rng.random() < 0.15:
        x = gen_number(rng)
        a, b = x, rng.choice([x, ["f", float(dec(x))], gen_number(rng)])
        name = "random-number"
    hist("leaf-pool", name)
    return {"kind": "leaf", "a": a, "b": b}


# ---- interpolator requests ------------------------------------------------------------------
FILLS = [["none"], ["i", -1], ["i", -2], ["f", -1.0], ["f", -2.0], ["i", 0], ["f", 0.0], ["f", 0.5], ["i", 1 << 60], ["i", 1],
         ["f", 1.0], ["b", True], ["np", "float64", ["f", -1.0]], ["f", 2.5], ["i", 3]]


def gen_interp_pair(rng, hist):
    gd = gen_grid_small(rng)
    rank = rng.choice([0, 0, 0, 1])

    def kw():
        k = [["fill", rng.choice(FILLS)]]
        if rng.random() < 0.6:
            k.append(["with_ghost_cells", ["b", rng.random() < 0.4]])
        if rng.random() < 0.3:
            k.append(["backend", rng.choice([["s", "numba"], ["s", "default"], ["backend", "numba"]])])
        rng.shuffle(k)
        return k
    a = kw()
    r = rng.random()
    if r < 0.15:
        b = copy.deepcopy(a)
        rng.shuffle(b)
    elif r < 0.5:
        # change only the fill value, preferably to one with a related hash
        b = copy.deepcopy(a)
        for item in b:
            if item[0] == "fill":
                item[1] = rng.choice(FILLS)
    else:
        b = kw()
    hist("interp-fill", f"{a and dict((k, v) for k, v in a)['fill'][:2]}|{dict((k, v) for k, v in b)['fill'][:2]}")
    return {"kind": "interp", "grid": gd, "rank": rank, "a": a, "b": b, "seed": rng.randrange(1 << 30)}


def gen_nobc_pair(rng, hist):
    gd = gen_grid_small(rng)
    op, rank = rng.choice(ops_of(gd))

    def kw(op):
        k = []
        if rng.random() < 0.5:
            k.append(["backend", rng.choice([["s", "numba"], ["s", "default"], ["backend", "numba"], ["s", "scipy"]])])
        if rng.random() < 0.5:
            k.append(["dtype", rng.choice(DTYPES)])
        if op in ("gradient", "divergence") and gd["cls"] in ("UnitGrid", "CartesianGrid") and rng.random() < 0.5:
            k.append(["method", ["s", rng.choice(["central", "forward", "backward"])]])
        rng.shuffle(k)
        return k
    a = {"op": op, "kw": kw(op)}
    r = rng.random()
    if r < 0.2:
        b = copy.deepcopy(a)
        rng.shuffle(b["kw"])
    elif r < 0.5:
        same_rank = [o for o, rr in ops_of(gd) if rr == rank]
        b = {"op": rng.choice(same_rank), "kw": copy.deepcopy(a["kw"])}
    else:
        b = {"op": op, "kw": kw(op)}
    hist("nobc-op", f"{a['op']}|{b['op']}")
    return {"kind": "nobc", "grid": gd, "rank": rank, "a": a, "b": b, "seed": rng.randrange(1 << 30)}


# ---- decorator histories ------------------------------------------------------------------------
def gen_deco_case(rng, hist):
    cap = rng.choice([None, None, 1, 2, 3])
    ignore = rng.choice([[], [], ["verbose"], ["verbose", "label"]])
    extra = rng.choice([[], [], ["scale"], ["scale", "mode"]])
    vals = [["i", -1], ["i", -2], ["i", 1], ["f", 1.0], ["b", True], ["none"], ["s", "a"], ["t", [["i", 1], ["i", 2]]], ["l", [["i", 1], ["i", 2]]],
            ["arr", "float64", [1.0]], ["arr", "int64", [1]], ["arr", "float64", [[1.0]]], ["f", 0.5], ["d", [["k", ["i", 1]]]]]
    events = []
    for _ in range(rng.randint(3, 12)):
        r = rng.random()
        if r < 0.08:
            events.append({"ev": "drop"})
        elif r < 0.2 and extra:
            events.append({"ev": "set", "attr": rng.choice(extra), "value": rng.choice(vals)})
        else:
            name = rng.choice(["f", "f", "g"])
            args = [rng.choice(vals) for _ in range(rng.choice([0, 1, 1, 2]))]
            kws = []
            for k in rng.sample(["p", "q", "verbose", "label"], rng.choice([0, 1, 2, 3])):
                kws.append([k, rng.choice(vals)])
            events.append({"ev": "call", "name": name, "args": args, "kwargs": kws})
    hist("deco", f"cap={cap} ignore={len(ignore)} extra={len(extra)}")
    return {"kind": "deco", "cap": cap, "ignore": ignore, "extra": extra, "events": events}


# ---- processes: several objects, each with its own cache dictionary (model `procRun`) ---------------------------
def gen_proc_case(rng, hist):
    """the decorator histories on SEVERAL toy instances: every event names its object; invalidations hit one object"""
    c = gen_deco_case(rng, lambda *a, **k: None)
    nobj = rng.choice([2, 2, 3, 4])
    evs = c["events"]
    if not c["extra"]:  # twice as long (the second half has no `set` events either)
        evs = evs + gen_deco_case(rng, lambda *a, **k: None)["events"]
        evs = [e for e in evs if e["ev"] != "set"]
    for e in evs:
        if e["ev"] != "set":
            e["obj"] = rng.randrange(nobj)
    hist("proc", f"objects={nobj} cap={c['cap']} extra={len(c['extra'])}")
    return {"kind": "proc", "cap": c["cap"], "ignore": c["ignore"], "extra": c["extra"], "nobj": nobj, "events": evs}


PDESLOT_EXPRS = ["laplace(c) - c", "-2 * c", "laplace(c)", "c - c**3"]
PDESLOT_STATES = [{"grid": ["unit", 4]}, {"grid": ["unit", 4]}, {"grid": ["unit", 5]}, {"grid": ["cart", 4]}, {"grid": ["unitp", 4]},
                  {"grid": ["unit", 4], "dtype": "complex"}, {"grid": ["unit", 4], "label": "x"}, {"grid": ["unit", 5], "label": "x"}]


def gen_pdeslot_case(rng, hist):
    """histories of `evolution_rate` / `make_pde_rhs` / `solve` requests on one or two PDE objects for states whose
    attributes coincide or differ in one respect (equal grid object, other size, other class, periodicity, dtype, label),
    on both backends, with the manual reset `eq._cache = {}` in between: which request prepares `PDE._cache` anew"""
    nobj = rng.choice([1, 2, 2])
    exprs = [rng.choice(PDESLOT_EXPRS) for _ in range(nobj)]
    states = rng.sample(PDESLOT_STATES, rng.choice([2, 3, 4]))
    events = []
    for _ in range(rng.randint(3, 9)):
        if rng.random() < 0.07:
            events.append({"ev": "drop", "obj": rng.randrange(nobj)})
            continue
        via = rng.choice(["rate", "rhs", "rhs", "solve"])
        backend = "numpy" if via == "rate" else rng.choice(["numpy", "numba"])
        events.append({"ev": "call", "obj": rng.randrange(nobj), "via": via, "backend": backend, "state": rng.randrange(len(states))})
    hist("pdeslot", f"objects={nobj} states={len(states)}")
    for e in events:
        if e["ev"] == "call":
            hist("pdeslot:query", f"{e['via']}:{e['backend']}")
    return {"kind": "pdeslot", "exprs": exprs, "states": states, "events": events}


# ==========================================================================================
# PAIRS: real code (worker side)
def wrapper_key(args, kwargs):
    """the key `_class_cache.wrapper` derives (no ignore/extra args are used inside py-pde)"""
    from pde.tools.cache import hash_mutable
    return hash_mutable(tuple([args, kwargs]))


def uncached(cls, name):
    """(the function behind the cached method `cls.name`, whether the public method itself is the cached one).  Where the
    public method only resolves its arguments and delegates to a cached private method `_<name>...` (repair of finding I:
    the operator is resolved BEFORE the cache is consulted) the private method's function is returned"""
    f = getattr(cls, name)
    if hasattr(f, "__wrapped__"):
        return f.__wrapped__, True
    for n, g in vars(cls).items():
        if n.startswith("_" + name) and hasattr(g, "__wrapped__"):
            return g.__wrapped__, False
    raise AttributeError(f"no cached method behind {cls.__name__}.{name}")


def nobc_cached_call(grid, opname, kw, public_is_cached):
    """positional and keyword arguments as the CACHED function behind `grid.make_operator_no_bc(opname, **kw)` gets them"""
    if public_is_cached:
        return (opname,), dict(kw)
    from pde import get_backend
    be = get_backend(kw.get("backend", "default"))
    info = be.get_operator_info(grid, opname)
    rest = {k: v for k, v in kw.items() if k not in ("backend", "dtype")}
    return (info,), dict({"backend": be, "dtype": kw.get("dtype")}, **rest)


def build_req(r):
    from pde import get_backend
    grid = make_grid(r["grid"])
    backend = get_backend("numba")
    info = backend.get_operator_info(grid, r["op"])
    bcs = grid.get_boundary_conditions(dec_bc(r["bc"]), rank=info.rank_in)
    items = [("bcs", bcs), ("dtype", dec(r["dtype"]))] + [(k, dec(v)) for k, v in r["kwargs"]]
    perms = list(itertools.permutations(range(len(items))))
    order = perms[r.get("korder", 0) % len(perms)]
    kw = {items[i][0]: items[i][1] for i in order}
    return grid, backend, info, kw


def apply_op(op, grid, info, seed, cplx=False):
    shape = (grid.dim,) * info.rank_in + grid.shape
    outs = []
    for j in range(2):
        d = rnd_data(seed + j, shape, cplx)
        if type(grid).__name__ == "SphericalSymGrid" and info.rank_in == 1:
            d[1:] = 0  # the spherical operators insist on purely radial vector fields
        outs.append(np.array(op(d)))
    return outs


def defined_mask(grid, info, bcs, kwargs, backend=None):
    """which output cells of operator-with-conditions are determined by the data and the conditions.  The padded array
    is filled with NaN, its valid part with finite data, the ghost cells are set by the conditions (Python level,
    nothing cached) and the operator WITHOUT conditions (built by the factory directly, nothing cached) is applied: an
    output cell whose stencil reads a cell that nobody wrote is NaN.  Returns a boolean array of the output shape."""
    from pde import get_backend
    backend = backend or get_backend("numba")
    shape_full = (grid.dim,) * info.rank_in + grid._shape_full
    full = np.full(shape_full, np.nan)
    d = rnd_data(12345, (grid.dim,) * info.rank_in + grid.shape)
    if type(grid).__name__ == "SphericalSymGrid" and info.rank_in == 1:
        d[1:] = 0
    full[(..., *grid._idx_valid)] = d
    bcs.set_ghost_cells(full)
    raw = info.factory(grid, backend=backend, **kwargs)
    out = np.zeros((grid.dim,) * info.rank_out + grid.shape)
    raw(full, out)
    return ~np.isnan(out)


def poison_heap(shape, dtype, fill):
    """leave freed blocks of the size of the padded array filled with `fill` where the allocator will hand them out
    again (numpy keeps a small cache of freed blocks per size)"""
    junk = [np.full(shape, fill, dtype=dtype) for _ in range(6)]
    del junk


def heap_dependence(op, grid, info, seed, poison=None):
    """the literal clause 'depends only on its arguments and the current contents of the fields': the same operator on
    the same data after two different allocation histories.  Returns None or the two results."""
    poison_heap = poison or globals()["poison_heap"]
    shape = (grid.dim,) * info.rank_in + grid.shape
    shape_full = (grid.dim,) * info.rank_in + grid._shape_full
    d = rnd_data(seed, shape)
    if type(grid).__name__ == "SphericalSymGrid" and info.rank_in == 1:
        d[1:] = 0
    res = []
    for fill in (1e30, -7.0):
        poison_heap(shape_full, d.dtype, fill)
        res.append(np.array(op(d)))
    if arr_close(res[0], res[1]):
        return None
    with np.errstate(all="ignore"):
        differ = ~((res[0] == res[1]) | (np.isnan(res[0]) & np.isnan(res[1])))
    return {"first": res[0], "second": res[1], "cells": differ}


def heap_dependence_field(grid, info, req, seed):
    """the same clause for `field.apply_operator(operator, bc)`: the field is created from the same data after two
    different allocation histories (the field allocates its padded array itself, the conditions set ghost cells in it)"""
    import pde
    cls = [pde.ScalarField, pde.VectorField, pde.Tensor2Field][info.rank_in]
    shape = (grid.dim,) * info.rank_in + grid.shape
    shape_full = (grid.dim,) * info.rank_in + grid._shape_full
    d = rnd_data(seed, shape)
    if type(grid).__name__ == "SphericalSymGrid" and info.rank_in == 1:
        d[1:] = 0
    res = []
    for fill in (1e30, -7.0):
        poison_heap(shape_full, d.dtype, fill)
        f = cls(grid, d)
        res.append(np.array(f.apply_operator(req["op"], bc=dec_bc(req["bc"]), **{k: dec(v) for k, v in req["kwargs"]}).data))
    if arr_close(res[0], res[1]):
        return None
    with np.errstate(all="ignore"):
        differ = ~((res[0] == res[1]) | (np.isnan(res[0]) & np.isnan(res[1])))
    return {"first": res[0], "second": res[1], "cells": differ}


def real_req_pair(case):
    from harness.common import pygraph as G
    from pde.backends.numba.backend import NumbaBackend
    fresh_make = uncached(NumbaBackend, "make_operator")[0]
    out = {}
    built = []
    for tag in ("a", "b"):
        try:
            built.append(build_req(case[tag]))
        except Exception as e:  # malformed stream: the request cannot even be built
            out["error"] = f"{tag}:{exc_class(e)}"
            return out
    (ga, backend, ia, kwa), (gb, _, ib, kwb) = built
    backend.__dict__.pop("_cache_methods", None)
    keya, keyb = wrapper_key((ga, ia), kwa), wrapper_key((gb, ib), kwb)
    out["hash_eq"] = keya == keyb
    try:
        gra, grb = G.ser(tuple([(ga, ia), kwa])), G.ser(tuple([(gb, ib), kwb]))
        out["ga"], out["gb"] = gra, grb
    except G.Unmodelled as e:
        out["unmodelled"] = str(e)
    for tag, (g, i, kw) in (("sa", (ga, ia, kwa)), ("sb", (gb, ib, kwb))):
        bs = G.bcs_spec(kw["bcs"])
        try:
            out[tag] = None if bs is None else {
                "grid": G.grid_spec(g), "op": G.op_spec(i), "bcs": bs, "dtype": G.ser(kw["dtype"]),
                "kwargs": [[k, G.ser(v)] for k, v in kw.items() if k not in ("bcs", "dtype")]}
        except G.Unmodelled:
            out[tag] = None
    # the cached method, in the order a then b; then the uncached one.  An exception is a result like any other
    made = {}
    for tag, f in (("ca", lambda: backend.make_operator(ga, ia, **kwa)), ("cb", lambda: backend.make_operator(gb, ib, **kwb)),
                   ("fa", lambda: fresh_make(backend, ga, ia, **kwa)), ("fb", lambda: fresh_make(backend, gb, ib, **kwb))):
        try:
            made[tag] = f()
        except Exception as e:
            made[tag] = "EXC:" + exc_class(e)
    out["shared"] = made["ca"] is made["cb"] and not isinstance(made["ca"], str)
    if isinstance(made["fa"], str) or isinstance(made["fb"], str):
        # the request itself is rejected: the cached call must be rejected in the same way
        out["error"] = f"make:{made['fa'] if isinstance(made['fa'], str) else made['fb']}"
        if (made["ca"] if isinstance(made["ca"], str) else "ok") != (made["fa"] if isinstance(made["fa"], str) else "ok") or \
                (made["cb"] if isinstance(made["cb"], str) else "ok") != (made["fb"] if isinstance(made["fb"], str) else "ok"):
            out["one_sided"] = {k: (v if isinstance(v, str) else "ok") for k, v in made.items()}
        return out
    if isinstance(made["ca"], str) or isinstance(made["cb"], str):
        out["error"] = "make-cached"
        out["one_sided"] = {k: (v if isinstance(v, str) else "ok") for k, v in made.items()}
        return out
    opb, fa, fb = made["cb"], made["fa"], made["fb"]
    seed = case["seed"]
    try:
        # cells that data + conditions determine (all of them unless a `normal_*` condition is present)
        ma = defined_mask(ga, ia, kwa["bcs"], {k: dec(v) for k, v in case["a"]["kwargs"]}, backend) if has_normal(case["a"]["bc"]) else True
        mb = defined_mask(gb, ib, kwb["bcs"], {k: dec(v) for k, v in case["b"]["kwargs"]}, backend) if has_normal(case["b"]["bc"]) else True
        out["undefined_cells"] = [int(np.size(m) - np.count_nonzero(m)) if m is not True else 0 for m in (ma, mb)]
        ra = apply_op(fa, ga, ia, seed)
        rb = apply_op(fb, gb, ib, seed)
        same_domain = (ga.dim,) * ia.rank_in + ga.shape == (gb.dim,) * ib.rank_in + gb.shape
        same_mask = bool(same_domain and ra[0].shape == rb[0].shape
                         and np.array_equal(np.broadcast_to(ma, ra[0].shape), np.broadcast_to(mb, rb[0].shape)))
        out["sem_eq"] = bool(same_domain and same_mask and all(arr_close(x, y, mask=mb) for x, y in zip(ra, rb)))
        try:
            cb = apply_op(opb, gb, ib, seed)
            out["cached_ok"] = all(arr_close(x, y, mask=mb) for x, y in zip(cb, rb))
            if not out["cached_ok"]:
                out["observed"] = lst(cb[0])
                out["expected"] = lst(rb[0])
        except Exception as e:
            out["cached_ok"] = False
            out["observed"], out["expected"] = "EXC:" + exc_class(e), lst(rb[0])
        out["nonzero"] = bool(any(np.any(x != 0) for x in rb))
        # the same request on the same data after different allocation histories
        hd = heap_dependence(fb, gb, ib, seed)
        if hd is not None:
            inside = bool(mb is not True and not np.any(hd["cells"] & np.broadcast_to(mb, hd["cells"].shape)))
            out["heap_dep"] = {"first": lst(hd["first"]), "second": lst(hd["second"]),
                               "cells_differing": np.argwhere(hd["cells"]).tolist()[:12], "n_cells_differing": int(hd["cells"].sum()),
                               "only_in_cells_no_condition_determines": inside}
        try:
            hf = heap_dependence_field(gb, ib, case["b"], seed)
        except Exception as e:
            out["field_error"] = exc_class(e)
            hf = None
        if hf is not None:
            inside = bool(mb is not True and not np.any(hf["cells"] & np.broadcast_to(mb, hf["cells"].shape)))
            out["heap_dep_field"] = {"first": lst(hf["first"]), "second": lst(hf["second"]),
                                     "cells_differing": np.argwhere(hf["cells"]).tolist()[:12], "n_cells_differing": int(hf["cells"].sum()),
                                     "only_in_cells_no_condition_determines": inside}
    except Exception as e:
        out["error"] = f"apply:{exc_class(e)}:{e}"
    return out


def real_obj_pair(case):
    from harness.common import pygraph as G
    from pde.tools.cache import hash_mutable
    out = {}
    if case["kind"] == "gridobj":
        try:
            a, b = make_grid(case["a"]), make_grid(case["b"])
        except Exception as e:
            return {"error": exc_class(e)}
        out["hash_eq"] = hash_mutable(a) == hash_mutable(b)
        out["ga"], out["gb"] = G.ser(a), G.ser(b)
        out["sa"], out["sb"] = G.grid_spec(a), G.grid_spec(b)
        out["sem_eq"] = bool(type(a) is type(b) and a.shape == b.shape and tuple(map(tuple, a.axes_bounds)) == tuple(map(tuple, b.axes_bounds))
                             and list(a.periodic) == list(b.periodic))
        # `GridBase.__eq__` validates caches too (`state.attributes == cache["state_attributes"]` in `PDE._prepare_cache`):
        # grids that compare equal must be the same geometry (a UnitGrid IS the CartesianGrid with the same bounds)
        geo = lambda g: "CartesianGrid" if type(g).__name__ == "UnitGrid" else type(g).__name__
        out["grid_eq"] = bool(a == b)
        out["geom_eq"] = bool(geo(a) == geo(b) and a.shape == b.shape and tuple(map(tuple, a.axes_bounds)) == tuple(map(tuple, b.axes_bounds))
                              and list(a.periodic) == list(b.periodic))
        return out
    objs = []
    for tag in ("a", "b"):
        try:
            grid, backend, info, kw = build_req(case[tag])
        except Exception as e:
            return {"error": f"{tag}:{exc_class(e)}"}
        ax, up = case["pick_" + tag]
        bc = kw["bcs"][ax].high if up else kw["bcs"][ax].low
        objs.append((grid, info.rank_in, bc))
    (ga, ra, ba), (gb, rb, bb) = objs
    out["hash_eq"] = hash_mutable(ba) == hash_mutable(bb)
    try:
        gra, grb = G.ser(ba), G.ser(bb)
        out["ga"], out["gb"] = gra, grb
    except G.Unmodelled as e:
        out["unmodelled"] = str(e)
    if type(ba).__qualname__ in G.MODELLED_BC and type(bb).__qualname__ in G.MODELLED_BC:
        out["sa"], out["sb"] = G.bc_spec(ba), G.bc_spec(bb)
    # the function the object denotes: which ghost cells it sets to what
    sha = (ga.dim,) * ra + ga._shape_full
    shb = (gb.dim,) * rb + gb._shape_full
    try:
        da, db = rnd_data(case["seed"], sha), rnd_data(case["seed"], shb)
        ba.set_ghost_cells(da)
        bb.set_ghost_cells(db)
        out["sem_eq"] = bool(sha == shb and arr_close(da, db))
    except Exception as e:
        out["error"] = "apply:" + exc_class(e)
    return out


def real_leaf_pair(case):
    from harness.common import pygraph as G
    from pde.tools.cache import hash_mutable, objects_equal
    a, b = dec(case["a"]), dec(case["b"])
    out = {"hash_eq": hash_mutable(a) == hash_mutable(b)}
    try:
        gra, grb = G.ser(a), G.ser(b)
        out["ga"], out["gb"] = gra, grb
    except G.Unmodelled as e:
        out["unmodelled"] = str(e)
    try:
        out["py_eq"] = bool(objects_equal(a, b)) and type(a) == type(b)
    except Exception:
        out["py_eq"] = None
    # builtin hash of hashable leaves (exact tie of the modelled CPython hash values)
    for tag, x in (("ha", a), ("hb", b)):
        try:
            out[tag] = str(hash(x)) if isinstance(x, (int, float, complex, np.number, type(None), bool, str, bytes)) and not (isinstance(x, float) and math.isnan(x)) else None
        except TypeError:
            out[tag] = None
    return out


def real_interp_pair(case):
    import pde
    from harness.common import pygraph as G
    from pde.fields.datafield_base import DataFieldBase
    fresh_make = DataFieldBase.make_interpolator.__wrapped__
    grid = make_grid(case["grid"])
    cls = [pde.ScalarField, pde.VectorField][case["rank"]]
    f = cls(grid, rnd_data(case["seed"], (grid.dim,) * case["rank"] + grid.shape))
    f.set_ghost_cells("auto_periodic_neumann")
    kwa = {k: dec(v) for k, v in case["a"]}
    kwb = {k: dec(v) for k, v in case["b"]}
    out = {"hash_eq": wrapper_key((), kwa) == wrapper_key((), kwb)}
    try:
        gra, grb = G.ser(tuple([(), kwa])), G.ser(tuple([(), kwb]))
        out["ga"], out["gb"] = gra, grb
    except G.Unmodelled as e:
        out["unmodelled"] = str(e)
    # points: cell centres, in between, and outside of the domain
    lo = np.array([b[0] for b in grid.axes_bounds])
    hi = np.array([b[1] for b in grid.axes_bounds])
    r = np.random.default_rng(case["seed"])
    pts = [lo + (hi - lo) * r.random(len(lo)) for _ in range(3)] + [hi + (hi - lo) * 0.75, lo - (hi - lo) * 2.5]

    def run(func):
        res = []
        for p in pts:
            try:
                res.append(np.array(func(np.array(p))).tolist())
            except Exception as e:
                res.append("EXC:" + exc_class(e))
        return res
    try:
        ia = f.make_interpolator(**kwa)
        ib = f.make_interpolator(**kwb)
        out["shared"] = ia is ib
        fa = fresh_make(f, **kwa)
        fb = fresh_make(f, **kwb)
    except Exception as e:
        out["error"] = exc_class(e)
        return out
    ra, rb, cb = run(fa), run(fb), run(ib)
    out["sem_eq"] = json.dumps(ra) == json.dumps(rb)
    out["cached_ok"] = json.dumps(cb) == json.dumps(rb)
    if not out["cached_ok"]:
        out["observed"], out["expected"] = cb, rb
    out["nonzero"] = True
    return out


def real_nobc_pair(case):
    from harness.common import pygraph as G
    from pde.grids.base import GridBase
    fresh_make, public_is_cached = uncached(GridBase, "make_operator_no_bc")
    grid = make_grid(case["grid"])
    kwa = {k: dec(v) for k, v in case["a"]["kw"]}
    kwb = {k: dec(v) for k, v in case["b"]["kw"]}
    opa, opb = case["a"]["op"], case["b"]["op"]
    try:
        (aa, ka), (ab, kb) = nobc_cached_call(grid, opa, kwa, public_is_cached), nobc_cached_call(grid, opb, kwb, public_is_cached)
    except Exception as e:
        return {"error": exc_class(e)}
    out = {"hash_eq": wrapper_key(aa, ka) == wrapper_key(ab, kb)}
    try:
        gra, grb = G.ser(tuple([aa, ka])), G.ser(tuple([ab, kb]))
        out["ga"], out["gb"] = gra, grb
    except G.Unmodelled as e:
        out["unmodelled"] = str(e)
    try:
        ca = grid.make_operator_no_bc(opa, **kwa)
        cb = grid.make_operator_no_bc(opb, **kwb)
        out["shared"] = ca is cb
        fa = fresh_make(grid, *aa, **ka)
        fb = fresh_make(grid, *ab, **kb)
    except Exception as e:
        out["error"] = exc_class(e)
        return out
    from pde import get_backend
    nb = get_backend("numba")
    ia, ib = nb.get_operator_info(grid, opa), nb.get_operator_info(grid, opb)

    def run(func, info):
        full = rnd_data(case["seed"], (grid.dim,) * info.rank_in + grid._shape_full)
        o = np.zeros((grid.dim,) * info.rank_out + grid.shape)
        func(full, o)
        return o
    try:
        ra, rb, rc = run(fa, ia), run(fb, ib), run(cb, ib)
    except Exception as e:
        out["error"] = "apply:" + exc_class(e)
        return out
    out["sem_eq"] = arr_close(ra, rb)
    out["cached_ok"] = arr_close(rc, rb)
    if not out["cached_ok"]:
        out["observed"], out["expected"] = lst(rc), lst(rb)
    out["nonzero"] = bool(np.any(rb != 0))
    return out


def real_deco(case):
    """toy class through the real decorator; returns for every call the index of the compute whose result it got"""
    from pde.tools.cache import cached_method, DictFiniteCapacity
    from harness.common import pygraph as G
    cap, ignore, extra = case["cap"], case["ignore"], case["extra"]
    counter = [0]
    kwd = {}
    if ignore:
        kwd["ignore_args"] = ignore
    if extra:
        kwd["extra_args"] = extra
    if cap is not None:
        kwd["factory"] = "get_cache"

    class Toy:
        scale = 1
        mode = "m"

        def get_cache(self, name):
            return DictFiniteCapacity(capacity=cap)

        @cached_method(**kwd)
        def f(self, *args, **kwargs):
            return counter[0]

        @cached_method(**kwd)
        def g(self, *args, **kwargs):
            return counter[0]

    t = Toy()
    answers, events = [], []
    for i, e in enumerate(case["events"]):
        counter[0] = i
        if e["ev"] == "drop":
            t.__dict__.pop("_cache_methods", None)
            events.append({"ev": "drop"})
        elif e["ev"] == "set":
            setattr(t, e["attr"], dec(e["value"]))
            events.append({"ev": "nop"})
        else:
            args = tuple(dec(x) for x in e["args"])
            kw = {k: dec(v) for k, v in e["kwargs"]}
            answers.append(getattr(t, e["name"])(*args, **kw))
            events.append({"ev": "call", "name": e["name"], "args": [G.ser(x) for x in args],
                           "kwargs": [[k, G.ser(v)] for k, v in kw.items()],
                           "extra": [G.ser(getattr(t, a)) for a in extra]})
    return {"answers": answers, "events": events}


def real_proc(case):
    """several instances of a toy class through the real decorator; for every call the index of the compute whose result
    it got (every instance has its own `_cache_methods`)"""
    from pde.tools.cache import cached_method, DictFiniteCapacity
    from harness.common import pygraph as G
    cap, ignore, extra = case["cap"], case["ignore"], case["extra"]
    counter = [0]
    kwd = {}
    if ignore:
        kwd["ignore_args"] = ignore
    if extra:
        kwd["extra_args"] = extra
    if cap is not None:
        kwd["factory"] = "get_cache"

    class Toy:
        def __init__(self):
            self.scale = 1
            self.mode = "m"

        def get_cache(self, name):
            return DictFiniteCapacity(capacity=cap)

        @cached_method(**kwd)
        def f(self, *args, **kwargs):
            return counter[0]

        @cached_method(**kwd)
        def g(self, *args, **kwargs):
            return counter[0]

    ts = [Toy() for _ in range(case["nobj"])]
    answers, events = [], []
    for i, e in enumerate(case["events"]):
        counter[0] = i
        if e["ev"] == "drop":
            ts[e["obj"]].__dict__.pop("_cache_methods", None)
            events.append({"ev": "drop", "obj": e["obj"]})
        elif e["ev"] == "set":
            for t in ts:
                setattr(t, e["attr"], dec(e["value"]))
            events.append({"ev": "nop"})
        else:
            t = ts[e["obj"]]
            args = tuple(dec(x) for x in e["args"])
            kw = {k: dec(v) for k, v in e["kwargs"]}
            answers.append(getattr(t, e["name"])(*args, **kw))
            events.append({"ev": "call", "obj": e["obj"], "name": e["name"], "args": [G.ser(x) for x in args],
                           "kwargs": [[k, G.ser(v)] for k, v in kw.items()],
                           "extra": [G.ser(getattr(t, a)) for a in extra]})
    return {"answers": answers, "events": events}


def pdeslot_state(spec, k):
    import numpy as np
    from pde import ScalarField, UnitGrid, CartesianGrid
    kind, n = spec["grid"]
    grid = {"unit": lambda: UnitGrid([n]), "unitp": lambda: UnitGrid([n], periodic=True),
            "cart": lambda: CartesianGrid([[0, n]], n)}[kind]()
    data = np.cos(1.0 + k + np.arange(n)) + (1j * np.sin(np.arange(n) + k) if spec.get("dtype") == "complex" else 0)
    return ScalarField(grid, data, label=spec.get("label"), dtype=complex if spec.get("dtype") == "complex" else None)


def pdeslot_call(eq, e, st):
    import numpy as np
    if e["via"] == "rate":
        return np.array(eq.evolution_rate(st.copy(), 0.5).data)
    if e["via"] == "rhs":
        return np.array(eq.make_pde_rhs(st.copy(), backend=e["backend"])(st.data.copy(), 0.5))
    return np.array(eq.solve(st.copy(), t_range=0.02, dt=0.01, backend=e["backend"], tracker=None, solver="euler").data)


def real_pdeslot(case):
    """real PDE objects: which request prepared the slot of `PDE._cache` a request used (a token is left in the slot
    dictionary the first time it is seen), the equivalence class of the state attributes under the real `==`, and the
    monitor: every result equals the result of the same request to a NEW PDE object"""
    import numpy as np
    from pde import PDE
    eqs = [PDE({"c": x}) for x in case["exprs"]]
    states = [pdeslot_state(sp, k) for k, sp in enumerate(case["states"])]
    classes, answers, events, bad = [], [], [], []
    for i, e in enumerate(case["events"]):
        if e["ev"] == "drop":
            eqs[e["obj"]]._cache = {}
            events.append({"ev": "drop", "obj": e["obj"]})
            continue
        st, eq = states[e["state"]], eqs[e["obj"]]
        attrs = st.attributes
        for ci, a in enumerate(classes):
            if a == attrs:
                break
        else:
            classes.append(attrs)
            ci = len(classes) - 1
        res = pdeslot_call(eq, e, st)
        answers.append(eq._cache[e["backend"]].setdefault("_verif_prepared_by", i))
        events.append({"ev": "call", "obj": e["obj"], "name": e["backend"], "cls": ci})
        ref = pdeslot_call(PDE({"c": case["exprs"][e["obj"]]}), e, st)
        if res.shape != ref.shape or res.dtype != ref.dtype or not np.all(np.abs(res - ref) <= 1e-12 * (1 + np.abs(ref))):
            bad.append({"event": i, "observed": repr(res.tolist())[:300], "new_pde_object": repr(ref.tolist())[:300]})
    return {"answers": answers, "events": events, "bad": bad}


def pair_worker(case):
    return pair_worker_inner(case)


def pair_worker_forked(case):
    """one case in a forked child: a crash of the real code is a result ('CRASH:...').  Forking per case costs about
    0.3 s CPU: used only after a worker process died (`run_resilient`) and for replays."""
    import pde  # noqa: F401
    return forked_call(pair_worker_inner, case)


def run_resilient(func, cases, env):
    """`run_many`; if an interpreter dies, once more with every case in a forked child, so that the death becomes the
    result of the case that caused it"""
    from harness.common.lean import BrokenCheck
    try:
        return run_many("harness.c04", func, cases, env=env, procs=16)
    except BrokenCheck:
        return run_many("harness.c04", func + "_forked", cases, env=env, procs=16)


def pair_worker_inner(case):
    quiet()
    k = case["kind"]
    if k == "req":
        return real_req_pair(case)
    if k == "leaf":
        return real_leaf_pair(case)
    if k == "interp":
        return real_interp_pair(case)
    if k == "nobc":
        return real_nobc_pair(case)
    if k == "deco":
        return real_deco(case)
    if k == "proc":
        return real_proc(case)
    if k == "pdeslot":
        return real_pdeslot(case)
    if k in ("bcobj", "gridobj"):
        return real_obj_pair(case)
    raise ValueError(k)


# ==========================================================================================
# PAIRS: main-process side
GENERIC_KEY = {"symptom": "cached result differs from a fresh computation"}


def classify(model):
    """which repaired defect explains a sharing that the current model derivation excludes"""
    if model and not model.get("cur"):
        if model.get("oldF1"):
            return KEY_F1
        if model.get("oldD"):
            return KEY_GRID
        if model.get("oldA"):
            return KEY_NEG
        if model.get("oldB"):
            return KEY_ARR
    return None


def slim(case):
    return {k: v for k, v in case.items() if k != "seed"} | ({"seed": case["seed"]} if "seed" in case else {})


def run_pairs(ctx, batch):
    rng = ctx.rng
    n_req = ctx.budget(1400, 12000)
    n_leaf = ctx.budget(900, 6000)
    n_interp = ctx.budget(500, 4000)
    n_nobc = ctx.budget(250, 2000)
    n_deco = ctx.budget(300, 3000)
    n_obj = ctx.budget(700, 6000)
    cases = [gen_obj_pair(rng, ctx.hist) for _ in range(n_obj)]
    cases += [gen_req_pair(rng, ctx.hist) for _ in range(n_req)]
    cases += [gen_leaf_pair(rng, ctx.hist) for _ in range(n_leaf)]
    cases += [gen_interp_pair(rng, ctx.hist) for _ in range(n_interp)]
    cases += [gen_nobc_pair(rng, ctx.hist) for _ in range(n_nobc)]
    cases += [gen_deco_case(rng, ctx.hist) for _ in range(n_deco)]
    cases += [gen_proc_case(rng, ctx.hist) for _ in range(ctx.budget(200, 2000))]
    cases += [gen_pdeslot_case(rng, ctx.hist) for _ in range(ctx.budget(120, 1200))] + fixed_pdeslot()
    # regression pairs that must always be present
    cases += fixed_pairs()
    order = list(range(len(cases)))
    rng.shuffle(order)  # balance the worker chunks
    shuffled = [cases[i] for i in order]
    res_sh = run_resilient("pair_worker", shuffled, {"NUMBA_DISABLE_JIT": "1"})
    results = [None] * len(cases)
    for i, r in zip(order, res_sh):
        results[i] = r
    pending = []
    for case, res in zip(cases, results):
        k = case["kind"]
        req = None
        if isinstance(res, str):
            # an exception nobody expected inside the worker: the tie for this case is broken, the others are still judged
            pending.append((case, {"worker_exc": res if res.startswith("CRASH") else res[-600:]}, None, None))
            continue
        if k == "deco":
            req = batch.add("c04.replay_cache", {"cap": case["cap"], "ignore": {"f": case["ignore"], "g": case["ignore"]},
                                                 "events": res["events"]})
        elif k == "proc":
            req = batch.add("c04.replay_proc", {"cap": case["cap"], "ignore": {"f": case["ignore"], "g": case["ignore"]},
                                                "events": res["events"]})
        elif k == "pdeslot":
            req = batch.add("c04.replay_proc", {"slot": True, "events": res["events"]})
        elif "ga" in res:
            if k in ("req", "bcobj", "gridobj") and res.get("sa") and res.get("sb"):
                req = batch.add("c04.speceq", {"kind": {"req": "req", "bcobj": "bc", "gridobj": "grid"}[k], "a": res["sa"], "b": res["sb"],
                                               "ga": res["ga"], "gb": res["gb"]})
            else:
                req = batch.add("c04.keyeq", {"a": res["ga"], "b": res["gb"]})
        lh = None
        if k == "leaf" and "ga" in res and (res.get("ha") is not None or res.get("hb") is not None):
            lh = batch.add("c04.leafhash", {"objs": [res["ga"], res["gb"]]})
        pending.append((case, res, req, lh))
    return pending


def fixed_pairs():
    """the known collisions, always part of the run (regression legs)"""
    g = {"cls": "UnitGrid", "shape": [8], "bounds": [[0.0, 8.0]], "periodic": [False]}

    def req(bc_lo, bc_hi=None, op="laplace", rank=0):
        return {"grid": copy.deepcopy(g), "op": op, "rank": rank,
                "bc": {"x-": bc_lo, "x+": bc_hi or copy.deepcopy(bc_lo)}, "dtype": ["none"], "kwargs": [], "korder": 0}
    out = []
    # F1: value 0 vs derivative 0
    out.append({"kind": "req", "a": req({"type": "value", "value": ["i", 0]}), "b": req({"type": "derivative", "value": ["i", 0]}),
                "variants": ["class"], "seed": 1})
    out.append({"kind": "req", "a": req({"type": "value", "value": ["f", 1.5]}), "b": req({"type": "curvature", "value": ["f", 1.5]}),
                "variants": ["class"], "seed": 2})
    out.append({"kind": "req", "a": req({"type": "value", "value": ["f", 1.0]}, op="divergence", rank=1),
                "b": req({"type": "normal_value", "value": ["f", 1.0]}, op="divergence", rank=1), "variants": ["normal"], "seed": 3})
    # every ordered pair of condition classes with equal data (rank 0: laplace; rank 1 incl. the normal classes: divergence)
    k0 = ["value", "derivative", "mixed", "curvature"]
    k1 = k0 + ["normal_" + k for k in k0]
    n = 10
    for kinds, op, rank in ((k0, "laplace", 0), (k1, "divergence", 1)):
        for ka in kinds:
            for kb in kinds:
                if ka == kb:
                    continue
                mk = lambda k: dict({"type": k, "value": ["f", 1.0]}, **({"const": ["f", 1.0]} if k.endswith("mixed") else {}))
                n += 1
                out.append({"kind": "req", "a": req(mk(ka), op=op, rank=rank), "b": req(mk(kb), op=op, rank=rank),
                            "variants": ["class-matrix"], "seed": n})
    # H: `normal_*` classes with the operators that also read the other components' ghost cells (2d): class confusion
    # among the normal classes and between a normal class and its plain counterpart, judged on the determined cells
    g2 = {"cls": "UnitGrid", "shape": [4, 3], "bounds": [[0.0, 4.0], [0.0, 3.0]], "periodic": [False, False]}
    for op in ("vector_laplace", "vector_gradient"):
        for ka, kb in (("normal_value", "normal_derivative"), ("normal_derivative", "normal_value"), ("value", "normal_value"),
                       ("normal_value", "value"), ("normal_curvature", "normal_value"), ("normal_mixed", "normal_derivative")):
            mk = lambda k: dict({"type": k, "value": ["f", 1.0]}, **({"const": ["f", 1.0]} if k.endswith("mixed") else {}))
            n += 1
            ra, rb = req(mk(ka), op=op, rank=1), req(mk(kb), op=op, rank=1)
            for r, k in ((ra, ka), (rb, kb)):
                r["grid"] = copy.deepcopy(g2)
                r["bc"] = {"x-": mk(k), "x+": mk(k), "y-": {"type": "value", "value": ["f", 0.5]}, "y+": {"type": "derivative", "value": ["f", 0.0]}}
            out.append({"kind": "req", "a": ra, "b": rb, "variants": ["class-matrix-normal-2d"], "seed": n})
    # B: equal bytes, different dtype
    out.append({"kind": "req", "a": req({"type": "value", "value": ["i", 1]}), "b": req({"type": "value", "value": ["f", 5e-324]}),
                "variants": ["same_bytes"], "seed": 4})
    # A: -1 vs -2 as a numeric keyword
    for fa, fb in ((["i", -1], ["i", -2]), (["i", -2], ["i", -1]), (["f", -1.0], ["f", -2.0]), (["f", 0.5], ["i", 1 << 60])):
        out.append({"kind": "interp", "grid": copy.deepcopy(g), "rank": 0, "a": [["fill", fa]], "b": [["fill", fb]], "seed": 5})
    # D: grid bounds -1 vs -2
    g1 = {"cls": "CartesianGrid", "shape": [4], "bounds": [[-1.0, 1.0]], "periodic": [False]}
    g2 = {"cls": "CartesianGrid", "shape": [4], "bounds": [[-2.0, 1.0]], "periodic": [False]}
    ra, rb = req({"type": "value", "value": ["i", 0]}), req({"type": "value", "value": ["i", 0]})
    ra["grid"], rb["grid"] = g1, g2
    out.append({"kind": "req", "a": ra, "b": rb, "variants": ["bounds_hash"], "seed": 6})
    out.append({"kind": "leaf", "a": ["i", -1], "b": ["i", -2]})
    out.append({"kind": "leaf", "a": ["arr", "int64", 1], "b": ["arr", "float64", 5e-324]})
    return out


def fixed_pdeslot():
    """always present: equal attributes share the slot, another grid / dtype / label evicts it, the other backend and the
    other PDE object have their own"""
    st = [{"grid": ["unit", 4]}, {"grid": ["unit", 4]}, {"grid": ["unit", 5]}, {"grid": ["unit", 4], "dtype": "complex"}]
    c = lambda o, via, b, s_: {"ev": "call", "obj": o, "via": via, "backend": b, "state": s_}
    return [{"kind": "pdeslot", "exprs": ["laplace(c) - c", "-2 * c"], "states": st,
             "events": [c(0, "rate", "numpy", 0), c(0, "rhs", "numpy", 1), c(0, "solve", "numba", 0), c(1, "solve", "numpy", 0),
                        c(0, "solve", "numpy", 2), c(0, "rate", "numpy", 0), c(0, "rhs", "numba", 1), c(0, "rhs", "numba", 3),
                        {"ev": "drop", "obj": 1}, c(1, "rate", "numpy", 0), c(0, "solve", "numba", 3)]}]


def judge_pairs(ctx, pending, answers):
    for case, res, req, lh in pending:
        k = case["kind"]
        leg = f"pairs:{k}"
        cj = slim(case)
        if "worker_exc" in res:
            ctx.count(cj, nontrivial=False, leg=leg + ":worker-exception")
            died(ctx, leg, cj, res["worker_exc"], k)
            continue
        if k == "deco":
            ctx.count(cj, nontrivial=len(set(res["answers"])) < len(res["answers"]), leg=leg)
            ctx.impl_traces += 1
            st, val = answers[req]
            if st != "ok" or list(val) != list(res["answers"]):
                ctx.disagree("decorator", cj, val, res["answers"], "hit/miss pattern of _class_cache vs runEvents")
            continue
        if k in ("proc", "pdeslot"):
            ctx.count(cj, nontrivial=len(set(res["answers"])) < len(res["answers"]) and len(set(res["answers"])) > 1, leg=leg)
            ctx.impl_traces += 1
            st, val = answers[req]
            if st != "ok" or list(val) != list(res["answers"]):
                ctx.disagree("process" if k == "proc" else "pde-slot", cj, val, res["answers"],
                             "which compute every call returns: the real caches of several objects vs procRun"
                             if k == "proc" else "which request prepared the slot of PDE._cache every request used vs procRun (one slot per backend)")
            if k == "pdeslot":
                ctx.monitor_evals += len(res["answers"])
                for b in res["bad"]:
                    ctx.monitor_fail(leg, cj, dict(b, symptom="pdeslot_differs"), {"same_as_new_pde_object": True},
                                     "a request to a PDE object that was asked before differs from the same request to a new PDE object",
                                     key=dict(GENERIC_KEY, call_site="PDE._prepare_cache"))
            continue
        if "hash_eq" not in res:
            ctx.hist("malformed", res.get("error", "?"))
            ctx.count(cj, nontrivial=False, leg=leg + ":malformed")
            continue
        differ = json.dumps(case["a"], sort_keys=True) != json.dumps(case["b"], sort_keys=True)
        ok_built = "error" not in res
        ctx.count(cj, nontrivial=bool(differ and ok_built and res.get("nonzero", True)), leg=leg)
        ctx.hist(f"{k}:relation", f"hash_eq={res['hash_eq']} sem_eq={res.get('sem_eq', res.get('py_eq'))}")
        model = None
        if req is not None:
            st, val = answers[req]
            ctx.impl_traces += 1
            if st != "ok":
                ctx.disagree("key-relation", cj, f"model error {val}", res["hash_eq"])
            else:
                model = val
                if val["cur"] != res["hash_eq"]:
                    ctx.disagree("key-relation", cj, {"model_key_equal": val}, {"hash_mutable_equal": res["hash_eq"]},
                                 "key equality in the model vs hash_mutable equality on the real objects")
                for m in ("match_a", "match_b"):
                    if m in val and not val[m]:
                        ctx.disagree("spec-graph", cj, m, "graph built by the model from the attribute specification has "
                                     "another key than the serialised real object", "")
        elif "unmodelled" in res:
            ctx.hist("unmodelled", res["unmodelled"][:60])
        if lh is not None:
            st, val = answers[lh]
            for tag, mv in zip(("ha", "hb"), val if st == "ok" else [None, None]):
                if res.get(tag) is not None and mv is not None and mv != res[tag]:
                    ctx.disagree("builtin-hash", cj, {"model_hash": mv}, {"hash": res[tag]}, tag)
        if "shared" in res and res["shared"] != res["hash_eq"]:
            ctx.disagree("wrapper", cj, {"key_equal": res["hash_eq"]}, {"cached_objects_identical": res["shared"]},
                         "the cached method shares/does not share although the wrapper key says otherwise")
        if k == "gridobj" and ok_built:
            ctx.hist("gridobj:eq", f"==:{res.get('grid_eq')} same-geometry:{res.get('geom_eq')}")
            if res.get("grid_eq") and not res.get("geom_eq"):
                ctx.disagree("grid-eq-faithful", cj, {"same_geometry": False}, {"a == b": True},
                             "grids of different geometry compare equal (grid equality validates PDE._cache)")
        if k in ("bcobj", "gridobj") and ok_built and res["hash_eq"] and not res["sem_eq"]:
            # not by itself a violation (no cached method is keyed by a single condition or grid), but the key is
            # not faithful on these objects: reported as a broken tie unless the model agrees
            if model is not None and not model["cur"]:
                pass  # already reported as a key-relation disagreement
            else:
                ctx.disagree("object-key-faithful", cj, {"key_equal": True}, {"denote_same_function": False},
                             "equal keys for objects that denote different functions")
        call_site = {"req": "NumbaBackend.make_operator", "interp": "DataFieldBase.make_interpolator",
                     "nobc": "GridBase.make_operator_no_bc"}.get(k, k)
        if k in ("leaf", "bcobj", "gridobj") or not ok_built:
            if not ok_built:
                ctx.hist("malformed", res["error"][:40])
                if res.get("one_sided"):
                    # the cached call and the uncached call of the same request do not fail alike
                    ctx.monitor_evals += 1
                    ctx.monitor_fail(leg, cj, {"symptom": "one_sided_exception", "outcomes": res["one_sided"]},
                                     {"cached_and_fresh_calls_fail_alike": True}, f"{k}: exception on one side only",
                                     key={"call_site": call_site, "symptom": "exception in the cached or the fresh call only"})
            continue
        # the property on this pair: after the cached call for a, the cached call for b is a fresh b
        ctx.monitor_evals += 1
        shared = res.get("shared", res["hash_eq"])
        bad = None
        if not res["cached_ok"]:
            bad = ("cached_differs", "the cached call returns something else than a freshly built one after the other request was served")
        elif shared and not res["sem_eq"]:
            bad = ("shared_different_sem", "two requests that denote different functions share one cached implementation")
        if bad:
            key = classify(model) or dict(GENERIC_KEY, call_site=call_site)
            ctx.monitor_fail(leg, cj, {"symptom": bad[0], "problem": bad[1], "result_of_second_request": res.get("observed"), "shared_object": shared},
                             {"fresh": res.get("expected")}, f"{k}: {key.get('symptom')}", key=key)
        if k == "req":
            ctx.hist("req:undefined-cells", "some" if any(res.get("undefined_cells", [0, 0])) else "none")
            # ... and the same request on the same data does not depend on earlier allocations
            ctx.monitor_evals += 1
            hd = res.get("heap_dep")
            if hd:
                key = KEY_UNINIT if hd["only_in_cells_no_condition_determines"] and has_normal(case["b"]["bc"]) else \
                    dict(call_site=call_site, symptom="result depends on the contents of freed memory")
                ctx.monitor_fail(leg, dict(cj, a=cj["b"], variants=["heap"]), dict(hd, symptom="heap_dependence"),
                                 {"same_result_after_any_allocation_history": True}, f"{k}: {key['symptom']}", key=key)
            # ... nor does `field.apply_operator` of a field created from the same data
            ctx.monitor_evals += 1
            if res.get("field_error"):
                ctx.hist("req:field-apply-error", res["field_error"])
            hf = res.get("heap_dep_field")
            if hf:
                key = KEY_UNINIT_FIELD if hf["only_in_cells_no_condition_determines"] and has_normal(case["b"]["bc"]) else \
                    dict(call_site="DataFieldBase.apply_operator", symptom="result depends on the contents of freed memory")
                ctx.monitor_fail(leg, dict(cj, a=cj["b"], variants=["heap-field"]), dict(hf, symptom="heap_dependence_field"),
                                 {"same_result_after_any_allocation_history": True}, f"{k}: field.apply_operator: {key['symptom']}", key=key)


# ==========================================================================================
# CUSTOM OPERATORS and the registry (`BackendBase.register_operator`, the documented way to add an operator; the test
# suite registers with `backend.register_operator(grids.UnitGrid, "undefined", make_op)` and removes the entry with
# `del backend._operators[grids.UnitGrid]["undefined"]`)
def make_custom_factory(spec):
    """factory of a custom operator scalar -> scalar on grids with one or two axes.  Every call returns a NEW factory
    (function object), also for an equal specification.  kinds: `scale` f*c; `nbsum` f*(c[i+1]+c[i-1])+c along the first
    axis (reads ghost cells: depends on the boundary condition); `diff` f*(c[i+1]-c[i-1]) along the last axis"""
    kind, f = spec["kind"], float(spec["f"])

    def factory(grid, **kwargs):
        two = grid.num_axes == 2
        if grid.num_axes > 2:
            raise NotImplementedError("custom test operator: at most two axes")
        if kind == "scale":
            if two:
                def op(arr, out):
                    out[:] = f * arr[1:-1, 1:-1]
            else:
                def op(arr, out):
                    out[:] = f * arr[1:-1]
        elif kind == "nbsum":
            if two:
                def op(arr, out):
                    out[:] = f * (arr[2:, 1:-1] + arr[:-2, 1:-1]) + arr[1:-1, 1:-1]
            else:
                def op(arr, out):
                    out[:] = f * (arr[2:] + arr[:-2]) + arr[1:-1]
        elif kind == "diff":
            if two:
                def op(arr, out):
                    out[:] = f * (arr[1:-1, 2:] - arr[1:-1, :-2])
            else:
                def op(arr, out):
                    out[:] = f * (arr[2:] - arr[:-2])
        else:
            raise ValueError(kind)
        return op
    return factory


def backend_class(name):
    from pde.backends.numba.backend import NumbaBackend
    from pde.backends.numpy.backend import NumpyBackend
    from pde.backends.scipy.backend import ScipyBackend
    return {"numba": NumbaBackend, "numpy": NumpyBackend, "scipy": ScipyBackend}[name]


def grid_class(name):
    import pde
    from pde.grids.base import GridBase
    return GridBase if name == "GridBase" else getattr(pde, name)


GRID_PARENT = {"UnitGrid": "CartesianGrid", "CartesianGrid": "GridBase", "PolarSymGrid": "GridBase", "SphericalSymGrid": "GridBase",
               "CylindricalSymGrid": "GridBase"}
_MISSING = object()


def registry_set(env, op):
    """`register` / `unregister` one slot (backend class, grid class, name); the entry found at the first touch is kept
    for `registry_restore`"""
    bcls, gcls, name = backend_class(op["backend"]), grid_class(op["grid_cls"]), op["name"]
    table = bcls._operators[gcls]
    env.setdefault("reg_saved", {}).setdefault((bcls, gcls, name), table.get(name, _MISSING))
    if op["op"] == "unregister":
        del table[name]  # KeyError if nothing is registered: a setup error of the history
        return
    facs = env.setdefault("factories", {})
    if op["fid"] not in facs:
        facs[op["fid"]] = make_custom_factory(op["factory"])  # the same fid later in the history: the same function OBJECT
    bcls.register_operator(gcls, name, facs[op["fid"]], rank_in=0, rank_out=0)


def registry_restore(env):
    """leave the registry as it was found (histories stay independent also where several run in one interpreter)"""
    for (bcls, gcls, name), orig in env.get("reg_saved", {}).items():
        if orig is _MISSING:
            bcls._operators[gcls].pop(name, None)
        else:
            bcls._operators[gcls][name] = orig
    env["reg_saved"] = {}


def superseded_registry_ops(ops):
    """indices of `register`/`unregister` operations that a fresh process does not perform: the fresh process performs
    only the LAST registration of every slot (nothing at all if the slot's last operation removes the entry)"""
    last = {}
    for i, o in enumerate(ops):
        if o["op"] in ("register", "unregister"):
            last[(o["backend"], o["grid_cls"], o["name"])] = i
    skip = set()
    for i, o in enumerate(ops):
        if o["op"] in ("register", "unregister"):
            if last[(o["backend"], o["grid_cls"], o["name"])] != i or o["op"] == "unregister":
                skip.add(i)
    return skip


def bc_arg(bc):
    return dec_bc(bc) if isinstance(bc, dict) else bc


# ==========================================================================================
# HISTORIES
QUERY_OPS = {"make_operator", "ghost_setter", "interpolate", "field_op", "rate", "rhs", "solve", "diffusion", "nobc", "evaluate", "backend_op"}


def uf_f(c):
    return -0.5 * c


def uf_g(c):
    return c * c + 1.0


USER_FUNCS = {"f": uf_f, "g": uf_g}


def snapshot(obj):
    """what a caller can see of an argument object (dict of functions / numbers / fields / nested dicts)"""
    if isinstance(obj, dict):
        return {str(k): snapshot(v) for k, v in obj.items()}
    if isinstance(obj, (list, tuple)):
        return [snapshot(v) for v in obj]
    if callable(obj):
        return "callable:" + getattr(obj, "__qualname__", type(obj).__name__)
    if isinstance(obj, np.ndarray):
        return "ndarray:" + repr(obj.tolist())
    if hasattr(obj, "grid") and hasattr(obj, "data"):
        return "field:" + type(obj).__name__
    return type(obj).__name__ + ":" + repr(obj)


def mutated_args(env):
    """names of the caller's argument objects that py-pde changed.  One change is documented and tolerated:
    `set_default_bc` adds the default `'*': 'auto_periodic_neumann'` to a boundary dictionary given per axis."""
    out = []
    for name, (what, snap) in env.get("shared_snap", {}).items():
        now = snapshot(env["shared"][name])
        if what == "bc" and "*" not in snap and now.get("*") == "str:'auto_periodic_neumann'":
            now = {k: v for k, v in now.items() if k != "*"}
        if now != snap:
            out.append({"object": name, "kind": what, "before": snap, "after": now})
    return out


def _field(env, name):
    return env["fields"][name] if name in env["fields"] else env["colls"][name]


def exec_op(env, op):
    """perform one operation; query operations return a JSON-able result"""
    import pde
    from pde import get_backend
    k = op["op"]
    if k == "field":
        grid = env["grids"][op["grid"]]
        cls = [pde.ScalarField, pde.VectorField][op["rank"]]
        data = rnd_data(op["seed"], (grid.dim,) * op["rank"] + grid.shape, cplx=op.get("complex", False))
        env["fields"][op["name"]] = cls(grid, data, dtype=complex if op.get("complex") else None)
        return None
    if k == "write":
        f = env["fields"][op["field"]]
        f.data[...] = rnd_data(op["seed"], f.data.shape)
        return None
    if k == "collection":
        env["colls"][op["name"]] = pde.FieldCollection([env["fields"][n] for n in op["fields"]], copy_fields=op.get("copy", False))
        return None
    if k == "assign_full":
        f = env["fields"][op["field"]]
        f._data_full = rnd_data(op["seed"], f._data_full.shape)
        return None
    if k == "shared":
        # an argument OBJECT of the caller that several later requests are given (the same dict object every time)
        if op["what"] == "user_funcs":
            obj = {n: USER_FUNCS[n] for n in op["value"]}
        elif op["what"] == "consts":
            obj = {n: (env["fields"][v[1]] if v[0] == "field" else dec(v)) for n, v in op["value"].items()}
        elif op["what"] == "bc":
            obj = dec_bc(op["value"])
        else:
            raise ValueError(op["what"])
        env.setdefault("shared", {})[op["name"]] = obj
        env.setdefault("shared_snap", {})[op["name"]] = (op["what"], snapshot(obj))
        return None
    if k in ("register", "unregister"):
        registry_set(env, op)
        return None
    if k == "pde":
        consts = {}
        for name, v in op.get("consts", {}).items():
            consts[name] = env["fields"][v[1]] if v[0] == "field" else dec(v)
        if op.get("consts_shared"):
            consts = env["shared"][op["consts_shared"]]
        uf = op.get("user_funcs")
        user_funcs = env["shared"][uf] if isinstance(uf, str) else {n: USER_FUNCS[n] for n in uf} if uf else None
        bc = env["shared"][op["bc_shared"]] if op.get("bc_shared") else dec_bc(op["bc"]) if isinstance(op["bc"], dict) else op["bc"]
        bc_ops = {kk: bc_arg(v) for kk, v in op["bc_ops"]} if op.get("bc_ops") is not None else None
        env["pdes"][op["name"]] = pde.PDE(op["rhs"], bc=bc, bc_ops=bc_ops, consts=consts, user_funcs=user_funcs)
        return None
    # ---- queries ----
    if k == "make_operator":
        grid = env["grids"][op["grid"]]
        info = get_backend("numba").get_operator_info(grid, op["operator"])
        kw = {kk: dec(v) for kk, v in op.get("kwargs", [])}
        fn = grid.make_operator(op["operator"], bc_arg(op["bc"]), backend=op["backend"], dtype=dec(op.get("dtype", ["none"])), **kw)
        outs = apply_op(fn, grid, info, op["seed"])
        if isinstance(op["bc"], dict) and has_normal(op["bc"]) and grid.dim > 1:
            # cells that neither the data nor the conditions determine are reported as 0 (judged by the pairs leg: KEY_UNINIT)
            m = defined_mask(grid, info, grid.get_boundary_conditions(dec_bc(op["bc"]), rank=info.rank_in), kw)
            outs = [np.where(m, x, 0.0) for x in outs]
        return [lst(x) for x in outs]
    if k == "backend_op":
        # the backend's own (cached) `make_operator`, called directly with the operator NAME (public signature
        # `make_operator(grid, operator: str | OperatorInfo, *, bcs, ...)`)
        grid = env["grids"][op["grid"]]
        backend = get_backend(op["backend"])
        bcs = grid.get_boundary_conditions(bc_arg(op["bc"]), rank=0)
        fn = backend.make_operator(grid, op["operator"], bcs=bcs)
        return [lst(np.array(fn(rnd_data(op["seed"] + j, grid.shape)))) for j in range(2)]
    if k == "nobc":
        grid = env["grids"][op["grid"]]
        fn = grid.make_operator_no_bc(op["operator"], backend=op["backend"], **{kk: dec(v) for kk, v in op.get("kwargs", [])})
        try:
            info = get_backend("numba").get_operator_info(grid, op["operator"])
            rank_in, rank_out = info.rank_in, info.rank_out
        except NotImplementedError:
            rank_in = rank_out = 0  # a name that is not registered (any more), for which the cached method still hands out something
        full = rnd_data(op["seed"], (grid.dim,) * rank_in + grid._shape_full)
        if type(grid).__name__ == "SphericalSymGrid" and rank_in == 1:
            full[1:] = 0
        o = np.zeros((grid.dim,) * rank_out + grid.shape)
        fn(full, o)
        return lst(o)
    if k == "ghost_setter":
        grid = env["grids"][op["grid"]]
        bcs = grid.get_boundary_conditions(dec_bc(op["bc"]), rank=op["rank"])
        setter = get_backend(op["backend"]).make_ghost_cell_setter(bcs)
        full = rnd_data(op["seed"], (grid.dim,) * op["rank"] + grid._shape_full)
        setter(full)
        # corner cells are not defined by the conditions: report faces only
        mask = np.zeros(grid._shape_full, dtype=bool)
        for ax in range(grid.num_axes):
            idx = [slice(1, -1)] * grid.num_axes
            for side in (0, -1):
                idx[ax] = side
                mask[tuple(idx)] = True
        return lst(np.where(mask, full, 0.0))
    if k == "interpolate":
        f = env["fields"][op["field"]]
        grid = f.grid
        lo = np.array([b[0] for b in grid.axes_bounds], dtype=float)
        hi = np.array([b[1] for b in grid.axes_bounds], dtype=float)
        r = np.random.default_rng(op["seed"])
        pts = [lo + (hi - lo) * r.random(len(lo)) for _ in range(2)]
        if op.get("outside"):
            pts += [hi + (hi - lo) * 0.75, lo - (hi - lo) * 2.5]
        kw = {"fill": dec(op.get("fill", ["none"]))}
        if op.get("bc") is not None:
            kw["bc"] = dec_bc(op["bc"])
        out = []
        for q in pts:
            try:
                out.append(lst(f.interpolate(np.array(q), **kw)))
            except Exception as e:
                out.append("EXC:" + exc_class(e))
        return out
    if k == "field_op":
        f = env["fields"][op["field"]]
        return lst(f.apply_operator(op["operator"], bc=bc_arg(op["bc"]), backend=op["backend"]).data)
    if k == "rate":
        eq = env["pdes"][op["pde"]]
        return lst(eq.evolution_rate(_field(env, op["state"]), op.get("t", 0.0)).data)
    if k == "rhs":
        eq = env["pdes"][op["pde"]]
        st = _field(env, op["state"])
        rhs = eq.make_pde_rhs(st, backend=op["backend"])
        return lst(rhs(st.data.copy(), op.get("t", 0.0)))
    if k == "solve":
        eq = env["pdes"][op["pde"]]
        st = _field(env, op["state"])
        res = eq.solve(st, t_range=op["t_range"], dt=op["dt"], tracker=None, backend=op["backend"], solver=op.get("solver", "euler"))
        return lst(res.data)
    if k == "evaluate":
        from pde.tools.expressions import evaluate
        uf = op.get("user_funcs")
        user_funcs = env["shared"][uf] if isinstance(uf, str) else {n: USER_FUNCS[n] for n in uf} if uf else None
        bc = env["shared"][op["bc_shared"]] if op.get("bc_shared") else dec_bc(op["bc"]) if isinstance(op["bc"], dict) else op["bc"]
        consts = env["shared"][op["consts_shared"]] if op.get("consts_shared") else None
        return lst(evaluate(op["expr"], {"c": env["fields"][op["state"]]}, bc=bc, user_funcs=user_funcs, consts=consts,
                            backend=op.get("backend", "numpy")).data)
    if k == "diffusion":
        st = _field(env, op["state"])
        eq = pde.DiffusionPDE(diffusivity=op["diffusivity"], bc=dec_bc(op["bc"]))
        if op.get("backend"):
            return lst(eq.make_pde_rhs(st, backend=op["backend"])(st.data.copy(), 0.0))
        return lst(eq.evolution_rate(st).data)
    raise ValueError(k)


def hist_exec(history, fresh):
    """run a history (fresh: skip every query except the last one); returns the last result"""
    quiet()
    env = {"grids": [make_grid(g) for g in history["grids"]], "fields": {}, "colls": {}, "pdes": {}}
    ops = history["ops"]
    last = len(ops) - 1
    result = None
    skip = superseded_registry_ops(ops) if fresh else set()
    try:
        for i, op in enumerate(ops):
            is_q = op["op"] in QUERY_OPS
            if (is_q and fresh and i != last) or i in skip:
                continue
            if is_q:
                try:
                    r = exec_op(env, op)
                except Exception as e:
                    r = "EXC:" + exc_class(e)
            else:
                try:
                    r = exec_op(env, op)
                except Exception as e:
                    return "SETUP-EXC:" + exc_class(e) + ":" + str(e)[:80]
            if i == last:
                result = r
    finally:
        registry_restore(env)
    mut = mutated_args(env)
    if mut:
        # py-pde wrote into an argument object of the caller: reported together with the result (never equal to a plain result)
        return {"ARG-MUTATED": mut, "result": result}
    return result


def warm_third_party():
    """first-use initialisation of third-party libraries (sympy's parser and code printer, numba's typed dictionary) in the
    process the fresh children are forked from: it costs 0.5 s per child otherwise and is no state of py-pde (no py-pde call
    is made; the subset run in really new interpreters validates this shortcut as well)"""
    try:
        import sympy
        from sympy.parsing import sympy_parser
        x = sympy.Symbol("x")
        sympy.lambdify([x], sympy_parser.parse_expr("f(x) + 2*x", evaluate=False).subs(sympy.Function("f")(x), x ** 2), modules="numpy")(1.0)
        from numba.typed import Dict as NumbaDict
        d = NumbaDict()
        d["t"] = 0.0
    except Exception:
        pass


def forked_call(fn, *args):
    """fn(*args) in a child forked from this process; 'CRASH:...' if the child dies or raises something that is not an
    Exception (a segfault of the real code must become a result, not the end of the check)"""
    r, w = os.pipe()
    pid = os.fork()
    if pid == 0:
        code = 0
        try:
            os.close(r)
            try:
                res = fn(*args)
            except Exception:
                res = "EXC: " + traceback.format_exc()[-1500:]
            except BaseException:
                res = "CRASH:" + traceback.format_exc()[-600:]
            with os.fdopen(w, "wb") as fh:
                pickle.dump(res, fh)
        except BaseException:
            code = 1
        finally:
            os._exit(code)
    os.close(w)
    with os.fdopen(r, "rb") as fh:
        data = fh.read()
    _, status = os.waitpid(pid, 0)
    if not data:
        return f"CRASH:no-output (wait status {status})"
    return pickle.loads(data)


def forked(history, fresh):
    """run in a child forked from this process (which must not have used py-pde yet)"""
    res = forked_call(hist_exec, history, fresh)
    if isinstance(res, str) and res.startswith("EXC: "):
        return "CRASH:" + res[-600:]  # hist_exec catches every Exception of the real code itself
    return res


def same_result(a, b, tol=1e-9):
    if isinstance(a, str) or isinstance(b, str):
        return a == b
    if isinstance(a, dict) and isinstance(b, dict) and set(a) == set(b) == {"re", "im"}:
        return same_result(a["re"], b["re"], tol) and same_result(a["im"], b["im"], tol)
    if isinstance(a, dict) or isinstance(b, dict):
        return False
    if isinstance(a, list) and isinstance(b, list) and any(isinstance(x, (str, dict)) for x in a + b):
        return len(a) == len(b) and all(same_result(x, y, tol) for x, y in zip(a, b))
    try:
        return arr_close(np.array(a, dtype=float), np.array(b, dtype=float), tol)
    except (ValueError, TypeError):
        if isinstance(a, list) and isinstance(b, list) and len(a) == len(b):
            return all(same_result(x, y, tol) for x, y in zip(a, b))
        return False


def _setup_exc(x):
    return isinstance(x, str) and x.startswith("SETUP-EXC")


def _crash(x):
    return isinstance(x, str) and x.startswith("CRASH")


def _exc_class_only(x):
    """'SETUP-EXC:Class:message' -> 'SETUP-EXC:Class' (messages may contain addresses)"""
    return ":".join(x.split(":")[:2]) if isinstance(x, str) and x.startswith("SETUP-EXC") else x


def _unwrap(x):
    return x["result"] if isinstance(x, dict) and "ARG-MUTATED" in x else x


def _mutated(x):
    return isinstance(x, dict) and "ARG-MUTATED" in x


def hist_value_same(full, fresh):
    return same_result(_exc_class_only(_unwrap(full)), _exc_class_only(_unwrap(fresh)))


def hist_same(full, fresh):
    """the property holds on this history: same value, and no argument object of the caller was written to"""
    return hist_value_same(full, fresh) and not _mutated(full) and not _mutated(fresh)


def hist_unjudged(full, fresh):
    """a history is not judged (malformed) only if a state-defining operation fails in the SAME way with and without the
    earlier queries, or if both runs crash; a crash or a setup error on one side only is a difference like any other"""
    if _setup_exc(fresh) and _setup_exc(full) and _exc_class_only(full) == _exc_class_only(fresh):
        return "setup:" + _exc_class_only(fresh)[10:]
    if _crash(full) and _crash(fresh):
        return "CRASH-both:" + str(full)[:60]
    return None


def hist_class(full, fresh):
    """None (holds) | 'unjudged' | 'one-sided' (crash / setup error on one side) | 'value' (the last result differs) |
    'mutation' (same value, but an argument object of the caller was written to)"""
    if hist_unjudged(full, fresh) is not None:
        return "unjudged"
    if hist_same(full, fresh):
        return None
    if _crash(full) or _crash(fresh) or _setup_exc(full) or _setup_exc(fresh):
        return "one-sided"
    return "value" if not hist_value_same(full, fresh) else "mutation"


def hist_worker(history):
    """history in one interpreter vs last call in a fresh one (both forked from this clean process);
    on a difference the history is shrunk (keeping the kind of the failure)"""
    import pde  # noqa: F401  (only imported - nothing of py-pde has been called in this process)
    warm_third_party()
    full = forked(history, False)
    fresh = forked(history, True)
    cls = hist_class(full, fresh)
    out = {"full": full, "fresh": fresh, "same": cls is None, "class": cls}
    if cls == "unjudged":
        out["malformed"] = hist_unjudged(full, fresh)[:120]
        out["same"] = True
        return out
    if cls == "one-sided":
        out["one_sided"] = True
    if cls is not None:
        # greedy shrinking: drop operations (never the last) while the same kind of failure persists
        h = copy.deepcopy(history)
        budget = 40
        changed = True
        while changed and budget > 0:
            changed = False
            for i in range(len(h["ops"]) - 2, -1, -1):
                if budget <= 0:
                    break
                cand = copy.deepcopy(h)
                del cand["ops"][i]
                budget -= 1
                f1, f2 = forked(cand, False), forked(cand, True)
                if hist_class(f1, f2) == cls:
                    h, changed = cand, True
                    out["full"], out["fresh"] = f1, f2
        out["shrunk"] = h
    return out


def hist_worker_noshrink(history):
    """as `hist_worker` but without the shrinking (replay)"""
    import pde  # noqa: F401
    full = forked(history, False)
    fresh = forked(history, True)
    cls = hist_class(full, fresh)
    out = {"full": full, "fresh": fresh, "same": cls is None, "class": cls}
    if cls == "unjudged":
        out["malformed"] = hist_unjudged(full, fresh)[:120]
    return out


def hist_exec_full(history):
    return hist_exec(history, False)


def hist_exec_fresh(history):
    return hist_exec(history, True)


# ---- history generator ------------------------------------------------------------------------
def related_grid(rng, gd):
    """a second grid that coincides with the first in some attributes"""
    g = copy.deepcopy(gd)
    r = rng.random()
    if r < 0.25:
        return g
    if r < 0.45 and g["cls"] in ("UnitGrid", "CartesianGrid"):
        if g["cls"] == "UnitGrid":
            g["cls"] = "CartesianGrid"
        else:
            ax = rng.randrange(len(g["shape"]))
            lo, hi = g["bounds"][ax]
            g["bounds"][ax] = rng.choice([[lo, lo + 2 * (hi - lo)], [-1.0, 1.0], [-2.0, 1.0], [lo - 1.0, hi - 1.0]])
        return g
    if r < 0.6:
        ax = rng.randrange(len(g["shape"]))
        g["shape"][ax] += 1
        if g["cls"] == "UnitGrid":
            g["bounds"][ax][1] += 1.0
        return g
    if r < 0.75 and g["cls"] in ("PolarSymGrid", "SphericalSymGrid"):
        g["cls"] = "SphericalSymGrid" if g["cls"] == "PolarSymGrid" else "PolarSymGrid"
        return g
    if r < 0.9 and g["cls"] in ("UnitGrid", "CartesianGrid"):
        ax = rng.randrange(len(g["shape"]))
        g["periodic"][ax] = not g["periodic"][ax]
        return g
    return gen_grid_small(rng)


def bc_for(rng, gd, rank, like=None):
    """boundary data for a grid; `like`: reuse the per-side conditions of another specification where possible"""
    spec = gen_bc(rng, gd, rank)
    if like:
        for k, v in like.items():
            if k in spec and isinstance(v, str) == isinstance(spec[k], str):
                if not isinstance(v, str) and any(v.get(f, ["f"])[0] == "arr" for f in ("value", "const")):
                    continue
                spec[k] = copy.deepcopy(v)
    return spec


def vary_bc(rng, gd, rank, bc):
    """a specification that coincides with `bc` in some attributes.  The collision variants (`neg12`, `int_float`,
    `same_bytes`, `signed_zero`) put the colliding partner INTO `bc` (in place: the operations of the history that were
    built from `bc` refer to this very dictionary), so the earlier request really carries -1 / the int / the int bits."""
    req = {"grid": copy.deepcopy(gd), "op": "laplace", "rank": rank, "bc": bc, "dtype": ["none"], "kwargs": [], "korder": 0}
    for _ in range(10):
        v = rng.choice(["same", "class", "swap_sides", "value_num", "neg12", "int_float", "same_bytes", "signed_zero", "const", "flip", "normal", "homog"])
        b = apply_variant(rng, req, v)
        if b is not None:
            return b["bc"], v
    return copy.deepcopy(bc), "same"


PDE_RHS = [{"c": "laplace(c)"}, {"c": "laplace(c) - c"}, {"c": "gradient_squared(c) + laplace(c)"}, {"c": "k * laplace(c)"},
           {"c": "laplace(c + k)"}, {"c": "k * c"}, {"c": "divergence(gradient(c))"}]


def gen_history(rng, hist, jit=False):
    gd0 = gen_grid_small(rng)
    if jit:
        while len(gd0["shape"]) > 1:
            gd0 = gen_grid_small(rng)
    grids = [gd0, related_grid(rng, gd0)]
    ops = []
    seed = lambda: rng.randrange(1 << 30)
    nf = rng.choice([1, 2, 2, 3])
    fields = []
    for i in range(nf):
        gi = 0 if i == 0 else rng.choice([0, 0, 1])
        ops.append({"op": "field", "name": f"f{i}", "grid": gi, "rank": 0, "seed": seed()})
        fields.append((f"f{i}", gi))
    theme = rng.choice(["operator", "operator", "ghost", "interp", "interp", "pde", "pde", "pde_const", "solve", "field_op", "nobc", "diffusion",
                        "pde_coll", "pde_shared", "pde_shared", "pde_grids", "pde_grids", "rereg", "rereg", "rereg"])
    if theme in ("interp", "pde", "pde_const") and not jit and rng.random() < 0.15:
        ops[0]["complex"] = True  # a complex-valued state/field (the dtype is part of `state.attributes` and of the operator keys)
    hist("history-theme", theme + ("/jit" if jit else ""))
    backends = ["numba", "numba", "scipy"] if not jit else ["numba"]

    def filler():
        """an unrelated or loosely related cache-touching operation"""
        gi = rng.choice([0, 1])
        gd = grids[gi]
        r = rng.random()
        if r < 0.35:
            opn, rank = rng.choice(ops_of(gd))
            return {"op": "make_operator", "grid": gi, "operator": opn, "bc": gen_bc(rng, gd, rank, opn), "backend": rng.choice(backends), "seed": seed()}
        if r < 0.5:
            rank = rng.choice([0, 1])
            return {"op": "ghost_setter", "grid": gi, "bc": gen_bc(rng, gd, rank), "rank": rank, "backend": rng.choice(["numba", "numpy"]), "seed": seed()}
        if r < 0.7:
            f = rng.choice(fields)[0]
            return {"op": "interpolate", "field": f, "seed": seed(), "fill": rng.choice(FILLS), "outside": rng.random() < 0.5}
        if r < 0.8:
            fs = rng.sample([f for f, g in fields if g == fields[0][1]], k=1)
            return {"op": "collection", "name": f"c{seed() % 1000}", "fields": fs, "copy": rng.random() < 0.3}
        if r < 0.9:
            return {"op": "write", "field": rng.choice(fields)[0], "seed": seed()}
        f, gi = rng.choice(fields)
        return {"op": "field_op", "field": f, "operator": "laplace", "bc": gen_bc(rng, grids[gi], 0), "backend": rng.choice(backends)}

    n_fill = rng.randint(0, 3) if not jit else rng.randint(0, 1)
    if theme in ("operator", "ghost", "nobc"):
        pair = gen_req_pair(rng, lambda *a: None)
        a, b = pair["a"], pair["b"]
        grids[0], grids[1] = a["grid"], b["grid"]
        ops = [o for o in ops if o["op"] != "field"]
        ops.append({"op": "field", "name": "f0", "grid": 0, "rank": 0, "seed": seed()})
        fields = [("f0", 0)]
        be = rng.choice(backends)

        def mk(r, gi):
            if theme == "operator":
                return {"op": "make_operator", "grid": gi, "operator": r["op"], "bc": r["bc"], "backend": be, "dtype": r["dtype"], "kwargs": r["kwargs"], "seed": pair["seed"]}
            if theme == "nobc":
                return {"op": "nobc", "grid": gi, "operator": r["op"], "backend": be, "kwargs": r["kwargs"], "seed": pair["seed"]}
            return {"op": "ghost_setter", "grid": gi, "bc": r["bc"], "rank": r["rank"], "backend": rng.choice(["numba", "numpy"]) if not jit else "numba", "seed": pair["seed"]}
        ops.append(mk(a, 0))
        ops += [filler() for _ in range(n_fill)]
        ops.append(mk(b, 1))
        hist("history-variant", "+".join(pair["variants"]))
    elif theme == "interp":
        f = fields[0][0]
        fa = rng.choice(FILLS)
        fb = rng.choice(FILLS + [fa, fa])
        ops.append({"op": "interpolate", "field": f, "seed": seed(), "fill": fa, "outside": True})
        for _ in range(rng.randint(0, 3)):
            r = rng.random()
            if r < 0.35:
                mates = [x for x, g in fields if g == fields[0][1] and x != f]
                ops.append({"op": "collection", "name": f"c{len(ops)}", "fields": [f] + (mates[:1] if mates and rng.random() < 0.5 else []), "copy": rng.random() < 0.2})
            elif r < 0.6:
                ops.append({"op": "write", "field": f, "seed": seed()})
            elif r < 0.75:
                ops.append({"op": "assign_full", "field": f, "seed": seed()})
            else:
                ops.append(filler())
        ops.append({"op": "interpolate", "field": f, "seed": seed(), "fill": fb, "outside": True,
                    "bc": gen_bc(rng, grids[fields[0][1]], 0) if rng.random() < 0.25 else None})
    elif theme in ("pde", "solve", "pde_const", "diffusion"):
        f, gi = fields[0]
        gd = grids[gi]
        bc = gen_bc(rng, gd, 0)
        if theme == "diffusion":
            d1 = rng.choice([-1, -2, 1, 2, 0.5])
            ops.append({"op": "diffusion", "state": f, "bc": bc, "diffusivity": d1, "backend": rng.choice([None, "numba", "numpy"])})
            ops += [filler() for _ in range(n_fill)]
            bc2, v = vary_bc(rng, gd, 0, bc)
            hist("history-variant", v)
            ops.append({"op": "diffusion", "state": f, "bc": bc2, "diffusivity": rng.choice([d1, -1, -2, 1]), "backend": rng.choice([None, "numba", "numpy"])})
        else:
            rhs = rng.choice(PDE_RHS)
            uses_k = "k" in "".join(rhs.values())
            consts = {}
            if uses_k:
                if theme == "pde_const" or rng.random() < 0.5:
                    kname = f"f{len(fields)}"
                    ops.append({"op": "field", "name": kname, "grid": gi, "rank": 0, "seed": seed()})
                    fields.append((kname, gi))
                    consts["k"] = ["field", kname]
                else:
                    consts["k"] = rng.choice([["i", -1], ["i", -2], ["f", 0.5], ["f", 2.0]])
            ops.append({"op": "pde", "name": "p0", "rhs": rhs, "bc": bc, "consts": consts})
            q1 = rng.choice(["rate", "rate", "rhs"])
            first = {"op": q1, "pde": "p0", "state": f, "backend": rng.choice(["numpy", "numba"])}
            ops.append(first)
            mid = []
            for _ in range(rng.randint(0, 3)):
                r = rng.random()
                if r < 0.3 and consts.get("k", [""])[0] == "field":
                    mid.append({"op": "collection", "name": f"c{len(ops) + len(mid)}", "fields": [consts["k"][1]], "copy": False})
                    mid.append({"op": "write", "field": consts["k"][1], "seed": seed()})
                elif r < 0.5:
                    mid.append({"op": "write", "field": f, "seed": seed()})
                else:
                    mid.append(filler())
            ops += mid
            # the last call: same PDE on the same/another state, or a new PDE with related conditions
            r = rng.random()
            others = [x for x in fields if x[0] != f and x[0] != consts.get("k", ["", ""])[1]]
            if r < 0.35 or (not others and r < 0.6):
                pname, st = "p0", f
            elif r < 0.6 and others and not consts.get("k", [""])[0] == "field":
                pname, st = "p0", rng.choice(others)[0]
            else:
                bc2, v = vary_bc(rng, gd, 0, bc)
                hist("history-variant", v)
                c2 = dict(consts)
                if c2.get("k", [""])[0] in ("i", "f") and rng.random() < 0.5:
                    c2["k"] = rng.choice([["i", -1], ["i", -2], ["f", 0.5]])
                ops.append({"op": "pde", "name": "p1", "rhs": rhs, "bc": bc2, "consts": c2})
                pname, st = "p1", f
            if theme == "solve":
                ops.append({"op": "solve", "pde": pname, "state": st, "t_range": 0.02, "dt": 0.01, "backend": rng.choice(["numpy", "numba"]),
                            "solver": rng.choice(["euler", "runge-kutta"] if not jit else ["euler"])})
            else:
                ops.append({"op": rng.choice(["rate", "rhs"]), "pde": pname, "state": st, "backend": rng.choice(["numpy", "numba"])})
    elif theme == "pde_coll":
        # a PDE with two variables on a FieldCollection state: `PDE._cache` is keyed by the attributes of the state
        # (a collection and a single field, collections of different composition) and per backend
        gi = fields[0][1]
        gd = grids[gi]
        ops.append({"op": "field", "name": "g0", "grid": gi, "rank": 0, "seed": seed()})
        ops.append({"op": "field", "name": "g1", "grid": gi, "rank": 0, "seed": seed()})
        ops.append({"op": "collection", "name": "s0", "fields": ["g0", "g1"], "copy": True})
        ops.append({"op": "collection", "name": "s1", "fields": ["g1", "g0"], "copy": True})
        bc = gen_bc(rng, gd, 0)
        rhs2 = rng.choice([{"u": "laplace(u) - v", "v": "u + laplace(v)"}, {"u": "laplace(v)", "v": "gradient_squared(u) - v"},
                           {"u": "v", "v": "laplace(u + v)"}])
        ops.append({"op": "pde", "name": "p0", "rhs": rhs2, "bc": bc, "consts": {}})
        be1, be2 = (rng.choice(["numpy", "numba"]) for _ in range(2))
        if jit:
            be1 = "numpy"  # at most one compilation of the two-variable rhs per compiled history
        ops.append({"op": rng.choice(["rate", "rhs"]), "pde": "p0", "state": "s0", "backend": be1})
        for _ in range(rng.randint(0, 2)):
            r = rng.random()
            if r < 0.4:
                ops.append({"op": "write", "field": rng.choice(["g0", "g1"]), "seed": seed()})
            elif r < 0.7:
                # the one-variable twin of the PDE on a member field
                ops.append({"op": "pde", "name": f"q{len(ops)}", "rhs": {"u": "laplace(u)"}, "bc": bc, "consts": {}})
                ops.append({"op": "rate", "pde": ops[-1]["name"], "state": "g0", "backend": "numpy"})
            else:
                ops.append(filler())
        r = rng.random()
        if r < 0.4:
            pname, st = "p0", rng.choice(["s0", "s1"])
        else:
            bc2, v = vary_bc(rng, gd, 0, bc)
            hist("history-variant", v)
            ops.append({"op": "pde", "name": "p1", "rhs": rhs2, "bc": bc2, "consts": {}})
            pname, st = "p1", rng.choice(["s0", "s1"])
        if rng.random() < 0.25 and not jit:
            ops.append({"op": "solve", "pde": pname, "state": st, "t_range": 0.02, "dt": 0.01, "backend": be2, "solver": "euler"})
        else:
            ops.append({"op": rng.choice(["rate", "rhs"]), "pde": pname, "state": st, "backend": be2})
    elif theme == "pde_shared":
        # several requests are given the SAME argument objects (a dict of helper functions, a dict of constants, a
        # boundary dict), as a caller scanning boundary conditions or parameters does
        f, gi = fields[0]
        gd = grids[gi]
        bc = gen_bc(rng, gd, 0)
        uses = rng.choice([["u"], ["u"], ["u", "k"], ["b"], ["u", "b"], ["k"]])
        rhs = rng.choice(["laplace(c) + f(c)", "f(laplace(c))", "gradient_squared(c) + g(c)", "laplace(c) - g(c) + f(c)"]) if "u" in uses \
            else rng.choice(["laplace(c) - c", "gradient_squared(c) + laplace(c)"])
        if "k" in uses:
            rhs = "k * (" + rhs + ")"
        common = {}
        if "u" in uses:
            ops.append({"op": "shared", "name": "u0", "what": "user_funcs", "value": ["f", "g"] if rng.random() < 0.5 else [n for n in ("f", "g") if n + "(" in rhs]})
            common["user_funcs"] = "u0"
        if "k" in uses:
            if rng.random() < 0.5:
                ops.append({"op": "field", "name": "fk", "grid": gi, "rank": 0, "seed": seed()})
                kval = ["field", "fk"]
            else:
                kval = rng.choice([["f", 0.5], ["i", -1], ["f", 2.0]])
            ops.append({"op": "shared", "name": "k0", "what": "consts", "value": {"k": kval}})
            common["consts_shared"] = "k0"
        if "b" in uses:
            ops.append({"op": "shared", "name": "b0", "what": "bc", "value": bc})
            common["bc_shared"] = "b0"
        be = lambda: rng.choice(["numpy", "numba", "numba"])

        def query(pname):
            r = rng.random()
            if r < 0.15 and not jit:
                return {"op": "solve", "pde": pname, "state": f, "t_range": 0.02, "dt": 0.01, "backend": be(), "solver": "euler"}
            return {"op": "rate" if r < 0.45 else "rhs", "pde": pname, "state": f, "backend": be()}
        ops.append(dict({"op": "pde", "name": "p0", "rhs": {"c": rhs}, "bc": bc, "consts": {}}, **common))
        ops.append(query("p0"))
        for _ in range(rng.randint(0, 2)):
            ops.append(filler() if rng.random() < 0.6 else {"op": "write", "field": f, "seed": seed()})
        # the second request: another condition / another expression / a plain operator - with the same objects
        r = rng.random()
        if r < 0.6 or "b" in uses:
            bc2, v = (bc, "same") if "b" in uses else vary_bc(rng, gd, 0, bc)
            hist("history-variant", "shared:" + v)
            rhs2 = rhs if "b" not in uses or rng.random() < 0.4 else rhs.replace("laplace(c)", "laplace(c) + c")
            ops.append(dict({"op": "pde", "name": "p1", "rhs": {"c": rhs2}, "bc": bc2, "consts": {}}, **common))
            ops.append(query("p1"))
        elif "u" in uses:
            bc2, v = vary_bc(rng, gd, 0, bc)
            hist("history-variant", "shared-evaluate:" + v)
            ex = rhs[len("k * ("):-1] if "k" in uses else rhs
            ops.append({"op": "evaluate", "expr": ex, "state": f, "bc": bc2, "user_funcs": "u0", "backend": rng.choice(["numpy", "numba"])})
        else:
            ops.append(dict({"op": "pde", "name": "p1", "rhs": {"c": rhs}, "bc": bc, "consts": {}}, **common))
            ops.append(query("p1"))
    elif theme == "pde_grids":
        # ONE PDE object asked for states on grids that differ only in their class (equal shape, bounds, periodicity):
        # polar / spherical, 2d Cartesian / cylindrical - in both orders
        ops = []
        if rng.random() < 0.55 or jit:
            n = rng.randint(2, 8)
            r0 = rng.choice([0.0, 0.0, 0.5, 1.0])
            R = r0 + rng.choice([0.5, 1.0, 0.25]) * n
            ga = {"cls": "PolarSymGrid", "shape": [n], "bounds": [[r0, R]], "periodic": [False]}
            gb = dict(copy.deepcopy(ga), cls="SphericalSymGrid")
        else:
            nr, nz = rng.randint(2, 4), rng.randint(2, 4)
            R, z0 = rng.choice([1.0, 2.0, 0.5]) * nr, rng.choice([0.0, -1.0])
            pz = rng.random() < 0.4
            ga = {"cls": "CylindricalSymGrid", "shape": [nr, nz], "bounds": [[0.0, R], [z0, z0 + rng.choice([0.5, 1.0]) * nz]], "periodic": [False, pz]}
            gb = dict(copy.deepcopy(ga), cls="CartesianGrid")
        if rng.random() < 0.5:
            ga, gb = gb, ga
        grids[0], grids[1] = ga, gb
        sd = seed()
        ops.append({"op": "field", "name": "f0", "grid": 0, "rank": 0, "seed": sd})
        ops.append({"op": "field", "name": "f1", "grid": 1, "rank": 0, "seed": sd})
        fields = [("f0", 0), ("f1", 1)]
        bc = rng.choice(["auto_periodic_neumann", "auto_periodic_dirichlet", "auto_periodic_neumann"])
        if rng.random() < 0.4 and not any(ga["periodic"]):
            side = {"type": rng.choice(["value", "derivative"]), "value": gen_number(rng)}
            bc = {k2: copy.deepcopy(side) for ax in axes_of(ga) for k2 in (ax + "-", ax + "+")}
        rhs = rng.choice([{"c": "laplace(c)"}, {"c": "laplace(c) - c"}, {"c": "gradient_squared(c) + laplace(c)"}, {"c": "divergence(gradient(c))"}])
        ops.append({"op": "pde", "name": "p0", "rhs": rhs, "bc": bc, "consts": {}})
        be = lambda: rng.choice(["numpy", "numba"])

        def query(st):
            r = rng.random()
            if r < 0.2 and not jit:
                return {"op": "solve", "pde": "p0", "state": st, "t_range": 0.002, "dt": 0.001, "backend": be(), "solver": "euler"}
            return {"op": "rate" if r < 0.6 else "rhs", "pde": "p0", "state": st, "backend": be()}
        ops.append(query("f0"))
        for _ in range(rng.randint(0, 1)):
            ops.append(filler())
        ops.append(query("f1"))
    elif theme == "rereg":
        ops, grids = gen_rereg(rng, hist, jit)
    elif theme == "field_op":
        f, gi = fields[0]
        gd = grids[gi]
        bc = gen_bc(rng, gd, 0)
        be = rng.choice(backends)
        opn = rng.choice(["laplace", "gradient", "gradient_squared"])
        ops.append({"op": "field_op", "field": f, "operator": opn, "bc": bc, "backend": be})
        ops += [filler() for _ in range(n_fill)]
        bc2, v = vary_bc(rng, gd, 0, bc)
        hist("history-variant", v)
        ops.append({"op": "field_op", "field": f, "operator": opn, "bc": bc2, "backend": be})
    return {"grids": grids, "ops": ops}


CUSTOM_KINDS = ["scale", "scale", "nbsum", "diff"]
REREG_SITES = ["field_op", "field_op", "field_op", "make_operator", "make_operator", "nobc", "nobc", "backend_op", "pde_same", "pde_same",
               "pde_new", "evaluate"]


def gen_rereg(rng, hist, jit=False):
    """a custom operator is registered under a name that is registered AGAIN later in the history with another factory
    (same slot, a more / less specific slot, after a removal, back to the first factory object), and applied through
    `field.apply_operator`, `grid.make_operator`, `grid.make_operator_no_bc(name)`, the backend's `make_operator(grid, name)`,
    a PDE object prepared before / a PDE created after the change, `evaluate` - on the grid object that was queried before
    the change or on an equal grid object that was never queried"""
    seed = lambda: rng.randrange(1 << 30)
    gd0 = gen_grid_small(rng)
    if jit:
        while len(gd0["shape"]) > 1:
            gd0 = gen_grid_small(rng)
    gd1 = copy.deepcopy(gd0) if rng.random() < 0.75 else related_grid(rng, gd0)
    if gd1["cls"] != gd0["cls"]:
        gd1 = copy.deepcopy(gd0)
    grids = [gd0, gd1]
    own, parent = gd0["cls"], GRID_PARENT[gd0["cls"]]
    sd = seed()
    ops = [{"op": "field", "name": "f0", "grid": 0, "rank": 0, "seed": sd}, {"op": "field", "name": "f1", "grid": 1, "rank": 0, "seed": sd}]
    builtin = rng.random() < 0.2
    name = "laplace" if builtin else rng.choice(["cop", "cop", "my_op"])
    # the slot: (backend class, grid class).  A built-in name is shadowed at the grid's own class if that holds no built-in
    # (UnitGrid: the built-in operators are registered for CartesianGrid), otherwise its own entry is overwritten
    if builtin:
        slot_a = {"backend": "numba", "grid_cls": own}
        can_remove = own == "UnitGrid"
    else:
        slot_a = {"backend": rng.choice(["numba", "numba", "numpy"]), "grid_cls": rng.choice([own, own, parent])}
        can_remove = True
    fs = rng.sample([2.0, 3.0, -1.0, 0.5, -2.0, 1.5, 4.0], 3)
    kinds = [rng.choice(CUSTOM_KINDS) for _ in range(3)]
    if rng.random() < 0.5:
        kinds = [kinds[0]] * 3
    fac = lambda j: {"kind": kinds[j], "f": fs[j]}
    reg = lambda slot, j, fid: dict({"op": "register", "name": name, "factory": fac(j), "fid": fid}, **slot)
    bc = gen_bc(rng, gd0, 0) if rng.random() < 0.6 else "auto_periodic_neumann"
    be = "numba"
    pde_made = []

    def query(site, gi):
        f = f"f{gi}"
        if site == "field_op":
            return [{"op": "field_op", "field": f, "operator": name, "bc": bc, "backend": be}]
        if site == "make_operator":
            return [{"op": "make_operator", "grid": gi, "operator": name, "bc": bc, "backend": be, "seed": sd}]
        if site == "nobc":
            return [{"op": "nobc", "grid": gi, "operator": name, "backend": be, "kwargs": [], "seed": sd}]
        if site == "backend_op":
            return [{"op": "backend_op", "grid": gi, "operator": name, "bc": bc, "backend": be, "seed": sd}]
        if site == "evaluate":
            return [{"op": "evaluate", "expr": f"{name}(c) + c", "state": f, "bc": bc, "backend": rng.choice(["numpy", "numba"])}]
        out = []
        if site == "pde_new" or "p0" not in pde_made:
            pname = "p0" if "p0" not in pde_made else f"p{len(pde_made)}"
            out.append({"op": "pde", "name": pname, "rhs": {"c": f"{name}(c) - c"}, "bc": bc, "consts": {}})
            pde_made.append(pname)
        else:
            pname = "p0"
        r = rng.random()
        if r < 0.15 and not jit:
            out.append({"op": "solve", "pde": pname, "state": f, "t_range": 0.02, "dt": 0.01, "backend": pde_be[0], "solver": "euler"})
        elif r < 0.6 or pde_be[0] == "numpy":
            out.append({"op": "rate", "pde": pname, "state": f})
        else:
            out.append({"op": "rhs", "pde": pname, "state": f, "backend": pde_be[0]})
        return out
    pde_be = [rng.choice(["numpy", "numba"])]
    last_site = rng.choice(REREG_SITES)
    last_gi = 0 if rng.random() < 0.7 else 1
    ops.append(reg(slot_a, 0, 1))
    # queries before the change: mostly the site of the last query on grid object 0 (so that its cache is warm)
    pre = [last_site if rng.random() < 0.8 else rng.choice(REREG_SITES)] + [rng.choice(REREG_SITES) for _ in range(rng.choice([0, 0, 1, 2]))]
    for site in pre:
        ops += query(site, 0 if rng.random() < 0.85 else 1)
    # the change
    r = rng.random()
    other_slot = None
    if not builtin:
        cands = [{"backend": b, "grid_cls": g} for b in ("numba", "numpy") for g in (own, parent)]
        cands = [c for c in cands if c != slot_a]
        other_slot = rng.choice(cands)
    if r < 0.55 or (builtin and not can_remove and r < 0.9):
        change, what = [reg(slot_a, 1, 2)], "same-slot"
    elif r < 0.7 and other_slot:
        change, what = [reg(other_slot, 1, 2)], "other-slot"
    elif r < 0.8 and can_remove:
        change, what = [dict({"op": "unregister", "name": name}, **slot_a)], "removed"
    elif r < 0.9:
        change, what = [reg(slot_a, 1, 2), reg(slot_a, 0, 1)], "back-to-first-object"
    else:
        change, what = [reg(slot_a, 0, 3)], "equal-spec-new-object"
    hist("rereg-change", what + ("/builtin-name" if builtin else ""))
    ops += change
    if rng.random() < 0.2:
        ops += query(rng.choice(REREG_SITES), rng.choice([0, 1]))
        ops.append(reg(slot_a, 2, 4))
    if rng.random() < 0.3 and not jit:
        ops.append({"op": "write", "field": f"f{last_gi}", "seed": seed()})
    q = query(last_site, last_gi)
    ops += q
    hist("rereg-last-site", last_site + (":queried-object" if last_gi == 0 else ":other-object"))
    return ops, grids


# ==========================================================================================
# HEAP histories (one field; compared with `hrun` / `href`)
INTERP_KW = [[], [["fill", ["i", 0]]], [["fill", ["i", -1]]], [["fill", ["i", -2]]], [["fill", ["f", -1.0]]], [["fill", ["none"]]],
             [["with_ghost_cells", ["b", False]]], [["fill", ["i", 0]], ["with_ghost_cells", ["b", False]]],
             [["with_ghost_cells", ["b", False]], ["fill", ["i", 0]]]]


def gen_heap_case(rng, hist):
    events = []
    tok = itertools.count(2)
    for _ in range(rng.randint(3, 14)):
        r = rng.random()
        if r < 0.2:
            events.append(["write", str(next(tok))])
        elif r < 0.35:
            events.append(["relink", rng.choice([1, 1, 2])])
        elif r < 0.45:
            events.append(["assign_new", str(next(tok))])
        elif r < 0.5:
            events.append(["assign_same"])
        elif r < 0.85:
            events.append(["interp", rng.choice(INTERP_KW)])
        else:
            events.append(["rate"])
    for e in events:
        hist("heap-event", e[0])
    return {"kind": "heap", "n": rng.choice([2, 3, 5]), "init": "1", "events": events}


def real_heap(case):
    """returns the values read (as text of the integer content) and the serialised kwargs of the interpolations"""
    import pde
    from harness.common import pygraph as G
    quiet()
    g = pde.UnitGrid([case["n"]])
    f = pde.ScalarField(g, float(case["init"]))
    other = pde.ScalarField(g, 7.0)
    state = pde.ScalarField(g, 1.0)
    eq = pde.PDE({"c": "k + 0 * c"}, consts={"k": f})
    read, events = [], []
    centre = np.array([0.5])
    keep = []
    for e in case["events"]:
        if e[0] == "write":
            f.data[...] = float(e[1])
            events.append(e)
        elif e[0] == "relink":
            keep.append(pde.FieldCollection([f] if e[1] == 1 else [other, f]))
            events.append(["relink"])
        elif e[0] == "assign_new":
            f._data_full = np.full(g._shape_full, float(e[1]))
            events.append(e)
        elif e[0] == "assign_same":
            f._data_full = f._data_full
            events.append(e)
        elif e[0] == "interp":
            kw = {k: dec(v) for k, v in e[1]}
            v = f.make_interpolator(**kw)(centre)
            read.append(str(int(round(float(np.asarray(v).ravel()[0])))))
            events.append(["interp", [[k, G.ser(x)] for k, x in kw.items()]])
        elif e[0] == "rate":
            v = eq.evolution_rate(state).data[0]
            read.append(str(int(round(float(v)))))
            events.append(["rate"])
        elif e[0] == "rate_jit":
            # the compiled rate, asked for again (only meaningful with the JIT enabled: leg heap:jit)
            v = eq.make_pde_rhs(state, backend="numba")(state.data.copy(), 0.0)[0]
            read.append(str(int(round(float(v)))))
            events.append(["rate_jit"])
    return {"read": read, "events": events}


def heap_worker(case):
    return real_heap(case)


def heap_worker_forked(case):
    import pde  # noqa: F401
    return forked_call(real_heap, case)


def gen_heap_jit_case(rng, hist):
    """short heap histories around the COMPILED rate (every `rate_jit` after a change of the array object - and, once
    finding E is repaired, after a write - compiles again: a few seconds each)"""
    events = [["rate_jit"]] if rng.random() < 0.7 else []
    tok = itertools.count(2)
    n_jit = len(events)
    for _ in range(rng.randint(2, 5)):
        r = rng.random()
        if r < 0.35:
            events.append(["write", str(next(tok))])
        elif r < 0.45:
            events.append(["relink", rng.choice([1, 1, 2])])
        elif r < 0.55:
            events.append(["assign_new", str(next(tok))])
        elif r < 0.6:
            events.append(["assign_same"])
        elif r < 0.7:
            events.append(["rate"])
        elif n_jit < 3:
            events.append(["rate_jit"])
            n_jit += 1
    if events[-1][0] != "rate_jit" and n_jit < 3:
        events.append(["rate_jit"])
    for e in events:
        hist("heap-jit-event", e[0])
    return {"kind": "heap", "jit": True, "n": rng.choice([2, 3]), "init": "1", "events": events}


def fixed_heap_jit():
    """always run: finding E (write in place between two compiled rates), finding C under the JIT"""
    return [{"kind": "heap", "jit": True, "n": 4, "init": "1", "events": [["rate_jit"], ["write", "5"], ["rate_jit"]]},
            {"kind": "heap", "jit": True, "n": 3, "init": "1", "events": [["rate_jit"], ["relink", 1], ["write", "7"], ["rate_jit"], ["rate"]]}]


def real_heapdep_jit(case):
    """the heap-dependence monitor on the COMPILED operator (the pairs leg runs under NUMBA_DISABLE_JIT=1, where the
    Python version of the wrapper allocates): freed blocks are left behind by a compiled function, because compiled
    code allocates through numba's runtime"""
    import numba as nb
    quiet()
    try:
        grid, backend, info, kw = build_req(case["req"])
        op = backend.make_operator(grid, info, **kw)
        op(rnd_data(1, (grid.dim,) * info.rank_in + grid.shape))  # compile first (compilation allocates as well)
    except Exception as e:  # malformed stream: the request is rejected
        return {"error": exc_class(e)}

    @nb.njit
    def poison(shape, fill):
        s = 0.0
        for _ in range(6):
            a = np.full(shape, fill)
            s += a.flat[0]
        return s
    hd = heap_dependence(op, grid, info, case["seed"], poison=lambda shape, dtype, fill: poison(shape, fill))
    out = {"undefined_cells": 0}
    mb = True
    if has_normal(case["req"]["bc"]):
        mb = defined_mask(grid, info, kw["bcs"], {k: dec(v) for k, v in case["req"]["kwargs"]}, backend)
        out["undefined_cells"] = int(mb.size - np.count_nonzero(mb))
    if hd is not None:
        inside = bool(mb is not True and not np.any(hd["cells"] & np.broadcast_to(mb, hd["cells"].shape)))
        out["heap_dep"] = {"first": lst(hd["first"]), "second": lst(hd["second"]),
                           "cells_differing": np.argwhere(hd["cells"]).tolist()[:12], "n_cells_differing": int(hd["cells"].sum()),
                           "only_in_cells_no_condition_determines": inside}
    return out


def fixed_heapdep_jit():
    g2 = {"cls": "UnitGrid", "shape": [4, 3], "bounds": [[0.0, 4.0], [0.0, 3.0]], "periodic": [False, False]}
    nv = {"type": "normal_value", "value": ["f", 1.0]}
    return [{"kind": "heapdep", "seed": 7, "req": {
        "grid": g2, "op": "vector_laplace", "rank": 1, "dtype": ["none"], "kwargs": [], "korder": 0,
        "bc": {"x-": nv, "x+": nv, "y-": {"type": "value", "value": ["f", 0.5]}, "y+": {"type": "derivative", "value": ["f", 0.0]}}}}]


def gen_heapdep_jit(rng, hist):
    """a random request on a 2d Cartesian grid with an operator of rank >= 1 (compiled: a few seconds each)"""
    for _ in range(200):
        r = gen_req(rng)
        if r["rank"] >= 1 and len(r["grid"]["shape"]) == 2 and r["grid"]["cls"] in ("UnitGrid", "CartesianGrid"):
            hist("heapdep-jit", r["op"] + ("/normal" if has_normal(r["bc"]) else ""))
            return {"kind": "heapdep", "seed": rng.randrange(1 << 30), "req": r}
    return fixed_heapdep_jit()[0]


def judge_heapdep_jit(ctx, cases, results):
    for c, r in zip(cases, results):
        ctx.count(c, nontrivial=True, leg="pairs:req:jit")
        if isinstance(r, str):
            died(ctx, "pairs:req:jit", c, r, "NumbaBackend.make_operator")
            continue
        if "error" in r:
            ctx.hist("malformed", "heapdep-jit:" + r["error"][:40])
            continue
        ctx.monitor_evals += 1
        hd = r.get("heap_dep")
        if hd:
            key = KEY_UNINIT if hd["only_in_cells_no_condition_determines"] and has_normal(c["req"]["bc"]) else \
                dict(call_site="NumbaBackend.make_operator", symptom="result depends on the contents of freed memory")
            ctx.monitor_fail("pairs:req:jit", c, dict(hd, symptom="heap_dependence"), {"same_result_after_any_allocation_history": True},
                             f"req (compiled): {key['symptom']}", key=key)


# ==========================================================================================
# REGISTRY: histories of registrations and queries with an operator name against the registry machine `regRun`
REG_SITES = ["field_op", "field_op", "grid_op", "nobc_name", "nobc_name", "backend_op_name", "backend_nobc_name", "pde_same", "pde_same", "pde_new", "evaluate"]
# call sites whose cache key contains only the NAME on the unchanged tree (finding I; `byInfo` once repaired)
REG_OPEN_SITES = {"nobc_name": KEY_REREG_NOBC, "backend_op_name": KEY_REREG_BACKEND, "pde_same": KEY_REREG_PDE}
REG_CALL_SITE = {"field_op": "DataFieldBase.apply_operator", "grid_op": "GridBase.make_operator", "nobc_name": "GridBase.make_operator_no_bc",
                 "backend_op_name": "NumbaBackend.make_operator", "backend_nobc_name": "BackendBase.make_operator_no_bc",
                 "pde_same": "PDE._prepare_cache", "pde_new": "PDE._prepare_cache", "evaluate": "evaluate"}
REG_NAMES = ["cop", "cop2"]


def registry_slots(gd):
    own, parent = gd["cls"], GRID_PARENT[gd["cls"]]
    return [["numba", own], ["numba", parent], ["numpy", own], ["numpy", parent]]


def gen_registry_case(rng, hist):
    gd = gen_grid_small(rng)
    slots = registry_slots(gd)
    names = REG_NAMES[:rng.choice([1, 1, 1, 2])]
    focus = rng.sample(sorted(set(REG_SITES)), rng.choice([1, 2, 2, 3]))  # the sites most queries of this history go through
    main_slot = rng.choice([0, 0, 0, 1, 2, 3])
    events, live, used = [], set(), []
    nfid = itertools.count(1)
    for _ in range(rng.randint(4, 12)):
        r = rng.random()
        if r < 0.3 or not live:
            si = main_slot if rng.random() < 0.7 else rng.choice([0, 1, 2, 3])
            name = rng.choice(names)
            fid = rng.choice(used) if used and rng.random() < 0.12 else next(nfid)  # sometimes an earlier factory OBJECT again
            used.append(fid)
            events.append(["register", si, name, fid])
            live.add((si, name))
        elif r < 0.38:
            si, name = rng.choice(sorted(live))
            events.append(["unregister", si, name])
            live.discard((si, name))
        else:
            events.append(["query", rng.choice(focus) if rng.random() < 0.75 else rng.choice(REG_SITES), rng.choice([0, 0, 0, 1]), rng.choice(names)])
    for e in events:
        hist("registry-event", e[0] + (":" + e[1] if e[0] == "query" else ""))
    return {"kind": "registry", "grid": gd, "events": events}


def fixed_registry_cases():
    """the first three decide, per call site of finding I, which derivation the code implements (name only / resolved
    registration); the others are the seeded change C04-3 and the shadowing order of the slots"""
    g = {"cls": "UnitGrid", "shape": [4], "bounds": [[0.0, 4.0]], "periodic": [False]}
    out = [{"kind": "registry", "grid": g, "events": [["register", 0, "cop", 1], ["query", site, 0, "cop"], ["register", 0, "cop", 2], ["query", site, 0, "cop"]]}
           for site in REG_OPEN_SITES]
    out.append({"kind": "registry", "grid": g, "events": [["register", 0, "cop", 1], ["query", "field_op", 0, "cop"], ["register", 0, "cop", 2],
                                                          ["query", "field_op", 0, "cop"], ["query", "field_op", 1, "cop"], ["query", "grid_op", 0, "cop"]]})
    out.append({"kind": "registry", "grid": g, "events": [["register", 3, "cop", 1], ["query", "field_op", 0, "cop"], ["register", 0, "cop", 2], ["query", "field_op", 0, "cop"],
                                                          ["unregister", 0, "cop"], ["query", "field_op", 0, "cop"], ["unregister", 3, "cop"], ["query", "field_op", 0, "cop"]]})
    return out


def real_registry(case):
    """performs the events on the real registry / call sites; every query is answered by the factory id whose
    implementation was applied (factory `fid` multiplies by fid + 1), None for NotImplementedError"""
    import pde
    from pde import get_backend
    from pde.tools.expressions import evaluate
    quiet()
    for b in ("numba", "numpy", "scipy"):
        get_backend(b).__dict__.pop("_cache_methods", None)  # cases stay independent within one worker process
    nb = get_backend("numba")
    slots = registry_slots(case["grid"])
    grids = [make_grid(case["grid"]), make_grid(case["grid"])]
    d = (np.arange(int(np.prod(grids[0].shape)), dtype=float) + 1.0).reshape(grids[0].shape)
    fields = [pde.ScalarField(g, d) for g in grids]
    bc = "auto_periodic_neumann"
    pdes, env, answers = {}, {}, []

    def query(site, obj, name):
        g, f = grids[obj], fields[obj]
        if site == "field_op":
            return f.apply_operator(name, bc=bc, backend="numba").data
        if site == "grid_op":
            return g.make_operator(name, bc, backend="numba")(d)
        if site == "nobc_name":
            o = np.zeros(g.shape)
            g.make_operator_no_bc(name, backend="numba")(f._data_full, o)
            return o
        if site == "backend_op_name":
            return nb.make_operator(g, name, bcs=g.get_boundary_conditions(bc))(d)
        if site == "backend_nobc_name":
            o = np.zeros(g.shape)
            nb.make_operator_no_bc(g, name)(f._data_full, o)
            return o
        if site == "pde_same":
            if (name, obj) not in pdes:
                pdes[(name, obj)] = pde.PDE({"c": f"{name}(c)"})
            return pdes[(name, obj)].evolution_rate(f).data
        if site == "pde_new":
            return pde.PDE({"c": f"{name}(c)"}).evolution_rate(f).data
        if site == "evaluate":
            return evaluate(f"{name}(c)", {"c": f}).data
        raise ValueError(site)
    try:
        for e in case["events"]:
            if e[0] == "register":
                registry_set(env, {"op": "register", "backend": slots[e[1]][0], "grid_cls": slots[e[1]][1], "name": e[2],
                                   "factory": {"kind": "scale", "f": float(e[3] + 1)}, "fid": e[3]})
            elif e[0] == "unregister":
                registry_set(env, {"op": "unregister", "backend": slots[e[1]][0], "grid_cls": slots[e[1]][1], "name": e[2]})
            else:
                try:
                    r = np.asarray(query(e[1], e[2], e[3]), dtype=float)
                    fac = float(r.flat[0] / d.flat[0])
                    if r.shape == d.shape and abs(fac - round(fac)) <= 1e-9 and arr_close(r, round(fac) * d):
                        answers.append(int(round(fac)) - 1)
                    else:
                        answers.append("GARBAGE:" + json.dumps(lst(r))[:200])
                except NotImplementedError:
                    answers.append(None)
                except Exception as ex:
                    answers.append("EXC:" + exc_class(ex))
    finally:
        registry_restore(env)
    return {"answers": answers}


def registry_worker(case):
    return real_registry(case)


def registry_worker_forked(case):
    import pde  # noqa: F401
    return forked_call(real_registry, case)


def registry_model_events(case):
    """events for `c04.replay_registry`.  level: position of the slot in the walk of `get_operator_info` for the numba
    backend and the grid's class (backend classes outer loop, grid classes inner loop: numba/own < numba/parent < numpy/own
    < numpy/parent, which is the order of `registry_slots`); cache / rest: which cache object a query consults and with
    what other arguments"""
    uniq = itertools.count(1000)
    out = []
    for e in case["events"]:
        if e[0] == "register":
            out.append(["register", e[1], e[2], e[3]])
        elif e[0] == "unregister":
            out.append(["unregister", e[1], e[2]])
        else:
            site, obj, name = e[1], e[2], e[3]
            cache, rest = {"field_op": (obj, 0), "nobc_name": (obj, 1), "grid_op": (10, 2), "backend_op_name": (10, 3),
                           "backend_nobc_name": (None, 4), "pde_new": (None, 5), "evaluate": (None, 6), "pde_same": (20 + obj, 7)}[site]
            out.append(["query", next(uniq) if cache is None else cache, name, rest])
    return out


def pend_registry(ctx, batch, cases, res):
    pend = []
    for c, r in zip(cases, res):
        if isinstance(r, str):
            ctx.count(c, nontrivial=False, leg="registry:died")
            died(ctx, "registry", c, r, "registry")
            continue
        pend.append((c, r, batch.add("c04.replay_registry", {"events": registry_model_events(c)})))
    return pend


def judge_registry(ctx, pend, answers):
    """tie: every answer equals the registry machine under the derivation of its call site - `byInfo` (the resolved
    registration is part of the key) everywhere, except at the three call sites of finding I, where the code as it is keys
    by the name only: which derivation these implement is read off the fixed histories [register, query, register, query]
    at the head of the run and then required for ALL histories.  monitor: every answer is the factory registered now."""
    deriv = {}
    for c, r, i in pend[:len(REG_OPEN_SITES)]:
        st, val = answers[i]
        ev = c["events"]
        if st == "ok" and len(ev) == 4 and ev[1][0] == "query" and ev[1][1] in REG_OPEN_SITES and ev[1][1] not in deriv:
            deriv[ev[1][1]] = "byName" if r["answers"] == val["byName"] and r["answers"] != val["byInfo"] else "byInfo"
            ctx.hist("registry-derivation", f"{ev[1][1]}: " + ("name only (finding I open)" if deriv[ev[1][1]] == "byName" else "resolved registration"))
    for c, r, i in pend:
        ev = c["events"]
        queries = [(j, e) for j, e in enumerate(ev) if e[0] == "query"]
        changes = [j for j, e in enumerate(ev) if e[0] != "query"]
        ctx.count(c, nontrivial=len(changes) >= 2 and any(j > changes[1] for j, _ in queries), leg="registry")
        ctx.impl_traces += 1
        st, val = answers[i]
        if st != "ok":
            ctx.disagree("registry", c, f"model error {val}", r["answers"])
            continue
        first_bad = None
        for q, ((j, e), obs) in enumerate(zip(queries, r["answers"])):
            site = e[1]
            d = deriv.get(site, "byInfo")
            if obs != val[d][q]:
                ctx.disagree("registry", dict(c, events=ev[:j + 1]), {"model_answer": val[d][q], "derivation": d, "site": site}, {"real_answer": obs},
                             "factory whose implementation a query with an operator name returns")
            ctx.monitor_evals += 1
            if obs != val["ref"][q] and first_bad is None:
                first_bad = (j, site, obs, val["ref"][q])
        if first_bad is not None:
            j, site, obs, ref = first_bad
            key = REG_OPEN_SITES.get(site) or {"call_site": REG_CALL_SITE[site], "argument": "operator given by name", "symptom": REREG_SYMPTOM}
            ctx.monitor_fail("registry", dict(c, events=ev[:j + 1]), {"symptom": "registry", "factory_applied": obs, "site": site},
                             {"factory_registered_now": ref}, f"registry: {key['call_site']}: {key['symptom']}", key=key)


# ==========================================================================================
# PDEVARS: PDEs with two or three variables that use the same operator name with per-variable conditions (`bc_ops`)
PDEVARS_NAMES = ["u", "v", "w", "a", "b", "psi"]
PDEVARS_QUERIES = ["rate", "rate", "rhs:numba", "rhs:numba", "rhs:numpy", "solve:numpy", "solve:numba"]
PDEVARS_REF_QUERY = "rate"  # the reference of every kind of query: `evolution_rate` of the single-variable PDE in a fresh process


def gen_pdevars_bc(rng, gd, kinds):
    """per-side conditions of the given kind per non-periodic axis side (value / derivative / mixed / curvature)"""
    spec = {}
    for ax, name in enumerate(axes_of(gd)):
        if gd["periodic"][ax]:
            spec[name] = "periodic"
            continue
        for sd in "-+":
            kind = rng.choice(kinds)
            s_ = {"type": kind, "value": gen_number(rng) if rng.random() < 0.6 else ["i", 0]}
            if kind == "mixed":
                s_["value"] = ["f", abs(float(dec(s_["value"])))]
                s_["const"] = gen_number(rng)
            spec[name + sd] = s_
    return spec


def gen_pdevars(rng, hist, jit=False):
    """a configuration: grid, 2-3 variables whose equations all use one operator name (some a second one), for every
    variable its own condition of another kind, given as `VAR:OP` / `VAR:*` / the default `bc`; optional algebraic coupling"""
    for _ in range(100):
        gd = gen_grid_small(rng)
        if not all(gd["periodic"]) and (not jit or len(gd["shape"]) == 1):
            break
    nv = 2 if jit else rng.choice([2, 2, 3])
    names = rng.sample(PDEVARS_NAMES, nv)
    cart = gd["cls"] in ("UnitGrid", "CartesianGrid")
    main = rng.choice(["laplace", "laplace", "laplace", "gradient_squared"] + (["d2_dx2"] if cart else []))
    second = rng.choice([o for o in ("laplace", "gradient_squared") if o != main])
    base_kinds = rng.sample(["value", "derivative", "mixed", "curvature"], 4)
    default_user = rng.randrange(nv) if rng.random() < 0.2 else None  # this variable has no entry of its own: the default `bc`
    vars_, bc_ops = [], []
    default_bc = "auto_periodic_neumann"
    for i, v in enumerate(names):
        kinds = [base_kinds[i]] if rng.random() < 0.7 else [base_kinds[i], base_kinds[(i + 1) % 4]]
        bc = gen_pdevars_bc(rng, gd, kinds)
        a, b = rng.choice([1, 1, 2, -1, 0.5]), rng.choice([0, 0, 1, -0.5])
        expr = f"{a} * {main}({v})" if a != 1 else f"{main}({v})"
        ops_used = [main]
        if b:
            expr += f" + {b} * {v}"
        if rng.random() < 0.3:
            expr += f" + {second}({v})"
            ops_used.append(second)
        coupled = None
        if nv > 1 and rng.random() < 0.3:
            coupled = rng.choice([w for w in names if w != v])
            expr += f" - 0.5 * {coupled}"
        if i == default_user:
            default_bc = bc
        else:
            form = rng.choice(["op", "op", "op", "star"]) if len(ops_used) == 1 else rng.choice(["op", "star", "both"])
            if form == "op":
                bc_ops.append([f"{v}:{main}", bc])
            elif form == "star":
                bc_ops.append([f"{v}:*", bc])
            else:
                bc_ops.append([f"{v}:{main}", bc])
                bc_ops.append([f"{v}:{second}", gen_pdevars_bc(rng, gd, [rng.choice(base_kinds)])])
        vars_.append({"name": v, "expr": expr, "coupled": coupled, "seed": rng.randrange(1 << 30)})
    rng.shuffle(bc_ops)
    hist("pdevars:operator", main + ("+" + second if any(second + "(" in v["expr"] for v in vars_) else ""))
    hist("pdevars:variables", f"{nv}" + ("/default-bc-user" if default_user is not None else "") + ("/coupled" if any(v["coupled"] for v in vars_) else ""))
    for _, bc in bc_ops:
        for sd in bc.values():
            hist("pdevars:bc-class", sd if isinstance(sd, str) else sd["type"])
    orders = [list(p) for p in itertools.permutations(range(nv))]
    runs = []
    for order in orders:
        q = rng.choice(PDEVARS_QUERIES) if not jit else rng.choice(["rhs:numba", "rhs:numba", "rate"])
        pre = []
        r = rng.random()
        if r < 0.2:
            pre = [["single", rng.randrange(nv)]]  # the single-variable PDE of one variable is asked first in the same process
        elif r < 0.35:
            pre = [["multi", rng.choice(orders)]]  # the PDE in another order is asked first
        runs.append({"order": order, "query": q, "pre": pre})
        hist("pdevars:query", q + ("/after-" + pre[0][0] if pre else ""))
    if jit:
        runs = [rng.choice(runs)]
        runs[0]["pre"] = []
    return {"kind": "pdevars", "grid": gd, "vars": vars_, "bc": default_bc, "bc_ops": bc_ops, "runs": runs, "jit": bool(jit)}


def fixed_pdevars(jit=False):
    """seeded change C04-4: u with value 0, v with derivative 0, the same data scale, both orders; and three variables"""
    g6 = {"cls": "UnitGrid", "shape": [6], "bounds": [[0.0, 6.0]], "periodic": [False]}
    v0 = {"x-": {"type": "value", "value": ["i", 0]}, "x+": {"type": "value", "value": ["i", 0]}}
    d0 = {"x-": {"type": "derivative", "value": ["i", 0]}, "x+": {"type": "derivative", "value": ["i", 0]}}
    m1 = {"x-": {"type": "mixed", "value": ["f", 1.0], "const": ["i", 0]}, "x+": {"type": "mixed", "value": ["f", 1.0], "const": ["i", 0]}}
    var = lambda n, sd: {"name": n, "expr": f"laplace({n})", "coupled": None, "seed": sd}
    two = {"kind": "pdevars", "grid": g6, "vars": [var("u", 11), var("v", 12)], "bc": "auto_periodic_neumann",
           "bc_ops": [["u:laplace", v0], ["v:laplace", d0]], "jit": bool(jit),
           "runs": [{"order": [0, 1], "query": "rhs:numba" if jit else "rate", "pre": []}] + ([] if jit else [
               {"order": [1, 0], "query": "rate", "pre": []}, {"order": [0, 1], "query": "rhs:numba", "pre": []},
               {"order": [1, 0], "query": "solve:numpy", "pre": []}])}
    if jit:
        return [two]
    three = {"kind": "pdevars", "grid": g6, "vars": [var("u", 11), var("v", 12), var("w", 13)], "bc": m1,
             "bc_ops": [["u:laplace", v0], ["v:*", d0]], "jit": False,
             "runs": [{"order": list(p), "query": "rate", "pre": []} for p in itertools.permutations(range(3))]}
    return [two, three]


def _pdevars_bc_ops(case, only=None):
    """`bc_ops` as given (dictionary order kept); `only`: the entries that can apply to this variable"""
    return {k: bc_arg(bc) for k, bc in case["bc_ops"] if only is None or k.split(":")[0] in (only, "*")}


def _pdevars_data(case, grid):
    return [rnd_data(v["seed"], grid.shape) for v in case["vars"]]


def _pdevars_query(eq, state, q):
    """evolution rate of `state` through the requested entry point; always returned as the rate (solve: one explicit Euler
    step, the rate is recovered from the increment)"""
    kind, _, backend = q.partition(":")
    if kind == "rate":
        return np.array(eq.evolution_rate(state).data)
    if kind == "rhs":
        return np.array(eq.make_pde_rhs(state, backend=backend)(state.data.copy(), 0.0))
    if kind == "solve":
        dt = 0.0009765625
        res = eq.solve(state, t_range=dt, dt=dt, tracker=None, backend=backend, solver="euler")
        return (np.array(res.data) - np.array(state.data)) / dt
    raise ValueError(q)


def pdevars_multi(case, run):
    """the PDE with all variables in the order of `run` (after the `pre` requests in the same process): rate of every
    variable (indexed as in case['vars']), the keys of `PDE.bcs`, the operators per variable, `bcs_used`"""
    import pde
    quiet()
    grid = make_grid(case["grid"])
    data = _pdevars_data(case, grid)
    names = [v["name"] for v in case["vars"]]

    def build(order):
        eq = pde.PDE({names[i]: case["vars"][i]["expr"] for i in order}, bc=bc_arg(case["bc"]), bc_ops=_pdevars_bc_ops(case))
        state = pde.FieldCollection([pde.ScalarField(grid, data[i], label=names[i]) for i in order])
        return eq, state
    for kind, arg in run["pre"]:
        try:
            if kind == "single":
                pdevars_single(case, arg, "rate", grid=grid)
            else:
                eq, state = build(arg)
                eq.evolution_rate(state)
        except Exception:
            pass
    eq, state = build(run["order"])
    out = {}
    try:
        r = _pdevars_query(eq, state, run["query"])
        out["rates"] = {str(i): lst(r[k]) for k, i in enumerate(run["order"])}
    except Exception as e:
        out["error"] = exc_class(e) + ":" + str(e)[:200]
    out["bcs_keys"] = list(eq.bcs.keys())
    out["var_ops"] = [[names[i], sorted(eq._operators[names[i]])] for i in run["order"]]
    out["ops_iter"] = [[names[i], list(eq._operators[names[i]])] for i in run["order"]]
    out["bcs_used"] = sorted(eq.diagnostics["pde"].get("bcs_used", []))
    return out


def pdevars_single(case, i, q, grid=None, assign=None):
    """the single-variable PDE of variable i: its own equation, the other variables it refers to given as constant fields,
    `bc` and the entries of `bc_ops` that can apply to it.  `assign` (diagnosis only): {operator: key of the `bc_ops` entry
    to build it with} instead of the PDE's own selection"""
    import pde
    quiet()
    grid = grid or make_grid(case["grid"])
    data = _pdevars_data(case, grid)
    v = case["vars"][i]
    names = [w["name"] for w in case["vars"]]
    consts = {w: pde.ScalarField(grid, data[names.index(w)]) for w in names if w != v["name"] and w == v["coupled"]}
    if assign is None:
        bc_ops = _pdevars_bc_ops(case, only=v["name"])
    else:
        table = dict((k, bc) for k, bc in case["bc_ops"])
        bc_ops = {f"{v['name']}:{o}": bc_arg(table[k]) if k != "*:*" else bc_arg(case["bc"]) for o, k in assign.items()}
    eq = pde.PDE({v["name"]: v["expr"]}, bc=bc_arg(case["bc"]), bc_ops=bc_ops, consts=consts)
    return lst(_pdevars_query(eq, pde.ScalarField(grid, data[i], label=v["name"]), q))


def _pdevars_single_safe(case, i, q, assign=None):
    try:
        return pdevars_single(case, i, q, assign=assign)
    except Exception as e:
        return "EXC:" + exc_class(e) + ":" + str(e)[:200]


def pdevars_eval(case):
    """every run of the configuration in its own fresh process (forked from one that only imported pde); the reference
    of every (variable, kind of query) in its own fresh process"""
    runs = [forked_call(pdevars_multi, case, run) for run in case["runs"]]
    refs = {}
    for run in case["runs"]:
        for i in run["order"]:
            if (i, PDEVARS_REF_QUERY) not in refs:
                refs[(i, PDEVARS_REF_QUERY)] = forked_call(_pdevars_single_safe, case, i, PDEVARS_REF_QUERY)
    bad = []
    for k, (run, res) in enumerate(zip(case["runs"], runs)):
        if isinstance(res, str) or "rates" not in res:
            continue
        for i in run["order"]:
            ref = refs[(i, PDEVARS_REF_QUERY)]
            if isinstance(ref, str) or not same_result(res["rates"][str(i)], ref):
                bad.append([k, i])
    return runs, refs, bad


def pdevars_worker(case):
    """evaluates a configuration; on a difference the configuration is shrunk (one run, no earlier requests, fewer
    variables) while some variable's rate still differs from its single-variable PDE"""
    import pde  # noqa: F401
    warm_third_party()
    runs, refs, bad = pdevars_eval(case)
    out = {"runs": runs, "refs": [[i, q, r] for (i, q), r in refs.items()], "bad": bad}
    if bad:
        cur = dict(copy.deepcopy(case), runs=[copy.deepcopy(case["runs"][bad[0][0]])])
        cands = lambda c: ([dict(copy.deepcopy(c), runs=[dict(c["runs"][0], pre=[])])] if c["runs"][0]["pre"] else []) + \
            [drop_pdevar(c, j) for j in range(len(c["vars"])) if len(c["vars"]) > 2]
        budget, changed = 8, True
        while changed and budget > 0:
            changed = False
            for cand in cands(cur):
                budget -= 1
                if cand is not None and pdevars_eval(cand)[2]:
                    cur, changed = cand, True
                    break
        r2, f2, b2 = pdevars_eval(cur)
        out["shrunk"] = {"case": cur, "runs": r2, "refs": [[i, q, r] for (i, q), r in f2.items()], "bad": b2}
    return out


def pdevars_replay_worker(case):
    import pde  # noqa: F401
    warm_third_party()
    runs, refs, bad = pdevars_eval(case)
    return {"runs": runs, "refs": [[i, q, r] for (i, q), r in refs.items()], "bad": bad}


def drop_pdevar(case, j):
    """the configuration without variable j (None if another variable refers to it)"""
    name = case["vars"][j]["name"]
    if any(v["coupled"] == name for k, v in enumerate(case["vars"]) if k != j):
        return None
    c = copy.deepcopy(case)
    del c["vars"][j]
    c["bc_ops"] = [[k, bc] for k, bc in c["bc_ops"] if k.split(":")[0] != name]
    ren = lambda i: i - 1 if i > j else i
    run = c["runs"][0]
    run["order"] = [ren(i) for i in run["order"] if i != j]
    run["pre"] = [[k, (ren(a) if k == "single" else [ren(i) for i in a if i != j])] for k, a in run["pre"] if not (k == "single" and a == j)]
    return c


def pdevars_diagnose(item):
    """rate of one variable when every operator is built with the `bc_ops` entry the model assigns under the table keyed by
    the operator only (which entry explains the observed rate)"""
    import pde  # noqa: F401
    case, i, q, assign = item
    return forked_call(_pdevars_single_safe, case, i, q, assign)


def pdevars_model_request(case, run, res):
    names = [v["name"] for v in case["vars"]]
    return {"vars": [{"name": n, "ops": ops} for n, ops in res["ops_iter"]], "bcs": [k.split(":") for k in res["bcs_keys"]]}


def clean_worker(item):
    """histories and multi-variable PDEs share one pool of interpreters that only import pde and fork"""
    return pdevars_worker(item) if item.get("kind") == "pdevars" else hist_worker(item)


def pdevars_pending(ctx, batch, cases, res, leg):
    """model requests (`c04.pde_table`, fed with the keys of the real `PDE.bcs` and the real operator sets): one per run
    of every configuration, one for the run of a shrunk configuration"""
    pend = []
    for c, r in zip(cases, res):
        if isinstance(r, str):
            ctx.count(c, nontrivial=False, leg=leg + ":worker-exception")
            died(ctx, leg, c, r, "PDE")
            continue
        add = lambda cc, rr: [None if isinstance(out, str) else batch.add("c04.pde_table", pdevars_model_request(cc, run, out))
                              for run, out in zip(cc["runs"], rr["runs"])]
        pend.append((c, r, add(c, r), add(r["shrunk"]["case"], r["shrunk"]) if "shrunk" in r else None, leg))
    return pend


def judge_pdevars(ctx, pend, answers):
    """tie: the entries of `PDE.bcs` the real PDE built operators with (`diagnostics['pde']['bcs_used']`) = `bcsUsed` of the
    table keyed by (variable, operator).  monitor: the rate of EVERY variable = its single-variable PDE in a fresh process.
    A failing configuration is reported in its shrunk form, with the diagnosis whether the observed rate is the one the
    table keyed by the operator only produces."""
    fails, diag_items = [], []

    def model_of(idx):
        if idx is None:
            return None
        st, val = answers[idx]
        return val if st == "ok" else None

    def failures(c, r, idxs, leg):
        out_ = []
        for k, (run, out) in enumerate(zip(c["runs"], r["runs"])):
            if isinstance(out, str) or "rates" not in out:
                continue
            refs = {(i, q): x for i, q, x in r["refs"]}
            names = [v["name"] for v in c["vars"]]
            for i in run["order"]:
                ref = refs[(i, PDEVARS_REF_QUERY)]
                if isinstance(ref, str) or not same_result(out["rates"][str(i)], ref):
                    one = dict(c, runs=[run], variable=names[i])
                    mf = {"leg": leg, "case": one, "expected": {"single_variable_pde_in_fresh_process": ref},
                          "observed": {"symptom": "pdevars", "variable": names[i], "rate_in_multi_variable_pde": out["rates"][str(i)], "bcs_used": out["bcs_used"]}}
                    m = model_of(idxs[k])
                    assign = {o: out["bcs_keys"][j] for v, o, j in m["shared"]["served"] if v == names[i] and j is not None} if m else None
                    out_.append((mf, (dict(c, runs=[run]), i, PDEVARS_REF_QUERY, assign) if assign else None))
        return out_

    for c, r, idxs, idxs_shrunk, leg in pend:
        differ = len({json.dumps(bc, sort_keys=True) for _, bc in c["bc_ops"]} | {json.dumps(c["bc"], sort_keys=True)}) > 1
        for k, (run, out) in enumerate(zip(c["runs"], r["runs"])):
            one = dict(c, runs=[run])
            ctx.count(one, nontrivial=bool(differ and not isinstance(out, str) and "rates" in out), leg=leg)
            if isinstance(out, str):
                died(ctx, leg, one, out if out.startswith("CRASH") else "EXC: " + out, "PDE")
                continue
            ctx.impl_traces += 1
            if "rates" not in out:
                ctx.hist("malformed", "pdevars:" + out.get("error", "?")[:40])
                continue
            ctx.monitor_evals += len(run["order"])
            if idxs[k] is not None and answers[idxs[k]][0] != "ok":
                ctx.disagree("pdevars", one, f"model error {answers[idxs[k]][1]}", out["bcs_used"])
            m = model_of(idxs[k])
            if m is not None:
                used_model = sorted(out["bcs_keys"][j] for j in m["perVar"]["used"])
                if used_model != out["bcs_used"]:
                    shared = sorted(out["bcs_keys"][j] for j in m["shared"]["used"])
                    ctx.disagree("pdevars", one, {"bcs_used_model_per_variable_table": used_model},
                                 {"bcs_used_real": out["bcs_used"], "equals_table_keyed_by_operator_only": shared == out["bcs_used"]},
                                 "boundary entries used to build the operators of a multi-variable PDE")
        fl = failures(c, r, idxs, leg)
        if fl and "shrunk" in r:
            fs = failures(r["shrunk"]["case"], r["shrunk"], idxs_shrunk, leg)
            fl = fs[:1] or fl
        for mf, d in fl:
            fails.append(mf)
            if d is not None:
                diag_items.append((mf, d))
    if diag_items:
        dres = run_many("harness.c04", "pdevars_diagnose", [d for _, d in diag_items], env={"NUMBA_DISABLE_JIT": "1"}, procs=16)
        for (mf, d), x in zip(diag_items, dres):
            if not isinstance(x, str) and same_result(x, mf["observed"]["rate_in_multi_variable_pde"]):
                mf["observed"]["explained_by"] = {"table_keyed_by_operator_only": True, "operators_built_with_entries": d[3]}
    for mf in fails:
        ctx.monitor_fail(mf["leg"], mf["case"], mf["observed"], mf["expected"], "pdevars: " + KEY_PDEVARS["symptom"], key=KEY_PDEVARS)


def jit_worker(item):
    """one process pool for everything that needs the JIT: compiled histories, compiled heap histories and the
    heap-dependence monitor on compiled operators"""
    if item.get("kind") == "heap":
        return heap_worker_forked(item)
    if item.get("kind") == "heapdep":
        import pde  # noqa: F401
        return forked_call(real_heapdep_jit, item)
    if item.get("kind") == "pdevars":
        return pdevars_worker(item)
    return hist_worker(item)


# ==========================================================================================
def last_touches_cache(h):
    """non-triviality of a history: an earlier operation filled a cache the last call consults"""
    ops = h["ops"]
    last = ops[-1]
    fam = {"make_operator": "op", "field_op": "op", "rate": "op", "rhs": "op", "solve": "op", "diffusion": "op", "evaluate": "op", "backend_op": "op", "ghost_setter": "ghost",
           "interpolate": "interp", "nobc": "nobc"}
    return any(o["op"] in QUERY_OPS and fam.get(o["op"]) == fam.get(last["op"]) for o in ops[:-1])


def frozen_const_pattern(h):
    """the last query goes through the numba backend of a PDE with a field-valued constant that was written in place
    after an earlier numba query of the same PDE (only meaningful when the history ran compiled)"""
    ops = h["ops"]
    last = ops[-1]
    if last["op"] not in ("rhs", "solve") or last.get("backend") != "numba":
        return False
    pdes = {o["name"]: o for o in ops if o["op"] == "pde"}
    p = pdes.get(last.get("pde"))
    if not p:
        return False
    kfields = {v[1] for v in p.get("consts", {}).values() if v[0] == "field"}
    seen_query = False
    for o in ops[:-1]:
        if o["op"] in ("rhs", "solve") and o.get("pde") == last["pde"] and o.get("backend") == "numba":
            seen_query = True
        elif seen_query and o["op"] == "write" and o["field"] in kfields:
            return True
    return False


REREG_CALL_SITE = {"field_op": "DataFieldBase.apply_operator", "make_operator": "GridBase.make_operator", "nobc": "GridBase.make_operator_no_bc",
                   "backend_op": "NumbaBackend.make_operator", "rate": "PDE._prepare_cache", "rhs": "PDE._prepare_cache", "solve": "PDE._prepare_cache",
                   "evaluate": "evaluate"}


def rereg_key(h):
    """histories with registrations whose last query uses a registered name: the key names the call site of the last query.
    The three call sites of finding I get their narrow key only in the situation of the finding: the SAME cache (grid
    object / backend / PDE object and its backend) was asked with the name before the last change of the registry."""
    ops = h["ops"]
    last = ops[-1]
    changes = [i for i, o in enumerate(ops) if o["op"] in ("register", "unregister")]
    if not changes:
        return None
    names = {o["name"] for o in ops if o["op"] in ("register", "unregister")}
    pdes = {o["name"]: o for o in ops if o["op"] == "pde"}

    def uses(o):
        if o["op"] in ("rate", "rhs", "solve"):
            return any(n + "(" in "".join(pdes.get(o.get("pde"), {}).get("rhs", {}).values()) for n in names)
        if o["op"] == "evaluate":
            return any(n + "(" in o.get("expr", "") for n in names)
        return o.get("operator") in names
    if last["op"] not in REREG_CALL_SITE or not uses(last):
        return None
    pde_backend = lambda o: "numpy" if o["op"] == "rate" else o.get("backend")
    before = [o for o in ops[:changes[-1]] if o["op"] == last["op"] or (last["op"] in ("rate", "rhs", "solve") and o["op"] in ("rate", "rhs", "solve"))]
    if last["op"] == "nobc" and any(o["grid"] == last["grid"] and o.get("operator") == last["operator"] and o.get("backend") == last.get("backend") for o in before):
        return KEY_REREG_NOBC
    if last["op"] == "backend_op" and last.get("backend") == "numba" and any(o.get("operator") == last["operator"] and o.get("backend") == "numba" for o in before):
        return KEY_REREG_BACKEND
    if last["op"] in ("rate", "rhs", "solve") and any(o.get("pde") == last.get("pde") and pde_backend(o) == pde_backend(last) for o in before):
        return KEY_REREG_PDE
    return {"call_site": REREG_CALL_SITE[last["op"]], "argument": "operator given by name",
            "symptom": "result differs from a fresh process that performed only the last registration"}


def hist_what(key):
    """the group a failing history is reported in (one replay file per group): histories with registrations are grouped by
    the call site of the last query"""
    return "history: " + (str(key.get("call_site")) + ": " if "argument" in key else "") + str(key.get("symptom"))


def history_key(h, res, mode="S"):
    """which defect a failing history exhibits (for known_findings matching)"""
    ops = h["ops"]
    last = ops[-1]
    kinds = [o["op"] for o in ops]
    if isinstance(res, dict) and res.get("one_sided"):
        return dict(KEY_CRASH, call_site="history:" + last["op"])
    if isinstance(res, dict) and res.get("class") == "mutation":
        return {"call_site": "history:" + last["op"], "symptom": "an argument object of the caller is mutated (the value is not affected)"}
    rk = rereg_key(h)
    if rk is not None:
        return rk
    if mode == "J" and frozen_const_pattern(h):
        return KEY_FROZEN
    if last["op"] == "interpolate" and kinds[:-1].count("interpolate") >= 1 and any(k in kinds for k in ("collection", "assign_full")):
        return KEY_F2
    if "bc" in last and isinstance(last["bc"], dict):
        strip = lambda bc: {k: (v if isinstance(v, str) else {f: x for f, x in v.items() if f != "type"}) for k, v in bc.items()}
        types = lambda bc: {k: (v if isinstance(v, str) else v["type"]) for k, v in bc.items()}
        for o in ops[:-1]:
            if isinstance(o.get("bc"), dict) and strip(o["bc"]) == strip(last["bc"]) and types(o["bc"]) != types(last["bc"]):
                return KEY_F1
    if last["op"] in ("rate", "rhs", "solve") and "collection" in kinds and any(o["op"] == "pde" and any(v[0] == "field" for v in o.get("consts", {}).values()) for o in ops):
        return KEY_PDE
    if last["op"] == "interpolate":
        fills = [json.dumps(o.get("fill")) for o in ops if o["op"] == "interpolate"]
        if len(set(fills)) > 1:
            return KEY_NEG
    return dict(GENERIC_KEY, call_site="history:" + last["op"])


def run_histories(ctx):
    rng = ctx.rng
    n_s = ctx.budget(150, 1200)
    n_j = ctx.budget(6, 48)
    n_new = ctx.budget(8, 32)
    hs = [gen_history(rng, ctx.hist) for _ in range(n_s)] + fixed_histories()
    pvs = fixed_pdevars() + [gen_pdevars(rng, ctx.hist) for _ in range(ctx.budget(36, 400))]
    t0, c0 = time.time(), _cpu()
    items = [x for tpl in itertools.zip_longest(hs, pvs) for x in tpl if x is not None]
    res_items = run_many("harness.c04", "clean_worker", items, env={"NUMBA_DISABLE_JIT": "1"}, procs=16)
    by_id = {id(x): r for x, r in zip(items, res_items)}
    res = [by_id[id(h)] for h in hs]
    res_pvs = [by_id[id(c)] for c in pvs]
    ctx.extra["t_hist_S"] = [round(time.time() - t0, 1), round(_cpu() - c0, 1)]
    t0, c0 = time.time(), _cpu()
    hj = [gen_history(rng, ctx.hist, jit=True) for _ in range(n_j)] + fixed_histories()[:2] + fixed_histories_jit()
    heapj = fixed_heap_jit() + [gen_heap_jit_case(rng, ctx.hist) for _ in range(ctx.budget(1, 20))]
    depj = fixed_heapdep_jit() + [gen_heapdep_jit(rng, ctx.hist) for _ in range(ctx.budget(0, 10))]
    pvj = fixed_pdevars(jit=True) + [gen_pdevars(rng, ctx.hist, jit=True) for _ in range(ctx.budget(1, 10))]
    # interleave so that every process gets its share of all kinds
    items = [x for tpl in itertools.zip_longest(hj, heapj, depj, pvj) for x in tpl if x is not None]
    res_items = run_many("harness.c04", "jit_worker", items, env={"NUMBA_DISABLE_JIT": "0"}, procs=16)
    by_id = {id(x): r for x, r in zip(items, res_items)}
    resj = [by_id[id(h)] for h in hj]
    judge_heap_jit(ctx, heapj, [by_id[id(c)] for c in heapj])
    judge_heapdep_jit(ctx, depj, [by_id[id(c)] for c in depj])
    from harness.common.lean import LeanBatch
    bpv = LeanBatch(ctx.workdir)
    pend_pv = pdevars_pending(ctx, bpv, pvs, res_pvs, "pdevars:S") + pdevars_pending(ctx, bpv, pvj, [by_id[id(c)] for c in pvj], "pdevars:J")
    judge_pdevars(ctx, pend_pv, bpv.run())
    ctx.extra["t_hist_J"] = [round(time.time() - t0, 1), round(_cpu() - c0, 1)]
    for mode, hl, rl in (("S", hs, res), ("J", hj, resj)):
        for h, r in zip(hl, rl):
            leg = f"histories:{mode}"
            if isinstance(r, str):
                ctx.count(h, nontrivial=False, leg=leg + ":worker-exception")
                died(ctx, leg, h, r, "history")
                continue
            if "malformed" in r:
                ctx.hist("malformed", r["malformed"][:50])
                if r["malformed"].startswith("CRASH-both"):
                    ctx.note(f"history crashes with and without the earlier queries (not judged): {json.dumps(h)[:300]}")
                ctx.count(h, nontrivial=False, leg=leg + ":malformed")
                continue
            ctx.count(h, nontrivial=last_touches_cache(h) and not isinstance(r["fresh"], str), leg=leg)
            ctx.hist("history-last", h["ops"][-1]["op"] + (":" + r["fresh"][:30] if isinstance(r["fresh"], str) else ""))
            ctx.hist("history-len", len(h["ops"]))
            for o in h["ops"]:
                if o["op"] in ("rate", "rhs", "solve", "diffusion", "make_operator", "field_op", "nobc", "ghost_setter"):
                    ctx.hist("history-query-backend", f"{o['op']}:{o.get('backend')}")
            ctx.monitor_evals += 1
            if not r["same"]:
                hh = r.get("shrunk", h)
                key = history_key(hh, r, mode)
                ctx.monitor_fail(leg, hh, {"last_result_in_history": r["full"], "failure_class": r.get("class")},
                                 {"same_call_in_fresh_interpreter": r["fresh"]}, hist_what(key), key=key)
    # a subset in really new interpreters (one history per process), validating the fork shortcut
    from harness.common.lean import BrokenCheck
    t0, c0 = time.time(), _cpu()
    sub = [h for h, r in zip(hs, res) if isinstance(r, dict) and "malformed" not in r and r["same"]][:n_new]
    for start in range(0, len(sub), 8):
        chunk = sub[start:start + 8]
        try:
            full = run_many("harness.c04", "hist_exec_full", chunk, env={"NUMBA_DISABLE_JIT": "1"}, procs=16)
            fresh = run_many("harness.c04", "hist_exec_fresh", chunk, env={"NUMBA_DISABLE_JIT": "1"}, procs=16)
        except BrokenCheck:
            # an interpreter died: find out which history does it (one at a time)
            full, fresh = [], []
            for h in chunk:
                for lst_, fn in ((full, "hist_exec_full"), (fresh, "hist_exec_fresh")):
                    try:
                        lst_.append(run_many("harness.c04", fn, [h], env={"NUMBA_DISABLE_JIT": "1"}, procs=1)[0])
                    except BrokenCheck as e:
                        lst_.append("CRASH:new-interpreter:" + str(e)[-200:])
        for h, a, b in zip(chunk, full, fresh):
            ctx.count(dict(h, new_interpreter=True), nontrivial=last_touches_cache(h), leg="histories:new-interpreter")
            ctx.monitor_evals += 1
            if not hist_same(a, b) or _crash(a) or (isinstance(a, str) and a.startswith("EXC: ")):
                # the forked run of this history agreed: a difference (or a dead interpreter) here is one more failure
                key = history_key(h, {"one_sided": _crash(a) or _crash(b), "class": hist_class(a, b)}, "S")
                ctx.monitor_fail("histories:new-interpreter", h, {"last_result_in_history": a, "failure_class": hist_class(a, b)}, {"same_call_in_fresh_interpreter": b},
                                 hist_what(key), key=key)
    ctx.extra["t_hist_new"] = [round(time.time() - t0, 1), round(_cpu() - c0, 1)]


def fixed_histories():
    """regression histories of the repaired defects (always run)"""
    g8 = {"cls": "UnitGrid", "shape": [8], "bounds": [[0.0, 8.0]], "periodic": [False]}
    g4 = {"cls": "UnitGrid", "shape": [4], "bounds": [[0.0, 4.0]], "periodic": [False]}
    v0 = {"x-": {"type": "value", "value": ["i", 0]}, "x+": {"type": "value", "value": ["i", 0]}}
    d0 = {"x-": {"type": "derivative", "value": ["i", 0]}, "x+": {"type": "derivative", "value": ["i", 0]}}
    out = []
    # F1
    out.append({"grids": [g8, g8], "ops": [
        {"op": "make_operator", "grid": 0, "operator": "laplace", "bc": v0, "backend": "numba", "seed": 11},
        {"op": "make_operator", "grid": 0, "operator": "laplace", "bc": d0, "backend": "numba", "seed": 11}]})
    # F2
    out.append({"grids": [g4, g4], "ops": [
        {"op": "field", "name": "f0", "grid": 0, "rank": 0, "seed": 1},
        {"op": "interpolate", "field": "f0", "seed": 2, "fill": ["none"], "outside": False},
        {"op": "collection", "name": "c0", "fields": ["f0"], "copy": False},
        {"op": "write", "field": "f0", "seed": 3},
        {"op": "interpolate", "field": "f0", "seed": 2, "fill": ["none"], "outside": False}]})
    # A
    out.append({"grids": [g4, g4], "ops": [
        {"op": "field", "name": "f0", "grid": 0, "rank": 0, "seed": 1},
        {"op": "interpolate", "field": "f0", "seed": 2, "fill": ["i", -1], "outside": True},
        {"op": "interpolate", "field": "f0", "seed": 2, "fill": ["i", -2], "outside": True}]})
    # B
    out.append({"grids": [g4, g4], "ops": [
        {"op": "make_operator", "grid": 0, "operator": "laplace", "bc": {"x-": {"type": "value", "value": ["i", 1]}, "x+": {"type": "value", "value": ["i", 1]}}, "backend": "numba", "seed": 5},
        {"op": "make_operator", "grid": 0, "operator": "laplace", "bc": {"x-": {"type": "value", "value": ["f", 5e-324]}, "x+": {"type": "value", "value": ["f", 5e-324]}}, "backend": "numba", "seed": 5}]})
    # C
    out.append({"grids": [g4, g4], "ops": [
        {"op": "field", "name": "f0", "grid": 0, "rank": 0, "seed": 1},
        {"op": "field", "name": "f1", "grid": 0, "rank": 0, "seed": 2},
        {"op": "pde", "name": "p0", "rhs": {"c": "k * c"}, "bc": "auto_periodic_neumann", "consts": {"k": ["field", "f1"]}},
        {"op": "rate", "pde": "p0", "state": "f0"},
        {"op": "collection", "name": "c0", "fields": ["f1"], "copy": False},
        {"op": "write", "field": "f1", "seed": 3},
        {"op": "rate", "pde": "p0", "state": "f0"}]})
    # shared argument objects: two PDEs that differ in the kind of condition are given the same dict of helper functions
    for be1, q2 in (("numba", {"op": "rhs", "pde": "p1", "state": "f0", "backend": "numba"}), ("numba", {"op": "rate", "pde": "p1", "state": "f0"}),
                    ("numpy", {"op": "rhs", "pde": "p1", "state": "f0", "backend": "numba"})):
        out.append({"grids": [g8, g8], "ops": [
            {"op": "field", "name": "f0", "grid": 0, "rank": 0, "seed": 1},
            {"op": "shared", "name": "u0", "what": "user_funcs", "value": ["f"]},
            {"op": "pde", "name": "p0", "rhs": {"c": "laplace(c) + f(c)"}, "bc": v0, "consts": {}, "user_funcs": "u0"},
            {"op": "rhs", "pde": "p0", "state": "f0", "backend": be1},
            {"op": "pde", "name": "p1", "rhs": {"c": "laplace(c) + f(c)"}, "bc": d0, "consts": {}, "user_funcs": "u0"},
            q2]})
    # one PDE object, states on grids that differ only in their class (both orders; rate and compiled rhs)
    gp = {"cls": "PolarSymGrid", "shape": [8], "bounds": [[0.0, 4.0]], "periodic": [False]}
    gs = {"cls": "SphericalSymGrid", "shape": [8], "bounds": [[0.0, 4.0]], "periodic": [False]}
    gc = {"cls": "CylindricalSymGrid", "shape": [3, 4], "bounds": [[0.0, 3.0], [0.0, 4.0]], "periodic": [False, False]}
    gk = {"cls": "CartesianGrid", "shape": [3, 4], "bounds": [[0.0, 3.0], [0.0, 4.0]], "periodic": [False, False]}
    for ga, gb, q in ((gp, gs, "rate"), (gs, gp, "rate"), (gp, gs, "rhs"), (gc, gk, "rate"), (gk, gc, "rhs")):
        out.append({"grids": [ga, gb], "ops": [
            {"op": "field", "name": "f0", "grid": 0, "rank": 0, "seed": 1},
            {"op": "field", "name": "f1", "grid": 1, "rank": 0, "seed": 1},
            {"op": "pde", "name": "p0", "rhs": {"c": "laplace(c)"}, "bc": "auto_periodic_neumann", "consts": {}},
            {"op": q, "pde": "p0", "state": "f0", "backend": "numba"},
            {"op": q, "pde": "p0", "state": "f1", "backend": "numba"}]})
    out += fixed_histories_rereg()
    # D
    gm1 = {"cls": "CartesianGrid", "shape": [4], "bounds": [[-1.0, 1.0]], "periodic": [False]}
    gm2 = {"cls": "CartesianGrid", "shape": [4], "bounds": [[-2.0, 1.0]], "periodic": [False]}
    out.append({"grids": [gm1, gm2], "ops": [
        {"op": "field", "name": "f0", "grid": 0, "rank": 0, "seed": 1},
        {"op": "field", "name": "f1", "grid": 1, "rank": 0, "seed": 1},
        {"op": "pde", "name": "p0", "rhs": {"c": "laplace(c)"}, "bc": v0, "consts": {}},
        {"op": "rate", "pde": "p0", "state": "f0"},
        {"op": "pde", "name": "p1", "rhs": {"c": "laplace(c)"}, "bc": v0, "consts": {}},
        {"op": "rate", "pde": "p1", "state": "f1"}]})
    return out


def fixed_histories_rereg(sites=("field_op", "make_operator", "nobc", "backend_op", "pde_same", "field_op:other", "field_op:removed")):
    """a custom operator registered twice under one name (2*c, then 3*c), asked through every call site on the grid object
    that was asked before the second registration (seeded change C04-3: `field_op`; finding I: `nobc`, `backend_op`,
    `pde_same`), on the equal grid object that was never asked, and after the removal of the entry"""
    g4 = {"cls": "UnitGrid", "shape": [4], "bounds": [[0.0, 4.0]], "periodic": [False]}
    slot = {"backend": "numba", "grid_cls": "UnitGrid", "name": "cop"}
    bc = "auto_periodic_neumann"
    out = []
    for site in sites:
        site, _, how = site.partition(":")
        gi = 1 if how == "other" else 0
        q = {"field_op": lambda g: {"op": "field_op", "field": f"f{g}", "operator": "cop", "bc": bc, "backend": "numba"},
             "make_operator": lambda g: {"op": "make_operator", "grid": g, "operator": "cop", "bc": bc, "backend": "numba", "seed": 3},
             "nobc": lambda g: {"op": "nobc", "grid": g, "operator": "cop", "backend": "numba", "kwargs": [], "seed": 3},
             "backend_op": lambda g: {"op": "backend_op", "grid": g, "operator": "cop", "bc": bc, "backend": "numba", "seed": 3},
             "pde_same": lambda g: {"op": "rate", "pde": "p0", "state": f"f{g}"}}[site]
        change = dict({"op": "unregister"}, **slot) if how == "removed" else dict({"op": "register", "factory": {"kind": "scale", "f": 3.0}, "fid": 2}, **slot)
        out.append({"grids": [g4, g4], "ops": [
            {"op": "field", "name": "f0", "grid": 0, "rank": 0, "seed": 1},
            {"op": "field", "name": "f1", "grid": 1, "rank": 0, "seed": 1},
            {"op": "pde", "name": "p0", "rhs": {"c": "cop(c)"}, "bc": bc, "consts": {}},
            dict({"op": "register", "factory": {"kind": "scale", "f": 2.0}, "fid": 1}, **slot),
            q(0), change, q(gi)]})
    return out


def fixed_histories_jit():
    """compiled only: finding E (in-place write to a field-valued constant between two requests of the compiled rhs)"""
    g4 = {"cls": "UnitGrid", "shape": [4], "bounds": [[0.0, 4.0]], "periodic": [False]}
    return [{"grids": [g4, g4], "ops": [
        {"op": "field", "name": "f0", "grid": 0, "rank": 0, "seed": 1},
        {"op": "field", "name": "f1", "grid": 0, "rank": 0, "seed": 2},
        {"op": "pde", "name": "p0", "rhs": {"c": "k * c"}, "bc": "auto_periodic_neumann", "consts": {"k": ["field", "f1"]}},
        {"op": "rhs", "pde": "p0", "state": "f0", "backend": "numba"},
        {"op": "write", "field": "f1", "seed": 3},
        {"op": "rhs", "pde": "p0", "state": "f0", "backend": "numba"}]}] + fixed_histories_rereg(sites=("field_op",))


def died(ctx, leg, case, r, call_site):
    """a string instead of a result: the real code killed the interpreter ('CRASH:...': the property's monitor fails -
    the call returns nothing at all, while nothing in the case is malformed) or raised where nothing may raise
    ('EXC: ...': the tie for this case is broken)"""
    if r.startswith("CRASH"):
        ctx.monitor_evals += 1
        ctx.monitor_fail(leg, case, {"symptom": "crash", "outcome": r[:300]}, {"a_result": True}, f"{leg}: the interpreter dies",
                         key={"call_site": call_site, "symptom": "the interpreter dies (crash of the real code)"})
    else:
        ctx.disagree("worker-exception", case, "no exception", r[-600:], "unexpected exception while executing the real code for this case")


def light_worker(case):
    """heap and registry cases share one pool of interpreters (every pool costs 16 imports of pde)"""
    return real_registry(case) if case.get("kind") == "registry" else real_heap(case)


def light_worker_forked(case):
    import pde  # noqa: F401
    return forked_call(real_registry if case.get("kind") == "registry" else real_heap, case)


def run_heap_registry(ctx, batch):
    rng = ctx.rng
    heap = [gen_heap_case(rng, ctx.hist) for _ in range(ctx.budget(400, 5000))]
    reg = fixed_registry_cases() + [gen_registry_case(rng, ctx.hist) for _ in range(ctx.budget(150, 1500))]
    # interleaved, so that the contiguous shares of the processes are balanced
    tagged = [x for tpl in itertools.zip_longest(heap, reg) for x in tpl if x is not None]
    res = run_resilient("light_worker", tagged, {"NUMBA_DISABLE_JIT": "1"})
    by_id = {id(c): r for c, r in zip(tagged, res)}
    return pend_heap(ctx, batch, heap, [by_id[id(c)] for c in heap]), pend_registry(ctx, batch, reg, [by_id[id(c)] for c in reg])


def pend_heap(ctx, batch, cases, res):
    pend = []
    for c, r in zip(cases, res):
        if isinstance(r, str):
            ctx.count(c, nontrivial=False, leg="heap:died")
            died(ctx, "heap", c, r, "heap")
            continue
        i = batch.add("c04.replay_heap", {"inval": True, "check": True, "init": c["init"], "events": r["events"]})
        pend.append((c, r, i))
    return pend


def judge_heap(ctx, pend, answers):
    for c, r, i in pend:
        kinds = [e[0] for e in c["events"]]
        nontrivial = any(k in kinds for k in ("interp", "rate")) and any(k in kinds for k in ("relink", "assign_new", "write"))
        ctx.count(c, nontrivial=nontrivial, leg="heap")
        ctx.impl_traces += 1
        st, val = answers[i]
        if st != "ok":
            ctx.disagree("heap", c, f"model error {val}", r["read"])
            continue
        if list(val["read"]) != list(r["read"]):
            ctx.disagree("heap", c, {"model_reads": val["read"]}, {"real_reads": r["read"]}, "values read by cached helpers")
        ctx.monitor_evals += 1
        if list(val["ref"]) != list(r["read"]):
            key = KEY_PDE if "rate" in kinds and not any(a != b for a, b in zip(val["ref"], r["read"]) if False) and _first_bad_is_rate(c, val["ref"], r["read"]) else KEY_F2
            ctx.monitor_fail("heap", c, {"values_read": r["read"]}, {"current_content": val["ref"]},
                             "heap: " + key["symptom"], key=key)


def _first_bad_is_rate(c, ref, read):
    return _first_bad(c, ref, read) == "rate"


def _first_bad(c, ref, read):
    reads = [e[0] for e in c["events"] if e[0] in ("interp", "rate", "rate_jit")]
    for k, a, b in zip(reads, ref, read):
        if a != b:
            return k
    return None


def judge_heap_jit(ctx, cases, results):
    """compiled heap histories against the model.  The tie accepts exactly two derivations of the compiled rate: the code
    as it is (`HeapFix.cur`: the compiled function keeps the copy numba froze) and the code with the proposed fix E
    (`HeapFix.fixE`); which one applies is decided by the first fixed history and must then hold for ALL histories of
    the run.  The monitor is independent of that: every value read must be the current content (`href`)."""
    from harness.common.lean import LeanBatch
    b = LeanBatch(ctx.workdir)
    idx = []
    for c, r in zip(cases, results):
        if isinstance(r, str):
            idx.append(None)
            continue
        idx.append(tuple(b.add("c04.replay_heap", {"inval": True, "check": True, "content": cont, "init": c["init"], "events": r["events"]})
                         for cont in (False, True)))
    ans = b.run()
    deriv = None
    for c, r, ii in zip(cases, results, idx):
        kinds = [e[0] for e in c["events"]]
        ctx.count(c, nontrivial="rate_jit" in kinds and any(k in kinds for k in ("write", "relink", "assign_new")), leg="heap:jit")
        if ii is None:
            died(ctx, "heap:jit", c, r, "heap")
            continue
        ctx.impl_traces += 1
        models = []
        for i in ii:
            st, val = ans[i]
            models.append(val if st == "ok" else None)
        if any(m is None for m in models):
            ctx.disagree("heap:jit", c, f"model error {[ans[i][1] for i in ii]}", r["read"])
            continue
        match = [list(m["read"]) == list(r["read"]) for m in models]
        if deriv is None:
            # the first case is the fixed history [rate_jit, write, rate_jit] on which the two derivations differ
            deriv = 0 if match[0] else 1 if match[1] else None
            ctx.hist("heap-jit-derivation", {0: "code as it is (frozen copy, finding E open)", 1: "fix E (content compared)", None: "neither"}[deriv])
            if deriv is None:
                deriv = 0
        if not match[deriv]:
            ctx.disagree("heap:jit", c, {"model_reads": models[deriv]["read"], "derivation": ["HeapFix.cur", "HeapFix.fixE"][deriv]},
                         {"real_reads": r["read"]}, "values read by the compiled rate / cached helpers")
        ctx.monitor_evals += 1
        ref = models[0]["ref"]
        if list(ref) != list(r["read"]):
            fb = _first_bad(c, ref, r["read"])
            key = KEY_FROZEN if fb == "rate_jit" and not _stale_needs_relink(c, ref, r["read"]) else KEY_PDE if fb in ("rate", "rate_jit") else KEY_F2
            ctx.monitor_fail("heap:jit", c, {"values_read": r["read"]}, {"current_content": ref}, "heap: " + key["symptom"], key=key)


def _stale_needs_relink(c, ref, read):
    """is the first stale compiled read explained only by a change of the array object (finding C), i.e. no in-place write
    happened since the compiled rate was last evaluated or the array object last changed?"""
    reads = iter(zip(ref, read))
    wrote = False
    for e in c["events"]:
        if e[0] == "write":
            wrote = True
        elif e[0] in ("interp", "rate", "rate_jit"):
            a, b = next(reads)
            if a != b:
                return not wrote
            if e[0] == "rate_jit":
                wrote = False
    return False


def _cpu():
    import resource
    r = resource.getrusage(resource.RUSAGE_CHILDREN)
    return r.ru_utime + r.ru_stime


ALL_LEGS = "pairs,heap,histories"  # heap: + registry; histories: + pdevars


def _selftest():
    """the comparison the monitors rest on (reviewer finding 8): elementwise, NaN- and inf-safe"""
    inf, nan = float("inf"), float("nan")
    good = [([1e18, 1.0], [1e18, 1.0]), ([inf, 1.0], [inf, 1.0]), ([nan, 1.0], [nan, 1.0]), ([1.0], [1.0 + 1e-13]), ([], [])]
    bad = [([1e18, 1.0], [1e18, 2.0]), ([inf, 1.0], [inf, 2.0]), ([inf], [5.0]), ([inf], [-inf]), ([nan], [1.0]), ([1.0], [nan]),
           ([4.6e18, 0.0], [4.6e18, 1e3]), ([1.0, 2.0], [1.0]), ([1.0], [1.0 + 1e-6])]
    for x, y in good:
        if not (arr_close(x, y) and same_result(x, y)):
            return f"arr_close/same_result reject equal arrays {x} {y}"
    for x, y in bad:
        if arr_close(x, y) or same_result(x, y):
            return f"arr_close/same_result accept different arrays {x} {y}"
    if not arr_close([1.0, 5.0], [1.0, 7.0], mask=[True, False]) or arr_close([1.0, 5.0], [2.0, 5.0], mask=[True, False]):
        return "arr_close ignores its mask"
    return None


def run(ctx):
    from harness.common.lean import LeanBatch, BrokenCheck
    quiet()
    err = _selftest()
    if err:
        raise BrokenCheck("C04 self-test: " + err)
    legs = os.environ.get("C04_LEGS", ALL_LEGS).split(",")  # dev only: subset of the legs (the run then ends as BROKEN-CHECK)
    batch = LeanBatch(ctx.workdir)
    t0, c0 = time.time(), _cpu()
    pending = run_pairs(ctx, batch) if "pairs" in legs else []
    ctx.extra["t_pairs_real"] = [round(time.time() - t0, 1), round(_cpu() - c0, 1)]
    t0, c0 = time.time(), _cpu()
    heap, registry = run_heap_registry(ctx, batch) if "heap" in legs else ([], [])
    ctx.extra["t_heap_registry_real"] = [round(time.time() - t0, 1), round(_cpu() - c0, 1)]
    t0, c0 = time.time(), _cpu()
    answers = batch.run()
    ctx.extra["t_model"] = [round(time.time() - t0, 1), round(_cpu() - c0, 1)]
    judge_pairs(ctx, pending, answers)
    judge_heap(ctx, heap, answers)
    judge_registry(ctx, registry, answers)
    t0 = time.time()
    if "histories" in legs:
        run_histories(ctx)
    ctx.extra["t_histories"] = round(time.time() - t0, 1)
    ctx.monitor_failures.sort(key=lambda m: len(json.dumps(m["case"], default=str)))
    if set(legs) != set(ALL_LEGS.split(",")):
        # a development run of some legs must neither write evidence nor exit 0
        from harness.common.lean import BrokenCheck
        import collections
        for (lg, what), n_ in collections.Counter((m["leg"], m["what"]) for m in ctx.monitor_failures).items():
            ex = next(m for m in ctx.monitor_failures if (m["leg"], m["what"]) == (lg, what))
            print(f"DEV monitor failures: {n_} x {lg}: {what}; smallest: {json.dumps(ex['case'], default=str)[:700]}")
        for d in ctx.disagreements[:10]:
            print("DEV disagreement:", json.dumps(d, default=str)[:400])
        raise BrokenCheck(f"C04_LEGS={','.join(legs)}: development run of a subset of the legs "
                          f"(cases {ctx.evaluations}, disagreements {len(ctx.disagreements)}, monitor failures {len(ctx.monitor_failures)}, "
                          f"timings {ctx.extra})")


def search(ctx, broken):
    """failing-input search after a broken tie: the property monitor (cached call after another request vs a freshly
    built one) on a larger fresh sample of request/interpolator/no-bc pairs, preferring the variants of the
    disagreeing cases, plus the regression histories"""
    rng = ctx.sub_rng("search")
    nohist = lambda *a, **k: None
    prefer = []
    for d in broken:
        c = d.get("case") if isinstance(d, dict) else None
        if isinstance(c, dict) and c.get("kind") in ("req", "bcobj"):
            prefer.append({"kind": "req", "a": c["a"], "b": c["b"], "variants": c.get("variants", []), "seed": c.get("seed", 1)})
            prefer.append({"kind": "req", "a": c["b"], "b": c["a"], "variants": c.get("variants", []), "seed": c.get("seed", 1)})
        elif isinstance(c, dict) and c.get("kind") in ("interp", "nobc"):
            prefer.append(c)
    cases = prefer[:400] + [gen_req_pair(rng, nohist) for _ in range(ctx.budget(2500, 10000))] \
        + [gen_interp_pair(rng, nohist) for _ in range(600)] + [gen_nobc_pair(rng, nohist) for _ in range(300)]
    res = run_resilient("pair_worker", cases, {"NUMBA_DISABLE_JIT": "1"})
    found = []
    for c, r in zip(cases, res):
        if isinstance(r, str):
            if r.startswith("CRASH"):
                found.append({"leg": "search:" + c["kind"], "case": slim(c), "observed": {"symptom": "crash", "outcome": r[:300]},
                              "expected": {"a_result": True}, "what": "the interpreter dies",
                              "key": {"call_site": c["kind"], "symptom": "the interpreter dies (crash of the real code)"}})
            continue
        if r.get("one_sided"):
            found.append({"leg": "search:" + c["kind"], "case": slim(c), "observed": {"symptom": "one_sided_exception", "outcomes": r["one_sided"]},
                          "expected": {"cached_and_fresh_calls_fail_alike": True}, "what": "exception on one side only",
                          "key": {"call_site": c["kind"], "symptom": "exception in the cached or the fresh call only"}})
            continue
        if "error" in r or "cached_ok" not in r:
            continue
        ctx.monitor_evals += 1
        if not r["cached_ok"] or (r.get("shared") and not r["sem_eq"]):
            found.append({"leg": "search:" + c["kind"], "case": slim(c),
                          "observed": {"result_of_second_request": r.get("observed"), "shared_object": r.get("shared")},
                          "expected": {"fresh": r.get("expected")}, "what": "cached result differs from a fresh computation",
                          "key": dict(GENERIC_KEY, call_site=c["kind"])})
    found.sort(key=lambda m: len(json.dumps(m["case"], default=str)))
    if found:
        return found
    hs = fixed_histories() + [gen_history(rng, nohist) for _ in range(120)]
    rh = run_many("harness.c04", "hist_worker", hs, env={"NUMBA_DISABLE_JIT": "1"}, procs=16)
    for h, r in zip(hs, rh):
        if isinstance(r, dict) and "malformed" not in r and not r["same"]:
            hh = r.get("shrunk", h)
            found.append({"leg": "search:history", "case": hh, "observed": {"last_result_in_history": r["full"], "failure_class": r.get("class")},
                          "expected": {"same_call_in_fresh_interpreter": r["fresh"]}, "what": "history: last result differs",
                          "key": history_key(hh, r)})
    return found


def _iso(func, arg, jit):
    """one call in a new interpreter with the execution mode of the recorded leg"""
    return run_many("harness.c04", func, [arg], env={"NUMBA_DISABLE_JIT": "0" if jit else "1"}, procs=1)[0]


def replay(ctx, rep):
    """re-run the RECORDED case in the recorded leg's execution mode and judge the recorded symptom"""
    quiet()
    from harness.common.lean import LeanBatch, BrokenCheck
    case = rep.get("case")
    leg = str(rep.get("leg", ""))
    if not isinstance(case, dict):
        print("this file records no single case (broken tie): nothing to re-run here")
        return False
    if "ops" in case:
        # histories:S (source semantics), histories:J (compiled), histories:new-interpreter, search:history
        if leg.endswith("new-interpreter"):
            try:
                a, b = _iso("hist_exec_full", case, False), _iso("hist_exec_fresh", case, False)
            except BrokenCheck as e:
                print("an interpreter died:", str(e)[-300:])
                return False
            print(json.dumps({"in_history": a, "fresh": b}, default=str)[:3000])
            return bool(hist_same(a, b)) and not (isinstance(a, str) and a.startswith("EXC: "))
        jit = leg.endswith(":J")
        r = _iso("hist_worker_noshrink", case, jit)
        if isinstance(r, str):
            print("worker exception:", r[-600:])
            return False
        print(json.dumps({"mode": "compiled" if jit else "NUMBA_DISABLE_JIT=1", "in_history": r["full"], "fresh": r["fresh"]}, default=str)[:3000])
        if "malformed" in r:
            print("the recorded history cannot be judged any more (" + r["malformed"] + "): counted as failing")
            return False
        recorded = (rep.get("observed") or {}).get("failure_class") if isinstance(rep.get("observed"), dict) else None
        print("recorded kind of failure:", recorded, "- now:", r["class"])
        return r["class"] is None or (recorded is not None and r["class"] != recorded and r["class"] == "mutation")
    if case.get("kind") == "heap":
        jit = bool(case.get("jit")) or leg == "heap:jit"
        r = _iso("heap_worker_forked", case, jit)
        if isinstance(r, str):
            print("the real code died or raised:", r[-600:])
            return False
        b = LeanBatch(ctx.workdir)
        b.add("c04.replay_heap", {"inval": True, "check": True, "init": case["init"], "events": r["events"]})
        st, val = b.run()[0]
        print("mode:", "compiled" if jit else "NUMBA_DISABLE_JIT=1", "read:", r["read"], "current content:", val.get("ref") if st == "ok" else val)
        return st == "ok" and list(val["ref"]) == list(r["read"])
    if case.get("kind") == "registry":
        r = _iso("registry_worker_forked", case, False)
        if isinstance(r, str):
            print("the real code died or raised:", r[-600:])
            return False
        b = LeanBatch(ctx.workdir)
        b.add("c04.replay_registry", {"events": registry_model_events(case)})
        st, val = b.run()[0]
        print("factory applied by every query:", r["answers"], "- factory registered at that moment:", val.get("ref") if st == "ok" else val)
        return st == "ok" and list(val["ref"]) == list(r["answers"])
    if case.get("kind") == "pdevars":
        jit = leg.endswith(":J") or bool(case.get("jit"))
        r = _iso("pdevars_replay_worker", case, jit)
        if isinstance(r, str):
            print("worker exception:", r[-600:])
            return False
        names = [v["name"] for v in case["vars"]]
        refs = {(i, q): x for i, q, x in r["refs"]}
        for run, out in zip(case["runs"], r["runs"]):
            if isinstance(out, str) or "rates" not in out:
                print("the recorded configuration can no longer be evaluated (" + str(out)[:300] + "): counted as failing")
                return False
            for i in run["order"]:
                print(json.dumps({"mode": "compiled" if jit else "NUMBA_DISABLE_JIT=1", "order": [names[j] for j in run["order"]], "query": run["query"], "variable": names[i],
                                  "rate_in_multi_variable_pde": out["rates"][str(i)], "single_variable_pde_in_fresh_process": refs[(i, PDEVARS_REF_QUERY)]}, default=str)[:1500])
        print("variables whose rate differs:", [[case["runs"][k]["order"], names[i]] for k, i in r["bad"]])
        return not r["bad"]
    if case.get("kind") == "heapdep":
        res = _iso("jit_worker", case, True)
        if isinstance(res, str):
            print("worker exception:", res[-600:])
            return False
        print(json.dumps(res, default=str)[:2000])
        return not res.get("heap_dep")
    if case.get("kind") == "pdeslot":
        res = _iso("pair_worker_forked", case, False)
        if isinstance(res, str):
            print("worker exception:", res[-600:])
            return False
        print(json.dumps({"slot_prepared_by": res["answers"], "requests_differing_from_a_new_pde_object": res["bad"]}, default=str)[:2000])
        return not res["bad"]
    if case.get("kind") in ("req", "interp", "nobc"):
        res = _iso("pair_worker_forked", case, False)
        if isinstance(res, str):
            print("worker exception:", res[-600:])
            return False
        print(json.dumps({k: v for k, v in res.items() if k not in ("ga", "gb", "sa", "sb")}, default=str)[:2000])
        symptom = (rep.get("observed") or {}).get("symptom") if isinstance(rep.get("observed"), dict) else None
        fails = {"cached_differs": res.get("cached_ok") is False,
                 "shared_different_sem": bool(res.get("shared")) and res.get("sem_eq") is False,
                 "heap_dependence": bool(res.get("heap_dep")),
                 "heap_dependence_field": bool(res.get("heap_dep_field")),
                 "one_sided_exception": bool(res.get("one_sided"))}
        if "cached_ok" not in res and not res.get("one_sided"):
            print("the recorded pair can no longer be built/applied (" + str(res.get("error")) + "): counted as failing")
            return False
        if symptom in fails:
            return not fails[symptom]
        return not any(fails.values())
    print(f"cases of kind {case.get('kind')!r} (leg {leg!r}) record a model/code disagreement, not a failing input: cannot be replayed")
    return False
