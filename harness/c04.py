"""C04 - results never depend on what was computed earlier in the process.

Legs
  pairs      key relation: pairs of requests that coincide in some attributes; on the real objects
             `hash_mutable(a) == hash_mutable(b)` (and, observationally, whether the cached method hands out the
             same object) is compared with key equality in the Lean model (`PdeVerif.Cache.hashMutableG`) fed with
             the serialised object graphs, and with key equality of the graphs the model builds itself from the
             attribute specification (the objects of the theorems).  Monitor: after a cached call for `a`, the
             cached call for `b` behaves like a freshly built `b` (decided by applying both to random data).
  leaves     CPython hash facts the model states (numeric hash, None, str/bytes, ...), exact.
  decorator  `_class_cache` on toy classes (extra_args, ignore_args, finite capacity, invalidation) against the
             state machine `runEvents`.
  histories  random sequences of operator/ghost-cell-setter/interpolator constructions, collections, PDE
             constructions, evolution rates, short solves in ONE interpreter; the LAST result is compared with the
             same call in a fresh interpreter (forked from a process that has only imported `pde`; a subset in a
             really new interpreter through harness/common/isolated.py).
  heap       histories {write, relink by a collection, assign `_data_full`, interpolate, rate of a PDE using the
             field as a constant} against `hrun`/`href`.
"""
import copy
import itertools
import json
import math
import os
import pickle
import sys
import time
import traceback

import numpy as np

from harness.common.isolated import run_many
from harness.c02 import make_grid, gen_grid, AXES, DIM

PID = "C04"
LEVEL = "proof"
REQUIRED_THEOREMS = [
    "cache_sound_of_faithful", "cache_unsound_of_collision", "events_sound_of_faithful",
    "bc_key_faithful", "bc_key_collision_dirichlet_neumann_old",
    "interpolator_reads_current_buffer", "interpolator_stale_after_relink_old",
    "kwargs_order_independent",
]
RULE = ("pairs: a seed-derived base request (grid of every class, operator, per-side boundary conditions of every "
        "constant class incl. normal/mixed/periodic, dtype, kwargs) and a variant that changes one or two attributes "
        "(class with equal value, side, axis, rank, normal flag, homogeneous vs per-face array with equal entries, "
        "value/const numbers incl. -1/-2, 0.0/-0.0 and equal-bytes int/float, flip sign, grid class with equal bounds, "
        "bounds, shape, periodicity, operator, kwargs order/values, dtype spelling); a case is distinct by the two "
        "requests and non-trivial if both requests can be built and at least one attribute differs.  histories: "
        "3-9 operations over 1-2 grids and 1-3 fields drawn from the same vocabulary; distinct by the operation list, "
        "non-trivial if the last call touches a cache that an earlier operation filled")
ASSUMPTIONS = [
    "the builtin hash of str/bytes/tuple/frozenset is idealised as injective (chance collisions of the 64-bit hash "
    "are excluded); its systematic coincidences (numeric hash modulo 2^61-1, hash(-1)=-2, None, '' and b'', ASCII "
    "str vs bytes, list vs tuple) are modelled and compared exactly",
    "global configuration (default backend, numba options) is held fixed within a history (as the property says)",
    "fresh interpreter = process forked from one that has only imported pde (no py-pde call made); a subset of the "
    "histories is additionally run in a really new interpreter",
    "MPI conditions (_MPIBC._cache_hash), jax/torch backends are not installed: their keys are modelled but not run",
]
TRUSTED_EXTRA = ["harness/common/pygraph.py: the serialiser of real objects into model object graphs (my reading of "
                 "which branch of hash_mutable applies; it never calls hash_mutable)"]

KEY_NEG = {"call_site": "hash_mutable", "symptom": "hash(-1)==hash(-2)"}
KEY_ARR = {"call_site": "hash_mutable", "symptom": "ndarray dtype not in key"}
KEY_PDE = {"call_site": "PDE._prepare_cache", "symptom": "stale const field buffer after relink"}
KEY_F1 = {"call_site": "hash_mutable", "symptom": "class not in key of __dict__ fallback"}
KEY_GRID = {"call_site": "GridBase._cache_hash", "symptom": "builtin hash of bounds: hash(-1)==hash(-2)"}
KEY_F2 = {"call_site": "FieldBase._data_full", "symptom": "stale interpolator after relink"}


# ==========================================================================================
# value encoding (cases must be JSON-able for the replay files)
def dec(v):
    """tagged JSON value -> Python object"""
    t = v[0]
    if t == "i":
        return int(v[1])
    if t == "f":
        return float(v[1])
    if t == "b":
        return bool(v[1])
    if t == "none":
        return None
    if t == "s":
        return v[1]
    if t == "bytes":
        return bytes.fromhex(v[1])
    if t == "c":
        return complex(v[1], v[2])
    if t == "np":
        return np.dtype(v[1]).type(dec(v[2]))
    if t == "arr":
        return np.array(v[2], dtype=v[1])
    if t == "t":
        return tuple(dec(x) for x in v[1])
    if t == "l":
        return [dec(x) for x in v[1]]
    if t == "d":
        return {k: dec(x) for k, x in v[1]}
    if t == "od":
        import collections
        return collections.OrderedDict((k, dec(x)) for k, x in v[1])
    if t == "dtype":
        return np.dtype(v[1])
    if t == "type":
        return {"float": float, "complex": complex, "int": int, "np.float64": np.float64,
                "np.complex128": np.complex128, "np.float32": np.float32}[v[1]]
    if t == "slice":
        return slice(dec(v[1]), dec(v[2]), dec(v[3]))
    if t == "backend":
        from pde import get_backend
        return get_backend(v[1])
    raise ValueError(f"unknown tag {t}")


def dec_bc(spec):
    """per-side dictionary with encoded values -> what py-pde gets"""
    out = {}
    for k, s in spec.items():
        if isinstance(s, str):
            out[k] = s
        else:
            d = {"type": s["type"], "value": dec(s["value"])}
            if "const" in s:
                d["const"] = dec(s["const"])
            out[k] = d
    return out


def quiet():
    import logging
    import warnings
    logging.getLogger("pde").setLevel(logging.ERROR)
    warnings.simplefilter("ignore")


def rnd_data(seed, shape, cplx=False):
    r = np.random.default_rng(seed)
    a = r.integers(-8, 9, size=shape).astype(float) / 4
    if cplx:
        a = a + 1j * r.integers(-8, 9, size=shape) / 4
    return a


def arr_close(x, y, tol=1e-10):
    x, y = np.asarray(x), np.asarray(y)
    if x.shape != y.shape:
        return False
    if x.size == 0:
        return True
    with np.errstate(all="ignore"):
        sc = max(1.0, float(np.nanmax(np.abs(x))) if np.isfinite(x).any() else 1.0)
        return bool(np.allclose(x, y, rtol=0, atol=tol * sc, equal_nan=True))


def lst(x):
    """array -> JSON-able nested list (complex as [re, im])"""
    x = np.asarray(x)
    if np.iscomplexobj(x):
        return {"re": x.real.tolist(), "im": x.imag.tolist()}
    return x.tolist()


def exc_class(e):
    return type(e).__name__


# ==========================================================================================
# PAIRS: generators
OPS_CART = [("laplace", 0), ("gradient", 0), ("gradient_squared", 0), ("divergence", 1), ("vector_laplace", 1),
            ("vector_gradient", 1), ("tensor_divergence", 2)]
OPS_CURV = [("laplace", 0), ("gradient", 0), ("gradient_squared", 0), ("divergence", 1)]
KIND_ALIAS = {"dirichlet": "value", "neumann": "derivative", "mixed": "mixed", "curvature": "curvature"}
DTYPES = [["none"], ["type", "float"], ["s", "float64"], ["dtype", "float64"], ["type", "np.float64"],
          ["type", "complex"], ["dtype", "complex128"], ["s", "complex128"]]


def axes_of(gd):
    return list(AXES[gd["cls"]])[:len(gd["shape"])]


def dim_of(gd):
    return DIM.get(gd["cls"], len(gd["shape"]))


def ops_of(gd):
    return OPS_CART if gd["cls"] in ("UnitGrid", "CartesianGrid") else OPS_CURV


def gen_grid_small(rng):
    gd = gen_grid(rng, min_cells=2)
    while len(gd["shape"]) > 2:
        gd = gen_grid(rng, min_cells=2)
    return gd


def gen_number(rng):
    r = rng.random()
    if r < 0.25:
        return ["i", rng.choice([0, 1, -1, -2, 2, 3])]
    if r < 0.35:
        return ["f", rng.choice([-1.0, -2.0, 0.0, -0.0, 1.0])]
    return ["f", rng.randint(-8, 8) / rng.choice([1, 2, 4])]


def num_of(v):
    return dec(v)


def gen_side(rng, gd, axis, rank):
    """one local condition with a homogeneous value (variants make it inhomogeneous)"""
    kinds = ["dirichlet", "neumann", "mixed", "curvature"]
    kind = rng.choice(kinds)
    normal = rank >= 1 and rng.random() < 0.3
    alias = ("normal_" if normal else "") + KIND_ALIAS[kind]
    s = {"type": alias, "value": gen_number(rng)}
    if kind == "mixed":
        s["value"] = ["f", abs(float(num_of(s["value"])))]
        s["const"] = gen_number(rng)
    return s


def gen_bc(rng, gd, rank):
    spec = {}
    for ax, name in enumerate(axes_of(gd)):
        if gd["periodic"][ax]:
            spec[name] = rng.choice(["periodic", "periodic", "anti-periodic"])
        else:
            lo = gen_side(rng, gd, ax, rank)
            hi = copy.deepcopy(lo) if rng.random() < 0.3 else gen_side(rng, gd, ax, rank)
            spec[name + "-"], spec[name + "+"] = lo, hi
    return spec


def gen_req(rng):
    gd = gen_grid_small(rng)
    op, rank = rng.choice(ops_of(gd))
    kwargs = []
    if op in ("gradient", "divergence", "vector_gradient", "tensor_divergence") and gd["cls"] in ("UnitGrid", "CartesianGrid") and rng.random() < 0.4:
        kwargs.append(["method", ["s", rng.choice(["central", "forward", "backward"])]])
    if op == "gradient_squared" and rng.random() < 0.4:
        kwargs.append(["central", ["b", rng.random() < 0.5]])
    return {"grid": gd, "op": op, "rank": rank, "bc": gen_bc(rng, gd, rank), "dtype": rng.choice(DTYPES),
            "kwargs": kwargs, "korder": 0}


def face_shape(gd, axis):
    return [n for j, n in enumerate(gd["shape"]) if j != axis]


def side_keys(req):
    return [k for k, v in req["bc"].items() if not isinstance(v, str)]


def axis_of_key(req, k):
    return axes_of(req["grid"]).index(k[:-1])


def full_value(req, k, x, dtype="float64"):
    """array of the full (tensor + face) shape filled with x"""
    s = req["bc"][k]
    normal = s["type"].startswith("normal_")
    vr = req["rank"] - 1 if normal else req["rank"]
    shape = [dim_of(req["grid"])] * vr + face_shape(req["grid"], axis_of_key(req, k))
    return ["arr", dtype, np.full(shape, x).tolist()]


VARIANTS = ["same", "class", "swap_sides", "swap_axes", "normal", "homog", "value_num", "neg12", "int_float",
            "same_bytes", "signed_zero", "const", "value_const", "flip", "gridcls", "bounds", "bounds_hash", "shape", "periodic",
            "op", "kw_value", "kw_order", "dtype", "expr_value", "expr_bc", "rank"]


def apply_variant(rng, req, v):
    """returns the variant request (or None if the variant does not apply)"""
    b = copy.deepcopy(req)
    gd = b["grid"]
    keys = side_keys(b)
    if v == "same":
        return b
    if v == "class":
        if not keys:
            return None
        k = rng.choice(keys)
        cur = b["bc"][k]["type"]
        pre = "normal_" if cur.startswith("normal_") else ""
        others = [pre + a for a in ("value", "derivative", "curvature", "mixed") if pre + a != cur]
        b["bc"][k]["type"] = rng.choice(others)
        if b["bc"][k]["type"].endswith("mixed"):
            b["bc"][k].setdefault("const", ["i", 0])
        else:
            b["bc"][k].pop("const", None)
        return b
    if v == "swap_sides":
        ax = [n for n in axes_of(gd) if n + "-" in b["bc"]]
        if not ax:
            return None
        n = rng.choice(ax)
        b["bc"][n + "-"], b["bc"][n + "+"] = b["bc"][n + "+"], b["bc"][n + "-"]
        return b
    if v == "swap_axes":
        ax = axes_of(gd)
        if len(ax) < 2 or any(gd["periodic"]) or gd["shape"][0] != gd["shape"][1]:
            return None
        for s in ("-", "+"):
            b["bc"][ax[0] + s], b["bc"][ax[1] + s] = b["bc"][ax[1] + s], b["bc"][ax[0] + s]
        return b
    if v == "normal":
        if not keys or b["rank"] < 1:
            return None
        k = rng.choice(keys)
        t = b["bc"][k]["type"]
        b["bc"][k]["type"] = t[len("normal_"):] if t.startswith("normal_") else "normal_" + t
        return b
    if v == "homog":
        if not keys:
            return None
        k = rng.choice(keys)
        val = b["bc"][k]["value"]
        if val[0] not in ("i", "f"):
            return None
        b["bc"][k]["value"] = full_value(b, k, float(dec(val)))
        return b
    if v == "value_num":
        if not keys:
            return None
        k = rng.choice(keys)
        val = b["bc"][k]["value"]
        if val[0] not in ("i", "f"):
            return None
        x = dec(val)
        b["bc"][k]["value"] = [val[0], rng.choice([x + 1, -x if x else 1, x * 2 if x else 3])]
        if b["bc"][k]["type"].endswith("mixed"):
            b["bc"][k]["value"] = ["f", abs(float(dec(b["bc"][k]["value"])))]
        return b
    if v == "neg12":
        if not keys:
            return None
        k = rng.choice([k for k in keys if not req["bc"][k]["type"].endswith("mixed")] or [None])
        if k is None:
            return None
        t = rng.choice(["i", "f"])
        req["bc"][k]["value"] = [t, -1]
        b["bc"][k]["value"] = [t, -2]
        return b
    if v == "int_float":
        if not keys:
            return None
        k = rng.choice(keys)
        x = rng.choice([0, 1, 2, 3])
        req["bc"][k]["value"] = ["i", x]
        b["bc"][k]["value"] = ["f", float(x)]
        return b
    if v == "same_bytes":
        if not keys:
            return None
        k = rng.choice([k for k in keys if not req["bc"][k]["type"].endswith("mixed")] or [None])
        if k is None:
            return None
        x = rng.choice([1, 2, 4607182418800017408, 4611686018427387904])
        req["bc"][k]["value"] = ["i", x]
        b["bc"][k]["value"] = ["f", float(np.array(x, dtype=np.int64).view(np.float64))]
        return b
    if v == "signed_zero":
        if not keys:
            return None
        k = rng.choice(keys)
        req["bc"][k]["value"] = ["f", 0.0]
        b["bc"][k]["value"] = ["f", -0.0]
        return b
    if v == "const":
        ks = [k for k in keys if "const" in b["bc"][k]]
        if not ks:
            return None
        k = rng.choice(ks)
        b["bc"][k]["const"] = ["f", float(dec(b["bc"][k]["const"])) + rng.choice([1.0, -1.0, 0.5])]
        return b
    if v == "value_const":
        ks = [k for k in keys if "const" in b["bc"][k]]
        if not ks:
            return None
        k = rng.choice(ks)
        val, con = b["bc"][k]["value"], b["bc"][k]["const"]
        b["bc"][k]["value"], b["bc"][k]["const"] = ["f", abs(float(dec(con)))], val
        return b
    if v == "flip":
        ks = [k for k, s in b["bc"].items() if isinstance(s, str)]
        if not ks:
            return None
        k = rng.choice(ks)
        b["bc"][k] = "anti-periodic" if b["bc"][k] == "periodic" else "periodic"
        return b
    if v == "gridcls":
        if gd["cls"] == "UnitGrid":
            gd["cls"] = "CartesianGrid"
            return b
        if gd["cls"] == "CartesianGrid":
            # make the base a grid that a UnitGrid can reproduce
            for g in (req["grid"], gd):
                g["bounds"] = [[0.0, float(n)] for n in g["shape"]]
            gd["cls"] = "UnitGrid"
            return b
        if gd["cls"] in ("PolarSymGrid", "SphericalSymGrid"):
            gd["cls"] = "SphericalSymGrid" if gd["cls"] == "PolarSymGrid" else "PolarSymGrid"
            return b
        return None
    if v == "bounds":
        if gd["cls"] == "UnitGrid":
            return None
        ax = rng.randrange(len(gd["shape"]))
        lo, hi = gd["bounds"][ax]
        gd["bounds"][ax] = [lo, lo + 2 * (hi - lo)] if rng.random() < 0.5 else [lo + 1.0, hi + 1.0]
        return b
    if v == "bounds_hash":
        # bounds whose builtin hashes coincide: -1 / -2, 0.5 / 2**60
        if gd["cls"] != "CartesianGrid":
            return None
        ax = rng.randrange(len(gd["shape"]))
        if rng.random() < 0.7:
            hi = rng.choice([1.0, 0.0, 3.0])
            req["grid"]["bounds"][ax] = [-1.0, hi]
            gd["bounds"][ax] = [-2.0, hi]
        else:
            req["grid"]["bounds"][ax] = [0.0, 0.5]
            gd["bounds"][ax] = [0.0, float(1 << 60)]
        for r in (req, b):
            for k in side_keys(r):
                for f in ("value", "const"):
                    if f in r["bc"][k] and r["bc"][k][f][0] == "s":
                        r["bc"][k][f] = ["f", 1.0]
        return b
    if v == "shape":
        ax = rng.randrange(len(gd["shape"]))
        if gd["cls"] == "UnitGrid":
            gd["shape"][ax] += 1
            gd["bounds"][ax][1] += 1.0
        else:
            gd["shape"][ax] += 1
        # per-face arrays of the other axes would no longer fit: keep only scalar values
        for k in side_keys(b):
            for f in ("value", "const"):
                if f in b["bc"][k] and b["bc"][k][f][0] == "arr":
                    b["bc"][k][f] = ["f", 1.0]
        return b
    if v == "periodic":
        cand = [i for i in range(len(gd["shape"]))
                if not (gd["cls"] in ("PolarSymGrid", "SphericalSymGrid") or (gd["cls"] == "CylindricalSymGrid" and i == 0))]
        if not cand:
            return None
        ax = rng.choice(cand)
        name = axes_of(gd)[ax]
        if gd["periodic"][ax]:
            gd["periodic"][ax] = False
            b["bc"].pop(name)
            b["bc"][name + "-"] = gen_side(rng, gd, ax, b["rank"])
            b["bc"][name + "+"] = gen_side(rng, gd, ax, b["rank"])
        else:
            gd["periodic"][ax] = True
            b["bc"].pop(name + "-")
            b["bc"].pop(name + "+")
            b["bc"][name] = "periodic"
        return b
    if v == "op":
        same_rank = [o for o, r in ops_of(gd) if r == b["rank"] and o != b["op"]]
        if not same_rank:
            return None
        b["op"] = rng.choice(same_rank)
        b["kwargs"] = []
        return b
    if v == "kw_value":
        if b["op"] in ("gradient", "divergence", "vector_gradient", "tensor_divergence") and gd["cls"] in ("UnitGrid", "CartesianGrid"):
            cur = dict((k, x) for k, x in b["kwargs"]).get("method", ["s", "central"])[1]
            b["kwargs"] = [["method", ["s", rng.choice([m for m in ("central", "forward", "backward") if m != cur])]]]
            return b
        if b["op"] == "gradient_squared":
            cur = dict((k, x) for k, x in b["kwargs"]).get("central", ["b", True])[1]
            b["kwargs"] = [["central", ["b", not cur]]]
            return b
        return None
    if v == "kw_order":
        b["korder"] = rng.randint(1, 5)
        return b
    if v == "dtype":
        b["dtype"] = rng.choice([d for d in DTYPES if d != b["dtype"]])
        return b
    if v == "expr_value":
        # constant value given as a number vs the same value given as an expression string
        ks = [k for k in keys if b["rank"] == 0 and b["bc"][k]["value"][0] in ("i", "f") and "const" not in b["bc"][k]]
        if not ks:
            return None
        k = rng.choice(ks)
        x = float(dec(b["bc"][k]["value"]))
        req["bc"][k]["value"] = ["f", x]
        b["bc"][k]["value"] = ["s", repr(x)]
        return b
    if v == "expr_bc":
        ks = [k for k in keys if b["rank"] == 0 and b["bc"][k]["type"] in ("value", "derivative")
              and b["bc"][k]["value"][0] in ("i", "f")]
        if not ks:
            return None
        k = rng.choice(ks)
        x = float(dec(b["bc"][k]["value"]))
        b["bc"][k] = {"type": b["bc"][k]["type"] + "_expression", "value": ["s", repr(x)]}
        return b
    if v == "rank":
        # same condition data for an operator of another rank (scalar values broadcast)
        others = [(o, r) for o, r in ops_of(gd) if r != b["rank"]]
        if not others or any(s["value"][0] == "arr" or s["type"].startswith("normal_") for s in b["bc"].values() if not isinstance(s, str)):
            return None
        b["op"], b["rank"] = rng.choice(others)
        b["kwargs"] = []
        return b
    raise ValueError(v)


def gen_req_pair(rng, hist):
    for _ in range(50):
        a = gen_req(rng)
        vs = [rng.choice(VARIANTS)]
        if rng.random() < 0.2:
            vs.append(rng.choice(VARIANTS))
        b = a
        ok = True
        for v in vs:
            nb = apply_variant(rng, b, v)  # some variants also adjust their first argument
            if nb is None:
                ok = False
                break
            b = nb
        if ok:
            for v in vs:
                hist("variant", v)
            return {"kind": "req", "a": a, "b": b, "variants": vs, "seed": rng.randrange(1 << 30)}
    raise RuntimeError("no applicable variant")


# ---- leaves -------------------------------------------------------------------------------
def gen_leaf_pair(rng, hist):
    P = (1 << 61) - 1
    pools = {
        "neg": [["i", -1], ["i", -2], ["f", -1.0], ["f", -2.0], ["np", "float64", ["f", -1.0]], ["np", "int64", ["i", -2]]],
        "one": [["i", 1], ["f", 1.0], ["b", True], ["np", "float64", ["f", 1.0]], ["np", "int64", ["i", 1]], ["c", 1.0, 0.0],
                ["np", "float32", ["f", 1.0]]],
        "zero": [["i", 0], ["f", 0.0], ["f", -0.0], ["b", False], ["s", ""], ["bytes", ""], ["c", 0.0, 0.0], ["t", []], ["l", []]],
        "mod": [["i", P], ["i", 0], ["i", P + 1], ["i", 1], ["f", 0.5], ["i", 1 << 60], ["i", -P - 1], ["i", -P], ["f", 0.25],
                ["i", 1 << 59], ["f", float(1 << 61)], ["i", 2], ["i", 1 << 61]],
        "none": [["none"], ["i", 4238894112], ["f", 4238894112.0], ["s", "None"]],
        "str": [["s", "abc"], ["bytes", "616263"], ["s", "abd"], ["s", "ä"], ["bytes", "c3a4"], ["s", "float64"], ["dtype", "float64"],
                ["type", "float"], ["type", "np.float64"], ["s", "value"], ["s", "derivative"]],
        "inf": [["f", float("inf")], ["i", 314159], ["f", float("-inf")], ["i", -314159], ["np", "float64", ["f", float("inf")]]],
        "seq": [["t", [["i", 1], ["i", 2]]], ["l", [["i", 1], ["i", 2]]], ["t", [["i", 2], ["i", 1]]], ["t", [["f", 1.0], ["i", 2]]],
                ["t", [["t", [["i", 1]]], ["i", 2]]], ["t", [["i", 1], ["t", [["i", 2]]]]], ["l", [["l", [["i", 1], ["i", 2]]]]]],
        "dict": [["d", [["a", ["i", 1]], ["b", ["i", 2]]]], ["d", [["b", ["i", 2]], ["a", ["i", 1]]]], ["d", [["a", ["i", 2]], ["b", ["i", 1]]]],
                 ["od", [["a", ["i", 1]], ["b", ["i", 2]]]], ["od", [["b", ["i", 2]], ["a", ["i", 1]]]],
                 ["d", [["a", ["i", 1]], ["b", ["i", 2]], ["_cache_x", ["i", 5]]]], ["d", [["a", ["i", 1]], ["b", ["i", 2]], ["_cachefoo", ["i", 7]]]],
                 ["d", [["a", ["i", 1]], ["b", ["i", 2]], ["cache", ["i", 5]]]], ["d", [["a", ["i", 1]]]], ["d", []], ["od", []], ["t", []]],
        "arr": [["arr", "float64", [0.0]], ["arr", "int32", [0, 0]], ["arr", "float64", [[0.0]]], ["arr", "int64", [1]], ["arr", "float64", [5e-324]],
                ["arr", "float64", [1.0]], ["arr", "float64", []], ["arr", "int64", []], ["bytes", "0000000000000000"], ["arr", "float64", 1.0],
                ["arr", "int64", 4607182418800017408], ["arr", "float64", [1.0, 2.0]], ["arr", "float64", [[1.0], [2.0]]], ["arr", "float64", [[1.0, 2.0]]],
                ["arr", "complex128", [1.0]], ["arr", "float64", [1.0, 0.0]], ["arr", "bool", [True]], ["arr", "int8", [1]], ["arr", "uint8", [1]]],
        "slice": [["slice", ["none"], ["i", 2], ["none"]], ["slice", ["i", 0], ["i", 2], ["none"]], ["t", [["none"], ["i", 2], ["none"]]],
                  ["slice", ["i", -1], ["none"], ["none"]], ["slice", ["i", -2], ["none"], ["none"]]],
        "cplx": [["c", 1.0, 2.0], ["c", 2.0, 1.0], ["i", 2000007], ["c", 0.0, 1.0], ["i", 1000003], ["c", -1.0, 0.0], ["c", -2.0, 0.0], ["i", -2],
                 ["np", "complex128", ["c", 1.0, 2.0]]],
    }
    name = rng.choice(sorted(pools))
    pool = pools[name]
    a, b = rng.choice(pool), rng.choice(pool)
    if rng.random() < 0.3:
        # embed into a kwargs dictionary as the wrapper does
        k = rng.choice(["fill", "value", "x"])
        a, b = ["t", [["t", []], ["d", [[k, a]]]]], ["t", [["t", []], ["d", [[k, b]]]]]
    if rng.random() < 0.15:
        x = gen_number(rng)
        a, b = x, rng.choice([x, ["f", float(dec(x))], gen_number(rng)])
        name = "random-number"
    hist("leaf-pool", name)
    return {"kind": "leaf", "a": a, "b": b}


# ---- interpolator requests ------------------------------------------------------------------
FILLS = [["none"], ["i", -1], ["i", -2], ["f", -1.0], ["f", -2.0], ["i", 0], ["f", 0.0], ["f", 0.5], ["i", 1 << 60], ["i", 1],
         ["f", 1.0], ["b", True], ["np", "float64", ["f", -1.0]], ["f", 2.5], ["i", 3]]


def gen_interp_pair(rng, hist):
    gd = gen_grid_small(rng)
    rank = rng.choice([0, 0, 0, 1])

    def kw():
        k = [["fill", rng.choice(FILLS)]]
        if rng.random() < 0.6:
            k.append(["with_ghost_cells", ["b", rng.random() < 0.4]])
        if rng.random() < 0.3:
            k.append(["backend", rng.choice([["s", "numba"], ["s", "default"], ["backend", "numba"]])])
        rng.shuffle(k)
        return k
    a = kw()
    r = rng.random()
    if r < 0.15:
        b = copy.deepcopy(a)
        rng.shuffle(b)
    elif r < 0.5:
        # change only the fill value, preferably to one with a related hash
        b = copy.deepcopy(a)
        for item in b:
            if item[0] == "fill":
                item[1] = rng.choice(FILLS)
    else:
        b = kw()
    hist("interp-fill", f"{a and dict((k, v) for k, v in a)['fill'][:2]}|{dict((k, v) for k, v in b)['fill'][:2]}")
    return {"kind": "interp", "grid": gd, "rank": rank, "a": a, "b": b, "seed": rng.randrange(1 << 30)}


def gen_nobc_pair(rng, hist):
    gd = gen_grid_small(rng)
    op, rank = rng.choice(ops_of(gd))

    def kw(op):
        k = []
        if rng.random() < 0.5:
            k.append(["backend", rng.choice([["s", "numba"], ["s", "default"], ["backend", "numba"], ["s", "scipy"]])])
        if rng.random() < 0.5:
            k.append(["dtype", rng.choice(DTYPES)])
        if op in ("gradient", "divergence") and gd["cls"] in ("UnitGrid", "CartesianGrid") and rng.random() < 0.5:
            k.append(["method", ["s", rng.choice(["central", "forward", "backward"])]])
        rng.shuffle(k)
        return k
    a = {"op": op, "kw": kw(op)}
    r = rng.random()
    if r < 0.2:
        b = copy.deepcopy(a)
        rng.shuffle(b["kw"])
    elif r < 0.5:
        same_rank = [o for o, rr in ops_of(gd) if rr == rank]
        b = {"op": rng.choice(same_rank), "kw": copy.deepcopy(a["kw"])}
    else:
        b = {"op": op, "kw": kw(op)}
    hist("nobc-op", f"{a['op']}|{b['op']}")
    return {"kind": "nobc", "grid": gd, "rank": rank, "a": a, "b": b, "seed": rng.randrange(1 << 30)}


# ---- decorator histories ------------------------------------------------------------------------
def gen_deco_case(rng, hist):
    cap = rng.choice([None, None, 1, 2, 3])
    ignore = rng.choice([[], [], ["verbose"], ["verbose", "label"]])
    extra = rng.choice([[], [], ["scale"], ["scale", "mode"]])
    vals = [["i", -1], ["i", -2], ["i", 1], ["f", 1.0], ["b", True], ["none"], ["s", "a"], ["t", [["i", 1], ["i", 2]]], ["l", [["i", 1], ["i", 2]]],
            ["arr", "float64", [1.0]], ["arr", "int64", [1]], ["arr", "float64", [[1.0]]], ["f", 0.5], ["d", [["k", ["i", 1]]]]]
    events = []
    for _ in range(rng.randint(3, 12)):
        r = rng.random()
        if r < 0.08:
            events.append({"ev": "drop"})
        elif r < 0.2 and extra:
            events.append({"ev": "set", "attr": rng.choice(extra), "value": rng.choice(vals)})
        else:
            name = rng.choice(["f", "f", "g"])
            args = [rng.choice(vals) for _ in range(rng.choice([0, 1, 1, 2]))]
            kws = []
            for k in rng.sample(["p", "q", "verbose", "label"], rng.choice([0, 1, 2, 3])):
                kws.append([k, rng.choice(vals)])
            events.append({"ev": "call", "name": name, "args": args, "kwargs": kws})
    hist("deco", f"cap={cap} ignore={len(ignore)} extra={len(extra)}")
    return {"kind": "deco", "cap": cap, "ignore": ignore, "extra": extra, "events": events}


# ==========================================================================================
# PAIRS: real code (worker side)
def wrapper_key(args, kwargs):
    """the key `_class_cache.wrapper` derives (no ignore/extra args are used inside py-pde)"""
    from pde.tools.cache import hash_mutable
    return hash_mutable(tuple([args, kwargs]))


def build_req(r):
    from pde import get_backend
    grid = make_grid(r["grid"])
    backend = get_backend("numba")
    info = backend.get_operator_info(grid, r["op"])
    bcs = grid.get_boundary_conditions(dec_bc(r["bc"]), rank=info.rank_in)
    items = [("bcs", bcs), ("dtype", dec(r["dtype"]))] + [(k, dec(v)) for k, v in r["kwargs"]]
    perms = list(itertools.permutations(range(len(items))))
    order = perms[r.get("korder", 0) % len(perms)]
    kw = {items[i][0]: items[i][1] for i in order}
    return grid, backend, info, kw


def apply_op(op, grid, info, seed, cplx=False):
    shape = (grid.dim,) * info.rank_in + grid.shape
    outs = []
    for j in range(2):
        d = rnd_data(seed + j, shape, cplx)
        if type(grid).__name__ == "SphericalSymGrid" and info.rank_in == 1:
            d[1:] = 0  # the spherical operators insist on purely radial vector fields
        outs.append(np.array(op(d)))
    return outs


def real_req_pair(case):
    from harness.common import pygraph as G
    from pde.backends.numba.backend import NumbaBackend
    fresh_make = NumbaBackend.make_operator.__wrapped__
    out = {}
    built = []
    for tag in ("a", "b"):
        try:
            built.append(build_req(case[tag]))
        except Exception as e:  # malformed stream: the request cannot even be built
            out["error"] = f"{tag}:{exc_class(e)}"
            return out
    (ga, backend, ia, kwa), (gb, _, ib, kwb) = built
    backend.__dict__.pop("_cache_methods", None)
    keya, keyb = wrapper_key((ga, ia), kwa), wrapper_key((gb, ib), kwb)
    out["hash_eq"] = keya == keyb
    try:
        gra, grb = G.ser(tuple([(ga, ia), kwa])), G.ser(tuple([(gb, ib), kwb]))
        out["ga"], out["gb"] = gra, grb
    except G.Unmodelled as e:
        out["unmodelled"] = str(e)
    for tag, (g, i, kw) in (("sa", (ga, ia, kwa)), ("sb", (gb, ib, kwb))):
        bs = G.bcs_spec(kw["bcs"])
        try:
            out[tag] = None if bs is None else {
                "grid": G.grid_spec(g), "op": G.op_spec(i), "bcs": bs, "dtype": G.ser(kw["dtype"]),
                "kwargs": [[k, G.ser(v)] for k, v in kw.items() if k not in ("bcs", "dtype")]}
        except G.Unmodelled:
            out[tag] = None
    # the cached method, in the order a then b
    opa = backend.make_operator(ga, ia, **kwa)
    opb = backend.make_operator(gb, ib, **kwb)
    out["shared"] = opa is opb
    fa = fresh_make(backend, ga, ia, **kwa)
    fb = fresh_make(backend, gb, ib, **kwb)
    seed = case["seed"]
    try:
        ra = apply_op(fa, ga, ia, seed)
        rb = apply_op(fb, gb, ib, seed)
        same_domain = (ga.dim,) * ia.rank_in + ga.shape == (gb.dim,) * ib.rank_in + gb.shape
        out["sem_eq"] = bool(same_domain and all(arr_close(x, y) for x, y in zip(ra, rb)))
        cb = apply_op(opb, gb, ib, seed)
        out["cached_ok"] = all(arr_close(x, y) for x, y in zip(cb, rb))
        if not out["cached_ok"]:
            out["observed"] = lst(cb[0])
            out["expected"] = lst(rb[0])
        out["nonzero"] = bool(any(np.any(x != 0) for x in rb))
    except Exception as e:
        out["error"] = f"apply:{exc_class(e)}:{e}"
    return out


def real_leaf_pair(case):
    from harness.common import pygraph as G
    from pde.tools.cache import hash_mutable, objects_equal
    a, b = dec(case["a"]), dec(case["b"])
    out = {"hash_eq": hash_mutable(a) == hash_mutable(b)}
    try:
        gra, grb = G.ser(a), G.ser(b)
        out["ga"], out["gb"] = gra, grb
    except G.Unmodelled as e:
        out["unmodelled"] = str(e)
    try:
        out["py_eq"] = bool(objects_equal(a, b)) and type(a) == type(b)
    except Exception:
        out["py_eq"] = None
    # builtin hash of hashable leaves (exact tie of the modelled CPython hash values)
    for tag, x in (("ha", a), ("hb", b)):
        try:
            out[tag] = str(hash(x)) if isinstance(x, (int, float, complex, np.number, type(None), bool, str, bytes)) and not (isinstance(x, float) and math.isnan(x)) else None
        except TypeError:
            out[tag] = None
    return out


def real_interp_pair(case):
    import pde
    from harness.common import pygraph as G
    from pde.fields.datafield_base import DataFieldBase
    fresh_make = DataFieldBase.make_interpolator.__wrapped__
    grid = make_grid(case["grid"])
    cls = [pde.ScalarField, pde.VectorField][case["rank"]]
    f = cls(grid, rnd_data(case["seed"], (grid.dim,) * case["rank"] + grid.shape))
    f.set_ghost_cells("auto_periodic_neumann")
    kwa = {k: dec(v) for k, v in case["a"]}
    kwb = {k: dec(v) for k, v in case["b"]}
    out = {"hash_eq": wrapper_key((), kwa) == wrapper_key((), kwb)}
    try:
        gra, grb = G.ser(tuple([(), kwa])), G.ser(tuple([(), kwb]))
        out["ga"], out["gb"] = gra, grb
    except G.Unmodelled as e:
        out["unmodelled"] = str(e)
    # points: cell centres, in between, and outside of the domain
    lo = np.array([b[0] for b in grid.axes_bounds])
    hi = np.array([b[1] for b in grid.axes_bounds])
    r = np.random.default_rng(case["seed"])
    pts = [lo + (hi - lo) * r.random(len(lo)) for _ in range(3)] + [hi + (hi - lo) * 0.75, lo - (hi - lo) * 2.5]

    def run(func):
        res = []
        for p in pts:
            try:
                res.append(np.array(func(np.array(p))).tolist())
            except Exception as e:
                res.append("EXC:" + exc_class(e))
        return res
    try:
        ia = f.make_interpolator(**kwa)
        ib = f.make_interpolator(**kwb)
        out["shared"] = ia is ib
        fa = fresh_make(f, **kwa)
        fb = fresh_make(f, **kwb)
    except Exception as e:
        out["error"] = exc_class(e)
        return out
    ra, rb, cb = run(fa), run(fb), run(ib)
    out["sem_eq"] = json.dumps(ra) == json.dumps(rb)
    out["cached_ok"] = json.dumps(cb) == json.dumps(rb)
    if not out["cached_ok"]:
        out["observed"], out["expected"] = cb, rb
    out["nonzero"] = True
    return out


def real_nobc_pair(case):
    from harness.common import pygraph as G
    from pde.grids.base import GridBase
    fresh_make = GridBase.make_operator_no_bc.__wrapped__
    grid = make_grid(case["grid"])
    kwa = {k: dec(v) for k, v in case["a"]["kw"]}
    kwb = {k: dec(v) for k, v in case["b"]["kw"]}
    opa, opb = case["a"]["op"], case["b"]["op"]
    out = {"hash_eq": wrapper_key((opa,), kwa) == wrapper_key((opb,), kwb)}
    try:
        gra, grb = G.ser(tuple([(opa,), kwa])), G.ser(tuple([(opb,), kwb]))
        out["ga"], out["gb"] = gra, grb
    except G.Unmodelled as e:
        out["unmodelled"] = str(e)
    try:
        ca = grid.make_operator_no_bc(opa, **kwa)
        cb = grid.make_operator_no_bc(opb, **kwb)
        out["shared"] = ca is cb
        fa = fresh_make(grid, opa, **kwa)
        fb = fresh_make(grid, opb, **kwb)
    except Exception as e:
        out["error"] = exc_class(e)
        return out
    from pde import get_backend
    nb = get_backend("numba")
    ia, ib = nb.get_operator_info(grid, opa), nb.get_operator_info(grid, opb)

    def run(func, info):
        full = rnd_data(case["seed"], (grid.dim,) * info.rank_in + grid._shape_full)
        o = np.zeros((grid.dim,) * info.rank_out + grid.shape)
        func(full, o)
        return o
    try:
        ra, rb, rc = run(fa, ia), run(fb, ib), run(cb, ib)
    except Exception as e:
        out["error"] = "apply:" + exc_class(e)
        return out
    out["sem_eq"] = arr_close(ra, rb)
    out["cached_ok"] = arr_close(rc, rb)
    if not out["cached_ok"]:
        out["observed"], out["expected"] = lst(rc), lst(rb)
    out["nonzero"] = bool(np.any(rb != 0))
    return out


def real_deco(case):
    """toy class through the real decorator; returns for every call the index of the compute whose result it got"""
    from pde.tools.cache import cached_method, DictFiniteCapacity
    from harness.common import pygraph as G
    cap, ignore, extra = case["cap"], case["ignore"], case["extra"]
    counter = [0]
    kwd = {}
    if ignore:
        kwd["ignore_args"] = ignore
    if extra:
        kwd["extra_args"] = extra
    if cap is not None:
        kwd["factory"] = "get_cache"

    class Toy:
        scale = 1
        mode = "m"

        def get_cache(self, name):
            return DictFiniteCapacity(capacity=cap)

        @cached_method(**kwd)
        def f(self, *args, **kwargs):
            return counter[0]

        @cached_method(**kwd)
        def g(self, *args, **kwargs):
            return counter[0]

    t = Toy()
    answers, events = [], []
    for i, e in enumerate(case["events"]):
        counter[0] = i
        if e["ev"] == "drop":
            t.__dict__.pop("_cache_methods", None)
            events.append({"ev": "drop"})
        elif e["ev"] == "set":
            setattr(t, e["attr"], dec(e["value"]))
            events.append({"ev": "nop"})
        else:
            args = tuple(dec(x) for x in e["args"])
            kw = {k: dec(v) for k, v in e["kwargs"]}
            answers.append(getattr(t, e["name"])(*args, **kw))
            events.append({"ev": "call", "name": e["name"], "args": [G.ser(x) for x in args],
                           "kwargs": [[k, G.ser(v)] for k, v in kw.items()],
                           "extra": [G.ser(getattr(t, a)) for a in extra]})
    return {"answers": answers, "events": events}


def pair_worker(case):
    quiet()
    k = case["kind"]
    if k == "req":
        return real_req_pair(case)
    if k == "leaf":
        return real_leaf_pair(case)
    if k == "interp":
        return real_interp_pair(case)
    if k == "nobc":
        return real_nobc_pair(case)
    if k == "deco":
        return real_deco(case)
    raise ValueError(k)


# ==========================================================================================
# PAIRS: main-process side
GENERIC_KEY = {"symptom": "cached result differs from a fresh computation"}


def classify(model):
    """which repaired defect explains a sharing that the current model derivation excludes"""
    if model and not model.get("cur"):
        if model.get("oldF1"):
            return KEY_F1
        if model.get("oldA"):
            return KEY_NEG
        if model.get("oldB"):
            return KEY_ARR
        if model.get("oldD"):
            return KEY_GRID
    return None


def slim(case):
    return {k: v for k, v in case.items() if k != "seed"} | ({"seed": case["seed"]} if "seed" in case else {})


def run_pairs(ctx, batch):
    rng = ctx.rng
    n_req = ctx.budget(1400, 12000)
    n_leaf = ctx.budget(900, 6000)
    n_interp = ctx.budget(500, 4000)
    n_nobc = ctx.budget(250, 2000)
    n_deco = ctx.budget(300, 3000)
    cases = []
    cases += [gen_req_pair(rng, ctx.hist) for _ in range(n_req)]
    cases += [gen_leaf_pair(rng, ctx.hist) for _ in range(n_leaf)]
    cases += [gen_interp_pair(rng, ctx.hist) for _ in range(n_interp)]
    cases += [gen_nobc_pair(rng, ctx.hist) for _ in range(n_nobc)]
    cases += [gen_deco_case(rng, ctx.hist) for _ in range(n_deco)]
    # regression pairs that must always be present
    cases += fixed_pairs()
    order = list(range(len(cases)))
    rng.shuffle(order)  # balance the worker chunks
    shuffled = [cases[i] for i in order]
    res_sh = run_many("harness.c04", "pair_worker", shuffled, env={"NUMBA_DISABLE_JIT": "1"}, procs=16)
    results = [None] * len(cases)
    for i, r in zip(order, res_sh):
        results[i] = r
    pending = []
    for case, res in zip(cases, results):
        if isinstance(res, str):
            raise RuntimeError(f"pair worker failed on {json.dumps(case)[:400]}: {res}")
        k = case["kind"]
        req = None
        if k == "deco":
            req = batch.add("c04.replay_cache", {"cap": case["cap"], "ignore": {"f": case["ignore"], "g": case["ignore"]},
                                                 "events": res["events"]})
        elif "ga" in res:
            if k == "req" and res.get("sa") and res.get("sb"):
                req = batch.add("c04.speceq", {"kind": "req", "a": res["sa"], "b": res["sb"], "ga": res["ga"], "gb": res["gb"]})
            else:
                req = batch.add("c04.keyeq", {"a": res["ga"], "b": res["gb"]})
        lh = None
        if k == "leaf" and "ga" in res and (res.get("ha") is not None or res.get("hb") is not None):
            lh = batch.add("c04.leafhash", {"objs": [res["ga"], res["gb"]]})
        pending.append((case, res, req, lh))
    return pending


def fixed_pairs():
    """the known collisions, always part of the run (regression legs)"""
    g = {"cls": "UnitGrid", "shape": [8], "bounds": [[0.0, 8.0]], "periodic": [False]}

    def req(bc_lo, bc_hi=None, op="laplace", rank=0):
        return {"grid": copy.deepcopy(g), "op": op, "rank": rank,
                "bc": {"x-": bc_lo, "x+": bc_hi or copy.deepcopy(bc_lo)}, "dtype": ["none"], "kwargs": [], "korder": 0}
    out = []
    # F1: value 0 vs derivative 0
    out.append({"kind": "req", "a": req({"type": "value", "value": ["i", 0]}), "b": req({"type": "derivative", "value": ["i", 0]}),
                "variants": ["class"], "seed": 1})
    out.append({"kind": "req", "a": req({"type": "value", "value": ["f", 1.5]}), "b": req({"type": "curvature", "value": ["f", 1.5]}),
                "variants": ["class"], "seed": 2})
    out.append({"kind": "req", "a": req({"type": "value", "value": ["f", 1.0]}, op="divergence", rank=1),
                "b": req({"type": "normal_value", "value": ["f", 1.0]}, op="divergence", rank=1), "variants": ["normal"], "seed": 3})
    # B: equal bytes, different dtype
    out.append({"kind": "req", "a": req({"type": "value", "value": ["i", 1]}), "b": req({"type": "value", "value": ["f", 5e-324]}),
                "variants": ["same_bytes"], "seed": 4})
    # A: -1 vs -2 as a numeric keyword
    for fa, fb in ((["i", -1], ["i", -2]), (["i", -2], ["i", -1]), (["f", -1.0], ["f", -2.0]), (["f", 0.5], ["i", 1 << 60])):
        out.append({"kind": "interp", "grid": copy.deepcopy(g), "rank": 0, "a": [["fill", fa]], "b": [["fill", fb]], "seed": 5})
    # D: grid bounds -1 vs -2
    g1 = {"cls": "CartesianGrid", "shape": [4], "bounds": [[-1.0, 1.0]], "periodic": [False]}
    g2 = {"cls": "CartesianGrid", "shape": [4], "bounds": [[-2.0, 1.0]], "periodic": [False]}
    ra, rb = req({"type": "value", "value": ["i", 0]}), req({"type": "value", "value": ["i", 0]})
    ra["grid"], rb["grid"] = g1, g2
    out.append({"kind": "req", "a": ra, "b": rb, "variants": ["bounds_hash"], "seed": 6})
    out.append({"kind": "leaf", "a": ["i", -1], "b": ["i", -2]})
    out.append({"kind": "leaf", "a": ["arr", "int64", 1], "b": ["arr", "float64", 5e-324]})
    return out


def judge_pairs(ctx, pending, answers):
    for case, res, req, lh in pending:
        k = case["kind"]
        leg = f"pairs:{k}"
        cj = slim(case)
        if k == "deco":
            ctx.count(cj, nontrivial=len(set(res["answers"])) < len(res["answers"]), leg=leg)
            ctx.impl_traces += 1
            st, val = answers[req]
            if st != "ok" or list(val) != list(res["answers"]):
                ctx.disagree("decorator", cj, val, res["answers"], "hit/miss pattern of _class_cache vs runEvents")
            continue
        if "hash_eq" not in res:
            ctx.hist("malformed", res.get("error", "?"))
            ctx.count(cj, nontrivial=False, leg=leg + ":malformed")
            continue
        differ = json.dumps(case["a"], sort_keys=True) != json.dumps(case["b"], sort_keys=True)
        ok_built = "error" not in res
        ctx.count(cj, nontrivial=bool(differ and ok_built and res.get("nonzero", True)), leg=leg)
        ctx.hist(f"{k}:relation", f"hash_eq={res['hash_eq']} sem_eq={res.get('sem_eq', res.get('py_eq'))}")
        model = None
        if req is not None:
            st, val = answers[req]
            ctx.impl_traces += 1
            if st != "ok":
                ctx.disagree("key-relation", cj, f"model error {val}", res["hash_eq"])
            else:
                model = val
                if val["cur"] != res["hash_eq"]:
                    ctx.disagree("key-relation", cj, {"model_key_equal": val}, {"hash_mutable_equal": res["hash_eq"]},
                                 "key equality in the model vs hash_mutable equality on the real objects")
                for m in ("match_a", "match_b"):
                    if m in val and not val[m]:
                        ctx.disagree("spec-graph", cj, m, "graph built by the model from the attribute specification has "
                                     "another key than the serialised real object", "")
        elif "unmodelled" in res:
            ctx.hist("unmodelled", res["unmodelled"][:60])
        if lh is not None:
            st, val = answers[lh]
            for tag, mv in zip(("ha", "hb"), val if st == "ok" else [None, None]):
                if res.get(tag) is not None and mv is not None and mv != res[tag]:
                    ctx.disagree("builtin-hash", cj, {"model_hash": mv}, {"hash": res[tag]}, tag)
        if "shared" in res and res["shared"] != res["hash_eq"]:
            ctx.disagree("wrapper", cj, {"key_equal": res["hash_eq"]}, {"cached_objects_identical": res["shared"]},
                         "the cached method shares/does not share although the wrapper key says otherwise")
        if k == "leaf" or not ok_built:
            if not ok_built:
                ctx.hist("malformed", res["error"][:40])
            continue
        # the property on this pair: after the cached call for a, the cached call for b is a fresh b
        ctx.monitor_evals += 1
        shared = res.get("shared", res["hash_eq"])
        bad = None
        if not res["cached_ok"]:
            bad = "the cached call returns something else than a freshly built one after the other request was served"
        elif shared and not res["sem_eq"]:
            bad = "two requests that denote different functions share one cached implementation"
        if bad:
            key = classify(model) or dict(GENERIC_KEY, call_site={"req": "NumbaBackend.make_operator", "interp": "DataFieldBase.make_interpolator",
                                                                   "nobc": "GridBase.make_operator_no_bc"}[k])
            ctx.monitor_fail(leg, cj, {"problem": bad, "result_of_second_request": res.get("observed"), "shared_object": shared},
                             {"fresh": res.get("expected")}, f"{k}: {key.get('symptom')}", key=key)


# ==========================================================================================
def run(ctx):
    from harness.common.lean import LeanBatch
    quiet()
    batch = LeanBatch(ctx.workdir)
    t0 = time.time()
    pending = run_pairs(ctx, batch)
    ctx.extra["t_pairs_real"] = round(time.time() - t0, 1)
    t0 = time.time()
    answers = batch.run()
    ctx.extra["t_pairs_model"] = round(time.time() - t0, 1)
    judge_pairs(ctx, pending, answers)


def replay(ctx, rep):
    quiet()
    case = rep["case"]
    res = pair_worker(case)
    print(json.dumps({k: v for k, v in res.items() if k not in ("ga", "gb", "sa", "sb")}, default=str)[:2000])
    return bool(res.get("cached_ok", True)) and not (res.get("shared") and res.get("sem_eq") is False)
