"""C12 - grid geometry and coordinate transformations are self-consistent.

Correspondence: the real grid classes of `pde.grids` (UnitGrid, CartesianGrid 1-3d, PolarSymGrid,
SphericalSymGrid, CylindricalSymGrid) vs `PdeVerif.Grids` (Lean, evaluated at Rat with the double
`math.pi` as the value of the symbolic `pi`) on: axes_coords, discretization, cell_volume_data,
cell_volumes, volume, integrate (all axis subsets), ScalarField.project, transform (all 9
source/target pairs), contains_point, normalize_point (+reflect), difference_vector, distance,
get_random_point (twin generator) and the pos_to_cart / pos_from_cart maps of the coordinate
classes.  Exact comparison for the dyadic stream, 1e-12 of the natural scale otherwise; external
`hypot`/`norm`/trig values are validated numerically.  Monitors: the statements of the property
evaluated on the real results of every case."""
import itertools
import json
import math
import os
from fractions import Fraction

import numpy as np

from harness.common.num import q, unq

PID = "C12"
LEVEL = "proof"
REQUIRED_THEOREMS = [
    "centres", "dx_def", "cell_volumes_exact", "cell_volumes_sum_eq_volume", "cyl_volume_identity",
    "integrate_one_eq_measure", "project_preserves_integral", "cell_grid_inverse",
    "centre_maps_to_half_integer", "cart_polar_roundtrip", "random_point_contained",
    "normalize_in_domain", "normalize_idempotent", "normalize_moves_by_periods",
    "reflect_in_domain", "reflect_idempotent", "wrap_abs_le_half_period",
    "wrap_invariant_under_period_shift", "distance_symmetric", "periodic_flag_pairs_with_its_axis",
    # grid-level statements / compositions about the definitions the driver evaluates
    "grid_centres_and_dx", "cell_cart_cell", "cart_cell_cart_radius", "contained_in_all_coords",
    "normalizePoint_contained", "distance_invariant_under_period_shift",
    "distance_invariant_under_period_shift_grid", "distance_invariant_under_period_shift_cell",
    # Props/C12b: the grid as the constructor creates it, containment as an equivalence, named random draws
    "construct_axes", "construct_wf", "constructed_centres_and_dx", "cartesian_centres_and_dx",
    "construct_rejects_bad_radius", "containsGrid_iff_in_bounds", "containsCellPoint_iff_index",
    "randomPointCart_contained", "randomRadialDraw_contained",
]
EXTRA_PROP_FILES = ["C12b"]
RULE = ("random grids of every class (UnitGrid, CartesianGrid 1-3d, PolarSymGrid, SphericalSymGrid, "
        "CylindricalSymGrid; 1..200 cells, dyadic and decimal bounds, negative bounds, scales 2^-100..2^100 / "
        "1e-30..1e30 chosen per axis, reversed "
        "bounds, inner radii, every periodicity pattern) x operation legs (geometry, integrate over every "
        "axis subset, project, transform, contains, normalize(+reflect), distance, random point, coordinate "
        "maps, malformed input) with point batches (single, 1-d, 2-d, empty; keyword arguments given or left at "
        "their defaults) built from inside points, faces, cell centres, seams, "
        "far-outside points, half-period ties and integer-typed points; a case is distinct by (leg, grid "
        "spec, inputs) and non-trivial if its expected result is not constant: geometry/integrate with at "
        "least one non-uniform or multi-cell axis, point legs where at least one point is moved / wrapped / "
        "outside / off-axis, malformed cases never count as non-trivial")
ASSUMPTIONS = [
    "exact field arithmetic in the model; the real results are compared exactly on the dyadic stream and "
    "within 1e-12 (1e-11 for sums) of the natural scale otherwise; the natural scale of a coordinate is the "
    "scale of ITS axis (max(|lo|,|hi|,|coordinate|)), never the largest axis of the grid",
    "pi is symbolic in the theorems; the driver evaluates the model with the double math.pi",
    "hypot / norm / arccos / cos / sin / x**(1/d) of the real code are external: validated numerically "
    "(r~^2 = x^2+y^2(+z^2) at 1e-12, (c,s) pairs taken from numpy)",
    "near a periodic seam or a face a decimal (non-dyadic) point may land on the other side by rounding; "
    "such a case is accepted only if the exact value is within 1e-9 of the seam (counted in the histogram)",
]
TRUSTED_EXTRA = ["numpy Generator.uniform(a,b) = a + (b-a)*next_double and Generator.random (twin generator "
                 "with the same seed reproduces the draws of get_random_point)"]

PI = math.pi
TOL = 1e-12
TOL_SUM = 1e-11
FINDING_INT = {"call_site": "GridBase._difference_vector",
               "symptom": "int-dtype-points-truncate-wrapped-difference"}


# ------------------------------------------------------------------------------------------
# grids
def build(spec):
    import pde
    c = spec["cls"]
    if c == "unit":
        return pde.UnitGrid(list(spec["shape"]), periodic=list(spec["periodic"]))
    if c == "cartesian":
        return pde.CartesianGrid([tuple(b) for b in spec["bounds"]], list(spec["shape"]),
                                 periodic=list(spec["periodic"]))
    rad = spec["radius"]
    rad = tuple(rad) if isinstance(rad, (list, tuple)) else rad
    if c == "polar":
        return pde.PolarSymGrid(rad, spec["shape"][0])
    if c == "spherical":
        return pde.SphericalSymGrid(rad, spec["shape"][0])
    if c == "cylindrical":
        return pde.CylindricalSymGrid(rad, tuple(spec["bounds_z"]), list(spec["shape"]),
                                      periodic_z=spec["periodic"][1])
    raise ValueError(c)


def spec_bounds(spec):
    """(lo, hi) per described axis as the constructor arguments say (Fractions of the doubles);
    reversed Cartesian bounds are flipped like Cuboid does"""
    c = spec["cls"]
    if c == "unit":
        return [(Fraction(0), Fraction(n)) for n in spec["shape"]]
    if c == "cartesian":
        out = []
        for lo, hi in spec["bounds"]:
            lo, hi = Fraction(lo), Fraction(hi)
            out.append((min(lo, hi), max(lo, hi)))
        return out
    rad = spec["radius"]
    r = (Fraction(rad[0]), Fraction(rad[1])) if isinstance(rad, (list, tuple)) else (Fraction(0), Fraction(rad))
    if c in ("polar", "spherical"):
        return [r]
    return [r, (Fraction(spec["bounds_z"][0]), Fraction(spec["bounds_z"][1]))]


def mgrid(spec):
    """grid argument of the model driver: the CONSTRUCTOR ARGUMENTS as they are handed to py-pde.  The driver
    builds the grid through the model of the constructors (`Grid.construct`, Model/GridCtor.lean: radius number
    vs pair, flipping of reversed Cartesian bounds, UnitGrid's (0, N)), so every leg is tied to it; the
    resulting bounds / shape / periodic flags are compared with the real grid in the geometry leg"""
    c = spec["cls"]
    g = {"ctor": c, "shape": [int(n) for n in spec["shape"]], "periodic": [bool(p) for p in spec["periodic"]]}
    if c == "cartesian":
        g["bounds"] = [[q(b[0]), q(b[1])] for b in spec["bounds"]]
    elif c != "unit":
        rad = spec["radius"]
        g["radius"] = [q(x) for x in rad] if isinstance(rad, (list, tuple)) else [q(rad)]
        if c == "cylindrical":
            g["bounds_z"] = [q(spec["bounds_z"][0]), q(spec["bounds_z"][1])]
    return g


def dim_of(spec):
    return {"unit": len(spec["shape"]), "cartesian": len(spec["shape"]), "polar": 2,
            "spherical": 3, "cylindrical": 3}[spec["cls"]]


def is_pow2(n):
    return n & (n - 1) == 0


def dyadic(rng, lo, hi, emax=3):
    return rng.randint(lo, hi) / 2 ** rng.randint(0, emax)


def gen_interval(rng, mode, positive=False):
    """(lo, hi, scale): dyadic -> exactly representable with few bits (times a power of two),
    decimal -> arbitrary doubles"""
    if mode == "dyadic":
        s = rng.choice([1.0, 1.0, 1.0, 1.0, 2.0 ** -24, 2.0 ** 20, 2.0 ** -3, 2.0 ** -100, 2.0 ** 100, 2.0 ** -60, 2.0 ** 50])
        lo = 0.0 if (positive and rng.random() < 0.5) else (dyadic(rng, 0 if positive else -40, 40) * s)
        L = dyadic(rng, 1, 48) * s
        return lo, lo + L
    s = rng.choice([1.0, 1.0, 1.0, 1.0, 1e-6, 1e5, 0.37, 1e-3, 123.0, 1e-30, 1e30, 1e-12, 1e9])
    lo = 0.0 if (positive and rng.random() < 0.5) else round(rng.uniform(0 if positive else -30, 30), 3) * s
    L = rng.choice([0.1, 0.3, 1.0, 2.5, 3.3, 7.0, 10.0, 1 / 3, 6.283, rng.uniform(0.01, 20)]) * s
    return lo, lo + L


def gen_n(rng, mode, small=False):
    if mode == "dyadic":
        return rng.choice([1, 1, 2, 2, 4, 4, 8, 8, 16] if small else [1, 1, 2, 4, 4, 8, 8, 16, 32, 64, 128])
    return rng.choice([1, 1, 2, 3, 3, 5, 6, 7] if small else [1, 1, 2, 3, 5, 7, 10, 12, 33, 100, 200])


def gen_grid(rng, cls, mode, small=False):
    """a valid grid spec.  `small` keeps the cell count low (legs that enumerate all cells)"""
    if cls in ("unit", "cartesian"):
        d = rng.choice([1, 1, 2, 2, 3])
        small = small or d > 1
        if d == 3:
            shape = [rng.choice([1, 2, 3, 4] if mode != "dyadic" else [1, 2, 4]) for _ in range(3)]
        else:
            shape = [gen_n(rng, mode, small) for _ in range(d)]
        per = [rng.random() < 0.5 for _ in range(d)]
        if cls == "unit":
            if mode == "dyadic":
                shape = [n if is_pow2(n) else 4 for n in shape]
            return {"cls": "unit", "shape": shape, "periodic": per, "mode": mode}
        bounds = []
        for _ in range(d):
            lo, hi = gen_interval(rng, mode)
            if rng.random() < 0.08:
                lo, hi = hi, lo          # reversed bounds: Cuboid flips them
            bounds.append([lo, hi])
        return {"cls": "cartesian", "bounds": bounds, "shape": shape, "periodic": per, "mode": mode}
    lo, hi = gen_interval(rng, mode, positive=True)
    radius = hi if lo == 0.0 and rng.random() < 0.7 else [lo, hi]
    if cls in ("polar", "spherical"):
        return {"cls": cls, "radius": radius, "shape": [gen_n(rng, mode, small)], "periodic": [False],
                "mode": mode}
    zlo, zhi = gen_interval(rng, mode)
    return {"cls": "cylindrical", "radius": radius, "bounds_z": [zlo, zhi],
            "shape": [gen_n(rng, mode, True), gen_n(rng, mode, True)],
            "periodic": [False, rng.random() < 0.6], "mode": mode}


def exact_grid(spec):
    """True if every quantity of the leg is computed without rounding by the real code"""
    return spec["mode"] == "dyadic" and all(is_pow2(n) for n in spec["shape"])


CLASSES = ["unit", "cartesian", "cartesian", "polar", "spherical", "cylindrical", "cylindrical"]


# ------------------------------------------------------------------------------------------
# comparison helpers
def fr(x):
    return Fraction(float(x))


def far(a, b, tol):
    """NaN-safe comparison: True unless EVERY |a-b| <= tol (a non-finite value counts as a
    difference; empty arrays never differ).  `tol` may be an array broadcast against a-b."""
    with np.errstate(invalid="ignore", over="ignore"):
        d = np.abs(np.asarray(a, dtype=float) - np.asarray(b, dtype=float))
        return not bool(np.all(d <= tol))


def absmax(a, axis=None):
    """max |a| (0 for empty arrays); NaN propagates"""
    a = np.abs(np.asarray(a, dtype=float))
    return np.max(a, axis=axis, initial=0.0)


def same(m, x, scale, exact, tol=TOL):
    """model value m (Fraction) vs real value x (float)"""
    x = float(x)
    if math.isnan(x) or math.isinf(x):
        return False
    if exact:
        # every input of the operation is exact, so the real result is the correctly rounded
        # exact value (identical to it when it is representable)
        return x == float(m)
    return abs(float(m - Fraction(x))) <= tol * scale


def same_list(ms, xs, scale, exact, tol=TOL):
    xs = list(np.ravel(xs))
    return len(ms) == len(xs) and all(same(m, x, scale, exact, tol) for m, x in zip(ms, xs))


def diff_pts(mrows, flat, scales, exact, tol=TOL):
    """model points (rows of Fractions) vs real points (n, k) with one scale PER COLUMN; the
    first difference or None"""
    flat = np.asarray(flat, dtype=float)
    if len(mrows) != len(flat):
        return {"len_model": len(mrows), "len_impl": len(flat)}
    for i, (mrow, irow) in enumerate(zip(mrows, flat)):
        if len(mrow) != len(irow):
            return {"point": i, "len_model": len(mrow), "len_impl": len(irow)}
        for j, (a, y) in enumerate(zip(mrow, irow)):
            if not same(a, y, float(scales[j]), exact, tol):
                return {"point": i, "column": j, "model": float(a), "impl": float(y)}
    return None


def axis_scales(spec):
    """natural scale of the coordinate of each described axis: max(|lo|, |hi|)"""
    return np.array([max(1e-300, float(max(abs(lo), abs(hi)))) for lo, hi in spec_bounds(spec)])


def cart_scales(spec):
    """natural scale of each Cartesian component"""
    a = axis_scales(spec)
    c = spec["cls"]
    if c == "polar":
        return np.array([a[0], a[0]])
    if c == "spherical":
        return np.array([a[0]] * 3)
    if c == "cylindrical":
        return np.array([a[0], a[0], a[1]])
    return a


def cart_point_scales(spec, flat):
    """per Cartesian component: max(scale of the component, largest |coordinate| of the points);
    the components that share the radius of a symmetric grid share one scale"""
    flat = np.asarray(flat, dtype=float).reshape(-1, dim_of(spec))
    s = np.maximum(cart_scales(spec), absmax(flat, axis=0))
    c = spec["cls"]
    if c == "polar":
        s[:] = s.max()
    elif c == "spherical":
        s[:] = s.max()
    elif c == "cylindrical":
        s[:2] = s[:2].max()
    return s


def first_diff(ms, xs, scale, exact, tol=TOL):
    xs = list(np.ravel(xs))
    for i, (m, x) in enumerate(zip(ms, xs)):
        if not same(m, x, scale, exact, tol):
            return {"index": i, "model": float(m), "impl": float(x)}
    return {"len_model": len(ms), "len_impl": len(xs)}


class _First:
    """keeps the first reported problem"""

    def __init__(self):
        self.msg = None

    def set(self, msg):
        if self.msg is None:
            self.msg = msg

    def __bool__(self):
        return self.msg is not None


class Pending:
    """requests to the model driver with the continuation that compares the answer"""

    def __init__(self, ctx):
        from harness.common.lean import LeanBatch
        self.ctx = ctx
        self.batch = LeanBatch(ctx.workdir)
        self.todo = []

    def add(self, fn, args, cont):
        i = self.batch.add(fn, args)
        self.todo.append((i, cont))

    def run(self):
        resps = self.batch.run()
        for i, cont in self.todo:
            cont(resps[i])
        self.todo = []


class NoModel:
    """monitors only (failing-input search, replay of a failing input)"""

    def add(self, *a, **k):
        pass

    def run(self):
        pass


def expect_ok(ctx, resp, leg, case):
    status, val = resp
    if status != "ok":
        ctx.disagree(leg, case, f"model error: {val}", None)
        return None
    return val


# the case whose real-code calls are being executed (so that an exception escaping a leg is
# reported with the concrete inputs, see _guard)
_CUR = {"case": None}


def _begin(case):
    _CUR["case"] = case


def raised(ctx, leg, case, spec, e, call):
    """the real code raised on a valid input: a failing input of the property (with the inputs),
    not a mere disagreement"""
    cls = (spec or {}).get("cls") if isinstance(spec, dict) else None
    ctx.monitor_evals += 1
    ctx.monitor_fail(leg, case, {"raised": f"{type(e).__name__}: {e}"[:400], "call": call},
                     "no exception on a valid grid / point",
                     f"{cls}: the real code raised {type(e).__name__} on a valid input (leg {leg})",
                     key={"grid_class": cls, "leg": leg, "symptom": f"raised-{type(e).__name__}"})


def _arr(pts, shape=None, dtype=float):
    """recorded points -> array of the recorded shape (an empty batch keeps its last dimension)"""
    a = np.array(pts, dtype=dtype)
    if shape is not None:
        a = a.reshape(tuple(shape))
    return a


# ------------------------------------------------------------------------------------------
# leg: geometry
def axis_measure(spec, ax):
    """exact-closed-form measure of one axis in floats (independent of the model): length, annulus
    area / shell volume"""
    b = spec_bounds(spec)
    lo, hi = float(b[ax][0]), float(b[ax][1])
    c = spec["cls"]
    if c == "polar" or (c == "cylindrical" and ax == 0):
        return PI * (hi * hi - lo * lo)
    if c == "spherical":
        return 4 / 3 * PI * (hi ** 3 - lo ** 3)
    return hi - lo


def cell_measure(spec, ax, i):
    """closed-form volume factor of cell i along axis ax from the *faces* lo + i dx (floats)"""
    b = spec_bounds(spec)
    lo, hi = b[ax]
    n = spec["shape"][ax]
    fl, fh = lo + (hi - lo) * i / n, lo + (hi - lo) * (i + 1) / n
    c = spec["cls"]
    if c == "polar" or (c == "cylindrical" and ax == 0):
        return float(Fraction(PI) * (fh * fh - fl * fl))
    if c == "spherical":
        return float(Fraction(PI) * Fraction(4, 3) * (fh ** 3 - fl ** 3))
    return float(fh - fl)


def vol_scale(spec):
    """natural scale of volumes: product of the 'outer' measures of the axes"""
    return float(np.prod([axis_measure_outer(spec, ax) for ax in range(len(spec["shape"]))]))


def axis_measure_outer(spec, ax):
    b = spec_bounds(spec)
    lo, hi = float(b[ax][0]), float(b[ax][1])
    c = spec["cls"]
    if c == "polar" or (c == "cylindrical" and ax == 0):
        return PI * hi * hi
    if c == "spherical":
        return 4 / 3 * PI * hi ** 3
    return max(hi - lo, 1e-300)


def leg_geometry(ctx, P, spec):
    g = build(spec)
    exact = exact_grid(spec)
    case = {"leg": "geometry", "grid": spec}
    _begin(case)
    nontrivial = any(n > 1 for n in spec["shape"])
    ctx.count(case, nontrivial=nontrivial, leg="geometry")
    ctx.hist("geometry", f"{spec['cls']}/{spec['mode']}/{'exact' if exact else 'tol'}")
    asc = axis_scales(spec)
    vs = vol_scale(spec)
    b = spec_bounds(spec)
    impl = {
        "bounds": [[float(x) for x in bb] for bb in g.axes_bounds],
        "dx": [float(x) for x in g.discretization],
        "coords": [np.array(c, dtype=float) for c in g.axes_coords],
        "voldata": [np.broadcast_to(np.asarray(v, dtype=float), (n,)) for v, n in zip(g.cell_volume_data, g.shape)],
        "cellvols": np.array(g.cell_volumes, dtype=float),
        "volume": float(g.volume),
        "shape": list(g.shape), "periodic": [bool(p) for p in g.periodic], "dim": g.dim,
        "num_axes": g.num_axes,
    }
    # ---- monitor: the statement of the property on the real numbers ----------------------
    ctx.monitor_evals += 1
    bad = _First()
    for ax, ((lo, hi), n) in enumerate(zip(b, spec["shape"])):
        lo_f, hi_f = float(lo), float(hi)
        dxe = (hi_f - lo_f) / n
        if not (abs(impl["dx"][ax] - dxe) <= TOL * max(abs(dxe), 1e-300)):
            bad.set(f"dx[{ax}]={impl['dx'][ax]!r} != (hi-lo)/N={dxe!r}")
        if len(impl["coords"][ax]) != n:
            bad.set(f"axis {ax} has {len(impl['coords'][ax])} centres for N={n}")
        for i, x in enumerate(impl["coords"][ax]):
            xe = float(lo + (hi - lo) * (2 * i + 1) / (2 * n))
            # scale of THIS axis (a grid mixes scales from 1e-30 to 1e30)
            if not (abs(x - xe) <= TOL * asc[ax]):
                bad.set(f"centre[{ax}][{i}]={x!r} != lo+(i+1/2)dx={xe!r}")
                break
        for i in range(n):
            ve = cell_measure(spec, ax, i)
            if not (abs(impl["voldata"][ax][i] - ve) <= TOL_SUM * axis_measure_outer(spec, ax)):
                bad.set(f"cell_volume_data[{ax}][{i}]={impl['voldata'][ax][i]!r} != closed form {ve!r}")
                break
    for name in ("dx", "volume"):
        if not np.all(np.isfinite(np.ravel(impl[name]))):
            bad.set(f"non-finite {name}")
    if not all(np.all(np.isfinite(c)) for c in impl["coords"]) or not np.all(np.isfinite(impl["cellvols"])):
        bad.set("non-finite coordinates / cell volumes")
    vol_e = float(np.prod([axis_measure(spec, ax) for ax in range(len(b))]))
    if not (abs(impl["volume"] - vol_e) <= TOL_SUM * vs):
        bad.set(f"volume={impl['volume']!r} != closed form {vol_e!r}")
    sv = float(impl["cellvols"].sum())
    if not (abs(sv - impl["volume"]) <= TOL_SUM * vs):
        bad.set(f"sum(cell_volumes)={sv!r} != volume={impl['volume']!r}")
    i1 = float(g.integrate(1))
    if not (abs(i1 - impl["volume"]) <= TOL_SUM * vs):
        bad.set(f"integrate(1)={i1!r} != volume={impl['volume']!r}")
    if impl["cellvols"].shape != tuple(spec["shape"]):
        bad.set(f"cell_volumes has shape {impl['cellvols'].shape}")
    # the coordinate system's own cell volume over the full range of the symmetric angles
    try:
        d2 = g.discretization / 2
        xl = g._coords_full(g.cell_coords - d2, value="min")
        xh = g._coords_full(g.cell_coords + d2, value="max")
        cv = np.asarray(g.c.cell_volume(xl, xh), dtype=float)
        if cv.shape != impl["cellvols"].shape or far(cv, impl["cellvols"], TOL_SUM * vs):
            bad.set("coordinates.cell_volume over the full angular range differs from grid.cell_volumes")
    except Exception as e:  # noqa: BLE001
        bad.set(f"coordinates.cell_volume raised {type(e).__name__}: {e}")
    if bad:
        ctx.monitor_fail("geometry", case, {"problem": bad.msg, "impl": _js(impl)},
                         "centres lo+(i+1/2)dx, dx=(hi-lo)/N, exact cell volumes summing to the volume",
                         f"{spec['cls']}: geometry", key={"grid_class": spec["cls"], "leg": "geometry"})

    def cont(resp):
        m = expect_ok(ctx, resp, "geometry", case)
        if m is None:
            return
        ctx.impl_traces += 1
        probs = []
        mg = m["grid"]      # the grid the model of the constructor made of the constructor arguments
        mb = [[unq(x) for x in bb] for bb in zip(mg["lo"], mg["hi"])]
        if mg["cls"] != spec["cls"] or [int(n) for n in mg["n"]] != impl["shape"] or [bool(p) for p in mg["periodic"]] != impl["periodic"]:
            probs.append(("constructed class/shape/periodic", [mg["cls"], mg["n"], mg["periodic"]],
                          [spec["cls"], impl["shape"], impl["periodic"]]))
        for ax, (bb, ib) in enumerate(zip(mb, impl["bounds"])):
            if not same_list(bb, ib, asc[ax], exact):
                probs.append(("axes_bounds", [[float(x) for x in bb] for bb in mb], impl["bounds"]))
                break
        if len(mb) != len(impl["bounds"]):
            probs.append(("axes_bounds", len(mb), len(impl["bounds"])))
        if impl["shape"] != list(spec["shape"]) or impl["periodic"] != [bool(p) for p in spec["periodic"]]:
            probs.append(("shape/periodic", [spec["shape"], spec["periodic"]], [impl["shape"], impl["periodic"]]))
        if impl["dim"] != m["dim"] or impl["num_axes"] != len(spec["shape"]):
            probs.append(("dim", m["dim"], impl["dim"]))
        mdx = [unq(x) for x in m["dx"]]
        if len(mdx) != len(impl["dx"]) or not all(same(a, y, float(abs(a)), exact) for a, y in zip(mdx, impl["dx"])):
            probs.append(("discretization", [float(x) for x in mdx], impl["dx"]))
        for ax, (mc, ic) in enumerate(zip(m["coords"], impl["coords"])):
            mc = [unq(x) for x in mc]
            if not same_list(mc, ic, asc[ax], exact):
                probs.append((f"axes_coords[{ax}]", first_diff(mc, ic, asc[ax], exact), None))
        for ax, (mv, iv) in enumerate(zip(m["voldata"], impl["voldata"])):
            mv = [unq(x) for x in mv]
            sc = axis_measure_outer(spec, ax)
            if not same_list(mv, iv, sc, False, TOL_SUM):
                probs.append((f"cell_volume_data[{ax}]", first_diff(mv, iv, sc, False, TOL_SUM), None))
        mcv = [unq(x) for x in m["cellvols"]]
        if not same_list(mcv, impl["cellvols"], vs, False, TOL_SUM):
            probs.append(("cell_volumes", first_diff(mcv, impl["cellvols"], vs, False, TOL_SUM), None))
        if not same(unq(m["volume"]), impl["volume"], vs, False, TOL_SUM):
            probs.append(("volume", float(unq(m["volume"])), impl["volume"]))
        for what, mm, ii in probs:
            ctx.disagree("geometry", case, {what: mm}, {what: ii}, what)

    P.add("c12.geometry", {"grid": mgrid(spec), "pi": q(PI)}, cont)
    if spec["cls"] == "cartesian":
        # Cuboid.from_bounds on the raw constructor arguments (reversed bounds are flipped)
        corners = [[float(x) for x in g.cuboid.corners[0]], [float(x) for x in g.cuboid.corners[1]]]

        def cont2(resp):
            m = expect_ok(ctx, resp, "geometry", case)
            if m is None:
                return
            ctx.impl_traces += 1
            for ax, bb in enumerate(m):
                mv = [unq(x) for x in bb]
                iv = [corners[0][ax], corners[1][ax]]
                iv2 = list(impl["bounds"][ax])
                if not same_list(mv, iv, asc[ax], exact) or not same_list(mv, iv2, asc[ax], exact):
                    ctx.disagree("geometry", case, {"cuboid": [float(x) for x in mv], "axis": ax},
                                 {"corners": iv, "axes_bounds": iv2}, "Cuboid.from_bounds")
                    break

        P.add("c12.cuboid", {"lo": [q(bb[0]) for bb in spec["bounds"]], "hi": [q(bb[1]) for bb in spec["bounds"]]}, cont2)


def _js(o):
    if isinstance(o, dict):
        return {k: _js(v) for k, v in o.items()}
    if isinstance(o, (list, tuple)):
        return [_js(v) for v in o]
    if isinstance(o, np.ndarray):
        return o.tolist()
    if isinstance(o, (np.floating, np.integer, np.bool_)):
        return o.item()
    if isinstance(o, Fraction):
        return float(o)
    return o


# ------------------------------------------------------------------------------------------
# leg: integrate / project
def gen_data(rng, shape, kind):
    n = int(np.prod(shape))
    if kind == "ones":
        vals = [1.0] * n
    elif kind == "index":
        vals = [float(i) - n / 4 for i in range(n)]
    else:
        vals = [rng.randint(-16, 16) / 4 for _ in range(n)]
    return np.array(vals, dtype=float).reshape(shape)


def leg_integrate(ctx, P, spec, rng, force=None):
    """`force`: a recorded case - exactly its data, axis subset and form of the `axes` argument"""
    g = build(spec)
    k = len(spec["shape"])
    if force is not None:
        kind = force.get("kind", "recorded")
        data = _arr(force["data"], spec["shape"])
        jobs = [(tuple(force["axes"]), force["axes_arg"])]
    else:
        subsets = [tuple(s) for r in range(k + 1) for s in itertools.combinations(range(k), r)]
        kind = rng.choice(["ones", "index", "random", "random"])
        data = gen_data(rng, spec["shape"], kind)
        jobs = [(sub, rng.choice(["tuple", "list", "none-if-all", "int-if-single", "default-if-all"])) for sub in subsets]
    dscale = max(1.0, float(absmax(data)))
    for sub, how in jobs:
        axes_arg = list(sub) if how == "list" else tuple(sub)
        kwargs = {"axes": axes_arg}
        if how == "none-if-all" and len(sub) == k:
            kwargs = {"axes": None}
        if how == "int-if-single" and len(sub) == 1:
            kwargs = {"axes": sub[0]}
        if how == "default-if-all" and len(sub) == k:
            kwargs = {}                       # the default `axes=None`: all axes
        sel = [ax in sub for ax in range(k)]
        case = {"leg": "integrate", "grid": spec, "axes": list(sub), "axes_arg": how, "data": data.ravel().tolist()}
        _begin(case)
        ctx.count(case, nontrivial=(len(sub) > 0 and (kind != "ones" or any(n > 1 for n in spec["shape"]))),
                  leg="integrate")
        ctx.hist("integrate", f"{spec['cls']}/{k}axes/subset{len(sub)}/{kind}")
        ctx.hist("default-args", f"integrate/axes {'left out' if not kwargs else 'given as ' + type(kwargs['axes']).__name__}")
        try:
            res = np.asarray(g.integrate(data, **kwargs), dtype=float)
            one = np.asarray(g.integrate(1, **kwargs), dtype=float)
            # data with a leading component axis (vector field): every component separately
            vec = np.stack([data, 2 * data[::-1] + 1])
            resv = np.asarray(g.integrate(vec, **kwargs), dtype=float)
            res1 = np.asarray(g.integrate(vec[1], **kwargs), dtype=float)
        except Exception as e:  # noqa: BLE001
            raised(ctx, "integrate", case, spec, e, f"grid.integrate(data, {kwargs})")
            continue
        tolv = 1e-11 * (1 + float(absmax(resv)))
        if resv.shape != (2,) + res.shape or far(resv[0], res, tolv) or far(resv[1], res1, tolv):
            ctx.disagree("integrate", case, "componentwise", {"vector": resv.tolist(), "components": [res.tolist(), res1.tolist()]},
                         "integrate of data with a leading component axis")
        # monitor: integrating 1 over the selected axes gives the product of their measures
        ctx.monitor_evals += 1
        meas = float(np.prod([axis_measure(spec, ax) for ax in sub])) if sub else 1.0
        msc = float(np.prod([axis_measure_outer(spec, ax) for ax in sub])) if sub else 1.0
        ret_shape = tuple(n for ax, n in enumerate(spec["shape"]) if ax not in sub)
        if one.shape != ret_shape or far(one, meas, TOL_SUM * msc):
            ctx.monitor_fail("integrate", case, {"integrate(1)": one.tolist(), "shape": list(one.shape)},
                             {"measure": meas, "shape": list(ret_shape)},
                             f"{spec['cls']}: integrate(1, axes) is not the measure of the selected axes",
                             key={"grid_class": spec["cls"], "leg": "integrate"})

        # ... and the same for constant-one data with a leading component axis (vector data): every component gets the measure
        ctx.monitor_evals += 1
        try:
            onev = np.asarray(g.integrate(np.ones((2,) + tuple(spec["shape"])), **kwargs), dtype=float)
        except Exception as e:  # noqa: BLE001
            onev = f"raised {type(e).__name__}: {e}"[:200]
        if isinstance(onev, str) or onev.shape != (2,) + ret_shape or far(onev, meas, TOL_SUM * msc):
            ctx.monitor_fail("integrate", case, {"integrate(ones with component axis)": onev if isinstance(onev, str) else onev.tolist()},
                             {"measure": meas, "shape": [2] + list(ret_shape)},
                             f"{spec['cls']}: integrate(1, axes) of data with a component axis is not the measure of the selected axes",
                             key={"grid_class": spec["cls"], "leg": "integrate", "data": "component axis"})

        def cont(resp, case=case, res=res, ret_shape=ret_shape, msc=msc):
            m = expect_ok(ctx, resp, "integrate", case)
            if m is None:
                return
            ctx.impl_traces += 1
            mv = [unq(x) for x in m]
            sc = msc * dscale * max(1, int(np.prod([n for ax, n in enumerate(spec["shape"]) if ax in case["axes"]])))
            if res.shape != ret_shape or not same_list(mv, res, sc, False, TOL_SUM):
                ctx.disagree("integrate", case, first_diff(mv, res, sc, False, TOL_SUM),
                             {"shape": list(res.shape)}, "integrate(data, axes)")

        P.add("c12.integrate", {"grid": mgrid(spec), "pi": q(PI), "sel": sel,
                                "data": [q(x) for x in data.ravel()]}, cont)


def leg_project(ctx, P, spec, rng, force=None):
    """`force`: a recorded case - exactly its data, removed axes and form of the argument"""
    import pde
    g = build(spec)
    k = len(spec["shape"])
    if k < 2:
        return
    if force is not None:
        data = _arr(force["data"], spec["shape"])
        jobs = [(tuple(force["remove"]), force.get("arg_form", "list"))]
    else:
        data = gen_data(rng, spec["shape"], rng.choice(["index", "random", "random"]))
        if spec["cls"] == "cylindrical":
            subsets = [(0,), (1,)]
        else:
            subsets = [tuple(s) for r in range(1, k) for s in itertools.combinations(range(k), r)]
        jobs = [(sub, "name" if len(sub) == 1 and rng.random() < 0.5 else "list") for sub in subsets]
    f = pde.ScalarField(g, data)
    vs = vol_scale(spec)
    asc = axis_scales(spec)
    dscale = max(1.0, float(absmax(data))) * data.size
    for sub, arg_form in jobs:
        names = [g.axes[ax] for ax in sub]
        arg = names[0] if arg_form == "name" else names
        case = {"leg": "project", "grid": spec, "remove": list(sub), "arg_form": arg_form, "data": data.ravel().tolist()}
        _begin(case)
        ctx.count(case, nontrivial=True, leg="project")
        ctx.hist("project", f"{spec['cls']}/{k}axes/remove{len(sub)}")
        try:
            p = f.project(arg)
            pint, fint = float(p.integral), float(f.integral)
            pdata = np.array(p.data, dtype=float)
            sg = p.grid
            simpl = {"cls": type(sg).__name__, "bounds": [[float(x) for x in b] for b in sg.axes_bounds],
                     "shape": list(sg.shape), "periodic": [bool(x) for x in sg.periodic]}
        except Exception as e:  # noqa: BLE001
            raised(ctx, "project", case, spec, e, f"ScalarField.project({arg!r})")
            continue
        ctx.monitor_evals += 1
        if not (abs(pint - fint) <= TOL_SUM * vs * dscale):
            ctx.monitor_fail("project", case, {"projected.integral": pint, "field.integral": fint},
                             "equal integrals", f"{spec['cls']}: projection changes the integral",
                             key={"grid_class": spec["cls"], "leg": "project"})

        def cont(resp, case=case, pdata=pdata, pint=pint, fint=fint, simpl=simpl, sub=sub):
            m = expect_ok(ctx, resp, "project", case)
            if m is None:
                return
            ctx.impl_traces += 1
            mv = [unq(x) for x in m["data"]]
            sc = vs * dscale
            scp = dscale * float(np.prod([axis_measure_outer(spec, ax) for ax in sub]))
            if not same_list(mv, pdata, scp, False, TOL_SUM):
                ctx.disagree("project", case, first_diff(mv, pdata, scp, False, TOL_SUM), None, "projected data")
            if not same(unq(m["integral"]), pint, sc, False, TOL_SUM) or not same(unq(m["full"]), fint, sc, False, TOL_SUM):
                ctx.disagree("project", case, {"integral": float(unq(m["integral"])), "full": float(unq(m["full"]))},
                             {"integral": pint, "full": fint}, "integrals")
            ms = m["sliced"]
            cname = {"unit": "UnitGrid", "cartesian": "CartesianGrid", "polar": "PolarSymGrid"}.get(ms["cls"], ms["cls"])
            mb = [[float(unq(a)), float(unq(b))] for a, b in zip(ms["lo"], ms["hi"])]
            kept = [ax for ax in range(k) if ax not in sub]
            okb = len(mb) == len(simpl["bounds"]) == len(kept) and all(
                abs(x - y) <= TOL * asc[ax] for ax, bb, cc in zip(kept, mb, simpl["bounds"]) for x, y in zip(bb, cc))
            if cname != simpl["cls"] or not okb or ms["n"] != simpl["shape"] or ms["periodic"] != simpl["periodic"]:
                ctx.disagree("project", case, {"sliced": [cname, mb, ms["n"], ms["periodic"]]}, {"sliced": simpl},
                             "sliced grid")

        P.add("c12.project", {"grid": mgrid(spec), "pi": q(PI), "remove": [ax in sub for ax in range(k)],
                              "data": [q(x) for x in data.ravel()]}, cont)


# ------------------------------------------------------------------------------------------
# points
def gen_axis_points(rng, lo, hi, n, mode, m):
    """m coordinates along one axis in *grid* coordinates + their categories"""
    lo, hi = float(lo), float(hi)
    L = hi - lo
    dx = L / n
    out, cats = [], []
    for _ in range(m):
        r = rng.random()
        if mode == "dyadic":
            frac = rng.randint(0, 64) / 64
            eps = L / 2 ** rng.choice([6, 10, 20])
        else:
            frac = rng.random()
            eps = L * rng.choice([1e-3, 1e-6, 1e-9])
        if r < 0.25:
            x, c = lo + frac * L, "inside"
        elif r < 0.33:
            x, c = rng.choice([lo, hi]), "face"
        elif r < 0.41:
            x, c = lo + (rng.randrange(n) + 0.5) * dx, "centre"
        elif r < 0.47:
            x, c = lo + rng.randint(0, n) * dx, "cell-face"
        elif r < 0.60:
            x, c = rng.choice([lo + eps, hi - eps, lo - eps, hi + eps]), "seam"
        elif r < 0.80:
            kk = rng.choice([1, 1, 2, 3, 7, 100, 1000]) * rng.choice([-1, 1])
            x, c = lo + frac * L + kk * L, "outside-periods"
        elif r < 0.90:
            x, c = lo + rng.choice([-1, 1, 2, -2, 3]) * L, "outside-on-image-of-face"
        else:
            x, c = lo + L * rng.choice([-0.5, 1.5, 2.5, -1.25, 0.5]), "half-period"
        out.append(x)
        cats.append(c)
    return out, cats


def gen_points(rng, spec, m):
    """(m, num_axes) array of grid coordinates and the list of categories"""
    b = spec_bounds(spec)
    cols, cats = [], []
    for (lo, hi), n in zip(b, spec["shape"]):
        xs, cs = gen_axis_points(rng, lo, hi, n, spec["mode"], m)
        cols.append(xs)
        cats.append(cs)
    pts = np.array(cols, dtype=float).T.reshape(m, len(b))
    return pts, cats


def shape_batch(rng, pts):
    """present a batch as a single point, a list of points, a 2-d batch or an empty batch"""
    m, k = pts.shape
    r = rng.random()
    if m >= 4 and m % 2 == 0 and r < 0.25:
        return pts.reshape(2, m // 2, k).copy(), "batch-2d"
    if r < 0.4:
        return pts[0].copy(), "single"
    if r < 0.44:
        return np.zeros((0, k)), "empty"
    return pts.copy(), "batch"


def shape_name(a):
    a = np.asarray(a)
    if a.size == 0:
        return "empty"
    return {0: "scalar", 1: "single", 2: "batch"}.get(a.ndim, "batch-2d")


def flat_pts(a, k):
    return np.asarray(a, dtype=float).reshape(-1, k)


def qpts(a):
    return [[q(x) for x in row] for row in a]


def unq_pts(rows):
    return [[unq(x) for x in row] for row in rows]


def radial_value(spec, cart):
    """the external hypot/norm as the coordinate classes call it"""
    c = spec["cls"]
    cart = np.asarray(cart, dtype=float)
    if c in ("polar", "cylindrical"):
        return np.hypot(cart[..., 0], cart[..., 1])
    return np.linalg.norm(cart[..., :3], axis=-1)


def to_cart_py(spec, gp):
    """grid -> Cartesian in plain Python floats (angles 0), used to make Cartesian test points"""
    gp = np.asarray(gp, dtype=float)
    c = spec["cls"]
    z = np.zeros_like(gp[..., 0])
    if c == "polar":
        return np.stack([gp[..., 0], z], -1)
    if c == "spherical":
        return np.stack([z, z, gp[..., 0]], -1)
    if c == "cylindrical":
        return np.stack([gp[..., 0], z, gp[..., 1]], -1)
    return gp


def rotate_cart(rng, spec, cart):
    """move Cartesian points off the reference ray (symmetric grids) keeping the radius up to rounding"""
    c = spec["cls"]
    cart = np.array(cart, dtype=float)
    if c in ("unit", "cartesian"):
        return cart
    out = cart.copy()
    for i in range(len(cart)):
        cs, sn = rng.choice([(0.6, 0.8), (-0.8, 0.6), (0.0, 1.0), (-1.0, 0.0), (5 / 13, -12 / 13), (1.0, 0.0)])
        if c == "polar" or c == "cylindrical":
            r = cart[i, 0]
            out[i, 0], out[i, 1] = r * cs, r * sn
        else:
            r = cart[i, 2]
            ct, st = rng.choice([(0.6, 0.8), (-0.6, 0.8), (1.0, 0.0), (0.0, 1.0), (-1.0, 0.0)])
            out[i] = [r * st * cs, r * st * sn, r * ct]
    return out


class Frame:
    """bounds, spacings and the per-axis tolerance units of one grid"""

    def __init__(self, spec):
        self.spec = spec
        b = spec_bounds(spec)
        self.lo = np.array([float(x[0]) for x in b])
        self.hi = np.array([float(x[1]) for x in b])
        self.L = self.hi - self.lo
        self.dxs = np.array([float(x[1] - x[0]) / n for x, n in zip(b, spec["shape"])])
        self.asc = axis_scales(spec)
        self.k = len(b)
        self.d = dim_of(spec)
        self.sym = spec["cls"] not in ("unit", "cartesian")

    def unit(self, system, flat):
        """natural scale of every column of points given in `system` (the tolerance is a multiple of
        it): the scale of the axis / Cartesian component the column belongs to, never that of
        another axis; cell coordinates inherit the scale of their grid coordinate divided by dx"""
        flat = np.asarray(flat, dtype=float)
        if system == "grid":
            return np.maximum(self.asc, absmax(flat.reshape(-1, self.k), axis=0))
        if system == "cell":
            x = self.lo + flat.reshape(-1, self.k) * self.dxs
            return np.maximum(self.asc, absmax(x, axis=0)) / self.dxs
        return cart_point_scales(self.spec, flat)


def leg_transform(ctx, P, spec, rng, force=None):
    """`force`: a recorded case - exactly its source, target and points (or the centre monitor of
    its axis)"""
    g = build(spec)
    F = Frame(spec)
    k = F.k
    exact = exact_grid(spec)
    sym = F.sym
    centre_axes = list(range(k))
    if force is not None and force.get("sub") == "centres":
        jobs, centre_axes = [], [int(force["axis"])]
    elif force is not None:
        jobs, centre_axes = [(force["source"], force["target"], _arr(force["pts"], force.get("shape")))], []
    else:
        m = rng.choice([1, 2, 4, 6])
        gp, cats = gen_points(rng, spec, m)
        if sym:
            gp[:, 0] = np.abs(gp[:, 0])          # radii of points are non-negative
        cellp = (gp - F.lo) / F.dxs
        if exact:
            cellp = np.round(cellp * 64) / 64
        if sym:
            # keep the radius of the cell-coordinate points non-negative as well (rounding may push it below 0)
            b0 = spec_bounds(spec)[0]
            cmin = float(-b0[0] / ((b0[1] - b0[0]) / spec["shape"][0]))
            cellp[:, 0] = np.maximum(cellp[:, 0], math.ceil(cmin * 64) / 64)
        cart = rotate_cart(rng, spec, to_cart_py(spec, gp))
        sources = {"grid": gp, "cell": cellp, "cartesian": cart}
        jobs = []
        for src, tgt in itertools.product(["cartesian", "grid", "cell"], repeat=2):
            jobs.append((src, tgt, shape_batch(rng, sources[src])[0]))
    for src, tgt, pts_in in jobs:
        shp = shape_name(pts_in)
        kin = pts_in.shape[-1]
        case = {"leg": "transform", "grid": spec, "source": src, "target": tgt, "pts": pts_in.tolist(),
                "shape": list(pts_in.shape)}
        _begin(case)
        ctx.count(case, nontrivial=(src != tgt and pts_in.size > 0), leg="transform")
        ctx.hist("transform", f"{spec['cls']}/{src}->{tgt}/{shp}")
        ctx.hist("batch-shape", f"transform/{shp}")
        try:
            res = np.array(g.transform(pts_in.copy(), src, tgt), dtype=float)
        except Exception as e:  # noqa: BLE001
            raised(ctx, "transform", case, spec, e, f"grid.transform(points, {src!r}, {tgt!r})")
            continue
        kout = dim_of(spec) if tgt == "cartesian" else k
        flat_in = flat_pts(pts_in, kin)
        # monitor: inverse pairs and centres
        ctx.monitor_evals += 1
        bad = None
        if res.shape != pts_in.shape[:-1] + (kout,):
            bad = f"result shape {res.shape} for input shape {pts_in.shape}"
        elif not np.all(np.isfinite(res)):
            bad = f"non-finite result {res.tolist()} for finite points"
        else:
            try:
                back = np.array(g.transform(res.copy(), tgt, src), dtype=float)
                if back.shape != pts_in.shape:
                    bad = f"{src}->{tgt}->{src} returns shape {back.shape} for input shape {pts_in.shape}"
                elif src == "cartesian" and sym and tgt != "cartesian":
                    # up to the symmetry projection: the radius (and z) is preserved
                    fb = flat_pts(back, kin)
                    r0, r1 = radial_value(spec, flat_in), radial_value(spec, fb)
                    u = F.unit("cartesian", flat_in)
                    if far(r0, r1, 1e-11 * u[0]):
                        bad = f"cartesian->{tgt}->cartesian changes the radius: {r0.tolist()} vs {r1.tolist()}"
                    if spec["cls"] == "cylindrical" and far(flat_in[:, 2], fb[:, 2], 1e-11 * u[2]):
                        bad = "cartesian->grid->cartesian changes z"
                elif far(flat_pts(back, kin), flat_in, 1e-11 * F.unit(src, flat_in)):
                    bad = f"{src}->{tgt}->{src} is not the identity: {pts_in.tolist()} -> {back.tolist()}"
            except Exception as e:  # noqa: BLE001
                bad = f"back transform raised {type(e).__name__}: {e}"
        if bad:
            ctx.monitor_fail("transform", case, {"result": res.tolist(), "problem": bad}, "mutually inverse conversions",
                             f"{spec['cls']}: transform {src}->{tgt} round trip",
                             key={"grid_class": spec["cls"], "leg": "transform"})

        if src == tgt:
            # not a model trace: the real code must return its argument
            if res.shape != pts_in.shape or not np.array_equal(res, pts_in):
                ctx.disagree("transform", case, "identity", res.tolist(), "same source and target")
            continue

        def cont(resp, case=case, res=res, src=src, tgt=tgt, kout=kout):
            mres = expect_ok(ctx, resp, "transform", case)
            if mres is None:
                return
            ctx.impl_traces += 1
            if src == "cartesian" and tgt != "cartesian" and sym:
                mv = mres["grid"] if tgt == "grid" else mres["cell"]
                r2 = [unq(x) for x in mres["r2"]]
                rr = case["_radii"]
                for a, b_ in zip(r2, rr):
                    if not (abs(float(a) - b_ * b_) <= 4 * TOL * max(float(a), 1e-300)):
                        ctx.disagree("transform", case, {"r2": float(a)}, {"hypot": b_}, "external hypot/norm")
                        return
            else:
                mv = mres
            ex = exact and not (sym and src == "cartesian" and tgt != "cartesian")
            fres = flat_pts(res, kout) if res.ndim >= 1 and res.shape[-1:] == (kout,) else np.zeros((0, kout))
            dd = diff_pts(unq_pts(mv), fres, F.unit(tgt, fres), ex)
            if dd is not None or res.shape != tuple(case["shape"][:-1]) + (kout,):
                ctx.disagree("transform", case, dd, {"result": res.tolist()}, f"transform {src}->{tgt}")

        args = {"grid": mgrid(spec), "pts": qpts(flat_in)}
        if src == "cartesian":
            if sym:
                rr = [float(x) for x in np.ravel(radial_value(spec, flat_in))]
                case["_radii"] = rr
                args.update(op="cart2grid", radii=[q(x) for x in rr])
            else:
                args.update(op="grid2cell" if tgt == "cell" else "grid2cart")
        elif src == "grid":
            args.update(op="grid2cell" if tgt == "cell" else "grid2cart")
        else:
            args.update(op="cell2grid" if tgt == "grid" else "cell2cart")
        P.add("c12.points", args, cont)
    # monitor: every cell centre has cell coordinate index + 1/2
    for ax in centre_axes:
        n = spec["shape"][ax]
        case = {"leg": "transform", "sub": "centres", "grid": spec, "axis": ax}
        _begin(case)
        ctx.monitor_evals += 1
        ctr = np.zeros((n, k)) + np.array([c[0] for c in g.axes_coords])
        ctr[:, ax] = g.axes_coords[ax]
        cc = np.array(g.transform(ctr, "grid", "cell"), dtype=float)
        # rounding of (x - lo)/dx: a few ulp of max(|lo|,|hi|)/dx, i.e. relative to the index range and |lo|/dx
        tolc = 1e-11 * float(F.asc[ax] / F.dxs[ax])
        if cc.shape != (n, k) or far(cc[:, ax], np.arange(n) + 0.5, tolc):
            ctx.monitor_fail("transform", case, {"cell_coords": cc.tolist()},
                             "index + 1/2", f"{spec['cls']}: cell centres do not map to index+1/2",
                             key={"grid_class": spec["cls"], "leg": "transform"})


def leg_contains(ctx, P, spec, rng, force=None):
    """`force`: a recorded case - exactly its coordinate system, points and use of the default"""
    g = build(spec)
    F = Frame(spec)
    k, lo, hi, dxs = F.k, F.lo, F.hi, F.dxs
    exact = exact_grid(spec)
    sym = F.sym
    if force is not None:
        jobs = [(force["coords"], _arr(force["pts"], force.get("shape")), bool(force.get("default_coords")))]
    else:
        m = rng.choice([2, 4, 8])
        gp, cats = gen_points(rng, spec, m)
        jobs = []
        for coords in ["grid", "cell", "cartesian"]:
            if coords == "grid":
                pts = gp
            elif coords == "cell":
                pts = (gp - lo) / dxs
                if exact:
                    pts = np.round(pts * 64) / 64
            else:
                gp2 = gp.copy()
                if sym:
                    gp2[:, 0] = np.abs(gp2[:, 0])
                pts = rotate_cart(rng, spec, to_cart_py(spec, gp2))
            # `coords="cartesian"` is the default of the API: exercised by leaving the argument out
            jobs.append((coords, shape_batch(rng, pts)[0], coords == "cartesian" and rng.random() < 0.5))
    for coords, pts_in, use_default in jobs:
        shp = shape_name(pts_in)
        kin = pts_in.shape[-1]
        flat_in = flat_pts(pts_in, kin)
        case = {"leg": "contains", "grid": spec, "coords": coords, "pts": pts_in.tolist(), "shape": list(pts_in.shape),
                "default_coords": use_default}
        _begin(case)
        kw = {} if use_default else {"coords": coords}
        try:
            res = np.asarray(g.contains_point(pts_in.copy(), **kw))
        except Exception as e:  # noqa: BLE001
            ctx.count(case, nontrivial=False, leg="contains")
            raised(ctx, "contains", case, spec, e, f"grid.contains_point(points, {kw})")
            continue
        flat_res = [bool(x) for x in np.ravel(res)]
        ctx.count(case, nontrivial=(len(set(flat_res)) > 1 or len(flat_res) == 1), leg="contains")
        ctx.hist("contains", f"{spec['cls']}/{coords}/{shp}{'/default' if use_default else ''}")
        ctx.hist("batch-shape", f"contains/{shp}")
        ctx.hist("default-args", f"contains/{'coords left out' if use_default else 'given'}")
        for x in flat_res:
            ctx.hist("contains-result", x)
        # monitor: a point whose grid coordinates lie within the bounds is contained, one that lies
        # clearly outside is not (direct statement, float margin 1e-9)
        ctx.monitor_evals += 1
        if coords == "grid":
            gc = flat_in
        elif coords == "cell":
            gc = lo + flat_in * dxs
        elif not sym:
            gc = flat_in
        else:
            rr = radial_value(spec, flat_in)
            gc = np.stack([rr] + ([flat_in[:, 2]] if spec["cls"] == "cylindrical" else []), -1)
        marg = 1e-9 * np.maximum(hi - lo, np.maximum(np.abs(lo), np.abs(hi)))
        if coords == "cell":
            # no arithmetic between the point and the test: faces count as inside, exactly
            shp_arr = np.array(spec["shape"], dtype=float)
            inside = np.all((flat_in >= 0) & (flat_in <= shp_arr), axis=-1)
            outside = ~inside
        else:
            mm = 0.0 * marg if (exact and coords == "grid") else marg
            inside = np.all((gc >= lo + mm) & (gc <= hi - mm), axis=-1)
            outside = np.any((gc < lo - marg) | (gc > hi + marg), axis=-1)
        if res.dtype != np.bool_ or res.shape != pts_in.shape[:-1]:
            ctx.monitor_fail("contains", case, {"shape": list(res.shape), "dtype": str(res.dtype)},
                             {"shape": list(pts_in.shape[:-1]), "dtype": "bool"},
                             f"{spec['cls']}: contains_point({coords}) does not return one bool per point",
                             key={"grid_class": spec["cls"], "leg": "contains"})
            continue
        for i, r in enumerate(flat_res):
            if (inside[i] and not r) or (outside[i] and r):
                ctx.monitor_fail("contains", case, {"index": i, "contains": r, "grid_coords": gc[i].tolist()},
                                 "inside" if inside[i] else "outside", f"{spec['cls']}: contains_point({coords}) wrong",
                                 key={"grid_class": spec["cls"], "leg": "contains"})
                break

        def cont(resp, case=case, flat_res=flat_res, coords=coords, gc=gc, marg=marg):
            mres = expect_ok(ctx, resp, "contains", case)
            if mres is None:
                return
            ctx.impl_traces += 1
            mv = mres["contains"] if isinstance(mres, dict) else mres
            for i, (a, b_) in enumerate(zip(mv, flat_res)):
                if a != b_:
                    near = np.any((np.abs(gc[i] - lo) <= marg) | (np.abs(gc[i] - hi) <= marg))
                    if near and not (exact and coords != "cartesian"):
                        ctx.hist("rounding-at-face", f"contains/{coords}")
                        continue
                    ctx.disagree("contains", case, {"index": i, "model": a}, {"index": i, "impl": b_},
                                 f"contains_point({coords})")
                    return
            if len(mv) != len(flat_res):
                ctx.disagree("contains", case, {"len": len(mv)}, {"len": len(flat_res)}, "length")

        args = {"grid": mgrid(spec), "pts": qpts(flat_in)}
        if coords == "grid":
            args["op"] = "contains_grid"
        elif coords == "cell":
            args["op"] = "contains_cell"
        elif sym:
            args.update(op="cart2grid", radii=[q(float(x)) for x in np.ravel(radial_value(spec, flat_in))])
        else:
            args["op"] = "contains_grid"
        P.add("c12.points", args, cont)


def leg_normalize(ctx, P, spec, rng, force=None):
    """`force`: a recorded case - exactly its points, reflect flag, scalar form and use of the default"""
    g = build(spec)
    F = Frame(spec)
    k, lo, hi, L = F.k, F.lo, F.hi, F.L
    exact = spec["mode"] == "dyadic"       # no division by N involved
    per = np.array([bool(p) for p in spec["periodic"]])
    if force is not None:
        jobs = [(bool(force["reflect"]), _arr(force["pts"], force.get("shape")), bool(force.get("scalar")),
                 bool(force.get("default_reflect")), None)]
    else:
        jobs = []
        for reflect in (False, True):
            m = rng.choice([1, 2, 4, 8])
            gp, cats = gen_points(rng, spec, m)
            pts_in, shp = shape_batch(rng, gp)
            scalar = bool(k == 1 and shp == "single" and rng.random() < 0.5)
            # `reflect=False` is the default of the API: exercised by leaving the argument out
            jobs.append((reflect, pts_in, scalar, (not reflect) and rng.random() < 0.5, cats))
    for reflect, pts_in, scalar, use_default, cats in jobs:
        shp = shape_name(pts_in)
        pts_arg = float(pts_in[0]) if scalar else pts_in.copy()
        flat_in = flat_pts(pts_in, k)
        case = {"leg": "normalize", "grid": spec, "reflect": reflect, "pts": pts_in.tolist(), "shape": list(pts_in.shape),
                "scalar": scalar, "default_reflect": use_default}
        _begin(case)
        kw = {} if use_default else {"reflect": reflect}
        try:
            res = np.array(g.normalize_point(pts_arg, **kw), dtype=float)
        except Exception as e:  # noqa: BLE001
            ctx.count(case, nontrivial=False, leg="normalize")
            raised(ctx, "normalize", case, spec, e, f"grid.normalize_point(points, {kw})")
            continue
        ok_shape = res.size == flat_in.size and (res.shape == np.shape(pts_arg) or (scalar and res.shape in ((), (1,))))
        flat_res = flat_pts(res, k) if res.size == flat_in.size else res
        moved = bool(ok_shape and np.any(flat_res != flat_in))
        ctx.count(case, nontrivial=moved, leg="normalize")
        ctx.hist("normalize", f"{spec['cls']}/reflect={reflect}/{shp}{'/scalar' if scalar else ''}{'/default' if use_default else ''}")
        ctx.hist("batch-shape", f"normalize/{'scalar' if scalar else shp}")
        ctx.hist("default-args", f"normalize/{'reflect left out' if use_default else 'given'}")
        for ax in range(k):
            for c in (cats[ax][: len(flat_in)] if cats else []):
                ctx.hist("point-category", c)
        # monitor --------------------------------------------------------------------------------
        ctx.monitor_evals += 1
        bad = None
        if not ok_shape:
            bad = f"result shape {res.shape} for input {np.shape(pts_arg)}"
        elif not np.all(np.isfinite(flat_res)):
            bad = f"non-finite result {flat_res.tolist()} for finite points"
        else:
            again = np.array(g.normalize_point(res.copy().reshape(np.shape(pts_arg)) if not scalar else float(np.ravel(res)[0]),
                                               **kw), dtype=float)
            if again.size != flat_in.size:
                bad = f"second normalisation returns shape {again.shape}"
                again = flat_res
            again = flat_pts(again, k)
            for i in range(len(flat_in)):
                for ax in range(k):
                    x, y, y2 = float(flat_in[i, ax]), float(flat_res[i, ax]), float(again[i, ax])
                    big = max(abs(x), abs(lo[ax]), abs(hi[ax]), L[ax])
                    t = 4e-16 * big * 8 + 1e-300
                    if per[ax] or reflect:
                        if not (lo[ax] - t <= y <= hi[ax] + t):
                            bad = f"point {i} axis {ax}: {x!r} -> {y!r} outside [{lo[ax]!r}, {hi[ax]!r}]"
                        if exact and per[ax] and not (lo[ax] <= y < hi[ax]):
                            bad = f"point {i} axis {ax}: {x!r} -> {y!r} not in [lo, hi)"
                        if not (abs(y2 - y) <= t) and not (abs(abs(y2 - y) - L[ax]) <= t):
                            bad = f"point {i} axis {ax}: not idempotent {y!r} -> {y2!r}"
                        if exact and y2 != y:
                            bad = f"point {i} axis {ax}: not idempotent {y!r} -> {y2!r}"
                    if per[ax]:
                        kk = (y - x) / L[ax]
                        if not (abs(kk - round(kk)) <= 1e-9 * max(1.0, abs(kk)) + t / L[ax]):
                            bad = f"point {i} axis {ax}: moved by {kk!r} periods"
                        if lo[ax] + t < x < hi[ax] - t and not (abs(y - x) <= t):
                            bad = f"point {i} axis {ax}: inside point {x!r} moved to {y!r}"
                    elif reflect:
                        k1 = (y - x) / (2 * L[ax])
                        k2 = (y + x - 2 * lo[ax]) / (2 * L[ax])
                        tt = 1e-9 * max(1.0, abs(k1)) + t / L[ax]
                        if not (abs(k1 - round(k1)) <= tt) and not (abs(k2 - round(k2)) <= tt):
                            bad = f"point {i} axis {ax}: {x!r} -> {y!r} is neither a shift by 2kL nor a reflection"
                        if lo[ax] <= x <= hi[ax] and not (abs(y - x) <= t):
                            bad = f"point {i} axis {ax}: inside point {x!r} moved to {y!r}"
                    elif y != x:
                        bad = f"point {i} axis {ax}: non-periodic coordinate changed without reflect"
        if bad:
            ctx.monitor_fail("normalize", case, {"result": res.tolist(), "problem": bad},
                             "in domain, idempotent, moved by whole periods / reflections",
                             f"{spec['cls']}: normalize_point(reflect={reflect})",
                             key={"grid_class": spec["cls"], "leg": "normalize"})
        if not ok_shape:
            continue

        def cont(resp, case=case, flat_res=flat_res, flat_in=flat_in):
            mres = expect_ok(ctx, resp, "normalize", case)
            if mres is None:
                return
            ctx.impl_traces += 1
            mv = unq_pts(mres)
            for i, (mrow, irow) in enumerate(zip(mv, flat_res)):
                for ax, (a, y) in enumerate(zip(mrow, irow)):
                    big = max(abs(float(flat_in[i, ax])), abs(lo[ax]), abs(hi[ax]), L[ax])
                    if same(a, y, big, exact):
                        continue
                    if not exact:
                        # rounding at a seam: the exact value is within 1e-9 L of lo / hi and the real
                        # value is its image on the other side (periodic) or the same up to rounding
                        d = abs(float(a) - float(y))
                        near = min(abs(float(a) - lo[ax]), abs(float(a) - hi[ax])) <= 1e-9 * big
                        if near and abs(d - L[ax]) <= 1e-9 * big:
                            ctx.hist("rounding-at-seam", "normalize")
                            continue
                    ctx.disagree("normalize", case, {"point": i, "axis": ax, "model": float(a)},
                                 {"point": i, "axis": ax, "impl": float(y)}, "normalize_point")
                    return
            if len(mv) != len(flat_res):
                ctx.disagree("normalize", case, {"len": len(mv)}, {"len": len(flat_res)}, "length")

        P.add("c12.points", {"grid": mgrid(spec), "op": "normalize", "reflect": reflect, "pts": qpts(flat_in)}, cont)


def cart_periods(spec):
    """(period or None) per Cartesian component: the period of the periodic grid axis whose
    Cartesian component it is - stated independently of the code and of the model"""
    b = spec_bounds(spec)
    c = spec["cls"]
    if c in ("unit", "cartesian"):
        return [float(hi - lo) if p else None for (lo, hi), p in zip(b, spec["periodic"])]
    if c == "cylindrical":
        return [None, None, float(b[1][1] - b[1][0]) if spec["periodic"][1] else None]
    return [None] * dim_of(spec)


def _as_points(p, int_pts, container="array"):
    """recorded points of a distance case -> the argument handed to the real code"""
    if not int_pts:
        return np.array(p, dtype=float)
    a = np.array(p, dtype=int)
    return a.tolist() if container == "list" else a


def leg_distance(ctx, P, spec, rng, force=None):
    """`force`: a recorded case (dict with coords, p1, p2, int_points, shift, ...) - exactly its
    points, coordinate system, container types and period shift"""
    g = build(spec)
    F = Frame(spec)
    k, d, sym, lo, dxs = F.k, F.d, F.sym, F.lo, F.dxs
    exact = spec["mode"] == "dyadic" and not sym
    periods = cart_periods(spec)
    b = spec_bounds(spec)
    jobs = []
    if force is not None:
        int_pts = bool(force.get("int_points"))
        cont_ = force.get("int_container", "array")
        shp_rec = force.get("shape")
        a1, a2 = _as_points(force["p1"], int_pts, cont_), _as_points(force["p2"], int_pts, cont_)
        if not int_pts and shp_rec is not None:
            a1, a2 = a1.reshape(tuple(shp_rec)), a2.reshape(tuple(shp_rec))
        shift = force.get("shift")
        if shift is None:
            # regression stream: a fixed shift (recorded in the case below)
            shift = [(-1 if j % 2 else 2) if P_ is not None else None for j, P_ in enumerate(periods)]
        jobs.append((force["coords"], a1, a2, int_pts, cont_, "forced", exact and (force["coords"] != "cell" or exact_grid(spec)),
                     bool(force.get("default_coords")), shift))
    else:
        m = rng.choice([1, 2, 4, 6])
        g1, _ = gen_points(rng, spec, m)
        g2, _ = gen_points(rng, spec, m)
        # ties: second point exactly half a period away along a periodic axis
        for i in range(m):
            if rng.random() < 0.25:
                for ax in range(k):
                    if spec["periodic"][ax]:
                        g2[i, ax] = g1[i, ax] + rng.choice([0.5, -0.5, 1.5, 1.0, -2.5]) * float(b[ax][1] - b[ax][0])
        if sym:
            g1[:, 0], g2[:, 0] = np.abs(g1[:, 0]), np.abs(g2[:, 0])
        for coords in ["grid", "cell", "cartesian"]:
            if coords == "grid":
                p1, p2 = g1, g2
            elif coords == "cell":
                p1, p2 = (g1 - lo) / dxs, (g2 - lo) / dxs
                if exact and exact_grid(spec):
                    p1, p2 = np.round(p1 * 64) / 64, np.round(p2 * 64) / 64
            else:
                p1, p2 = rotate_cart(rng, spec, to_cart_py(spec, g1)), rotate_cart(rng, spec, to_cart_py(spec, g2))
            ex = exact and (coords != "cell" or exact_grid(spec))
            int_pts = False
            if not sym and coords != "cell" and rng.random() < 0.12 and max(absmax(p1), absmax(p2)) < 1e15:
                # integer-typed points (python ints / int arrays are legitimate point coordinates)
                p1, p2 = np.round(p1).astype(int), np.round(p2).astype(int)
                int_pts = True
            shp = "batch"
            a1, a2 = p1.copy(), p2.copy()
            r = rng.random()
            if r < 0.3:
                a1, a2, shp = p1[0].copy(), p2[0].copy(), "single"
            elif m >= 4 and r < 0.55:
                a1, a2, shp = p1.reshape(2, m // 2, -1).copy(), p2.reshape(2, m // 2, -1).copy(), "batch-2d"
            elif 0.55 <= r < 0.6 and not int_pts:
                a1, a2, shp = np.zeros((0, p1.shape[-1])), np.zeros((0, p1.shape[-1])), "empty"
            cont_ = "array"
            if int_pts and rng.random() < 0.5:
                a1, a2, cont_ = a1.tolist(), a2.tolist(), "list"
            shift = [rng.choice([-2, -1, 1, 3]) if P_ is not None else None for P_ in periods]
            # `coords="grid"` is the default of difference_vector / distance: exercised by leaving it out
            jobs.append((coords, a1, a2, int_pts, cont_, shp, ex, coords == "grid" and rng.random() < 0.5, shift))
    for coords, a1, a2, int_pts, cont_, shp, ex, use_default, shift in jobs:
        kin = np.shape(a1)[-1]
        f1, f2 = flat_pts(a1, kin), flat_pts(a2, kin)
        case = {"leg": "distance", "grid": spec, "coords": coords, "p1": np.asarray(a1).tolist(),
                "p2": np.asarray(a2).tolist(), "shape": list(np.shape(a1)), "int_points": int_pts,
                "int_container": cont_, "default_coords": use_default, "shift": shift}
        _begin(case)
        kw = {} if use_default else {"coords": coords}
        try:
            dv = np.array(g.difference_vector(_cp(a1), _cp(a2), **kw), dtype=float)
            dv_rev = np.array(g.difference_vector(_cp(a2), _cp(a1), **kw), dtype=float)
            dist = np.array(g.distance(_cp(a1), _cp(a2), **kw), dtype=float)
            dist_rev = np.array(g.distance(_cp(a2), _cp(a1), **kw), dtype=float)
            # the same points as floats: tells a failure that is specific to integer-typed points
            dv_float = np.array(g.difference_vector(np.array(a1, dtype=float), np.array(a2, dtype=float), **kw),
                                dtype=float) if int_pts else None
        except Exception as e:  # noqa: BLE001
            ctx.count(case, nontrivial=False, leg="distance")
            raised(ctx, "distance", case, spec, e, f"grid.difference_vector / distance(p1, p2, {kw})")
            continue
        # Cartesian positions (independent of the code): for the monitors
        if coords == "cartesian":
            x1, x2 = f1, f2
        elif coords == "grid":
            x1, x2 = to_cart_py(spec, f1), to_cart_py(spec, f2)
        else:
            x1, x2 = to_cart_py(spec, lo + f1 * dxs), to_cart_py(spec, lo + f2 * dxs)
        raw = x2 - x1
        wrapped = any(P_ is not None and np.any(np.abs(raw[:, j]) > P_ / 2) for j, P_ in enumerate(periods))
        ctx.count(case, nontrivial=bool(np.any(raw != 0)), leg="distance")
        ctx.hist("distance", f"{spec['cls']}/{coords}/{shp}{'/int' if int_pts else ''}{'/default' if use_default else ''}")
        ctx.hist("batch-shape", f"distance/{shp}{'/int-' + cont_ if int_pts else ''}")
        ctx.hist("default-args", f"distance/{'coords left out' if use_default else 'given'}")
        ctx.hist("distance-branch", "wrapped" if wrapped else ("periodic-no-wrap" if any(periods) else "no-periodic-axis"))
        # monitor --------------------------------------------------------------------------------
        ctx.monitor_evals += 1
        key = {"grid_class": spec["cls"], "leg": "distance"}
        # one tolerance PER Cartesian component: the scale of that component's axis and of the points'
        # coordinates along it (a grid mixes scales; a small axis must not inherit a large tolerance)
        bigj = np.maximum(cart_point_scales(spec, x1), cart_point_scales(spec, x2))
        tj = 1e-11 * bigj
        td = float(np.sqrt(np.sum(tj ** 2)))          # a distance mixes the components

        def comp_checks(fdv_):
            """the per-component clauses on a difference vector; first problem or None"""
            for j, P_ in enumerate(periods):
                if P_ is None:
                    if far(fdv_[:, j], raw[:, j], tj[j]):
                        return f"component {j} is not periodic but {raw[:, j].tolist()} became {fdv_[:, j].tolist()}"
                else:
                    if not bool(np.all(np.abs(fdv_[:, j]) <= P_ / 2 + tj[j])):
                        return f"component {j}: |difference| {absmax(fdv_[:, j])!r} exceeds half the period {P_ / 2!r}"
                    kk = (fdv_[:, j] - raw[:, j]) / P_
                    if not bool(np.all(np.abs(kk - np.round(kk)) <= 1e-9 * np.maximum(1.0, np.abs(kk)) + tj[j] / P_)):
                        return f"component {j}: difference {fdv_[:, j].tolist()} is not raw {raw[:, j].tolist()} modulo the period {P_!r}"
            return None

        def same_mod_tie(u, v, j, tol):
            """u == v componentwise, or both at the half-period tie (|u| = |v| = P/2)"""
            P_ = periods[j]
            ok = np.abs(u - v) <= tol
            if P_ is not None:
                ok = ok | ((np.abs(np.abs(u) - P_ / 2) <= tol) & (np.abs(np.abs(v) - P_ / 2) <= tol))
            return bool(np.all(ok))

        bad = None
        int_specific = False
        pshape = np.shape(a1)[:-1]
        if dv.shape != pshape + (d,) or dv_rev.shape != dv.shape or dist.shape != pshape or dist_rev.shape != pshape:
            bad = f"shapes: difference {dv.shape}, distance {dist.shape} for points {np.shape(a1)}"
            fdv, fdist = np.zeros((0, d)), np.zeros(0)
        else:
            fdv, fdv_rev = flat_pts(dv, d), flat_pts(dv_rev, d)
            fdist, fdist_rev = np.ravel(dist), np.ravel(dist_rev)
            if not (np.all(np.isfinite(fdv)) and np.all(np.isfinite(fdv_rev)) and np.all(np.isfinite(fdist))
                    and np.all(np.isfinite(fdist_rev))):
                bad = f"non-finite difference vector / distance {fdv.tolist()} {fdist.tolist()} for finite points"
            else:
                if far(fdist, fdist_rev, td):
                    bad = f"not symmetric: d(p1,p2)={fdist.tolist()} d(p2,p1)={fdist_rev.tolist()}"
                for j in range(d):
                    if not same_mod_tie(fdv_rev[:, j], -fdv[:, j], j, 2 * tj[j]):
                        bad = (f"component {j}: difference_vector(p2,p1)={fdv_rev[:, j].tolist()} is not "
                               f"-difference_vector(p1,p2)={(-fdv[:, j]).tolist()}")
                if far(fdist, np.sqrt(np.sum(fdv ** 2, axis=-1)), td):
                    bad = "distance is not the norm of the difference vector"
                cbad = comp_checks(fdv)
                if cbad is not None:
                    bad = cbad
                    if int_pts and dv_float is not None and dv_float.shape == dv.shape \
                            and comp_checks(flat_pts(dv_float, d)) is None:
                        int_specific = True      # the same points as floats are handled correctly
            if bad is None and any(P_ is not None for P_ in periods) and not int_pts:
                # invariance under period shifts of either point (the recorded multiples of the periods)
                shiftv = np.array([P_ * s_ if P_ is not None else 0.0 for P_, s_ in zip(periods, shift)])
                try:
                    if coords == "cartesian":
                        sg = shiftv
                    else:
                        sg = np.zeros(k)
                        for ax in range(k):
                            if spec["periodic"][ax]:
                                j = ax if not sym else 2
                                sg[ax] = shiftv[j] if coords == "grid" else shiftv[j] / dxs[ax]
                    for which, q1, q2 in (("p2", f1.copy(), f2 + sg), ("p1", f1 + sg, f2.copy())):
                        dvs = flat_pts(np.array(g.difference_vector(q1, q2, **kw), dtype=float), d)
                        dss = np.ravel(np.array(g.distance(q1, q2, **kw), dtype=float))
                        tsj = 1e-11 * np.maximum(bigj, bigj + np.abs(shiftv))
                        for j in range(d):
                            if dvs.shape != fdv.shape or not same_mod_tie(dvs[:, j], fdv[:, j], j, 2 * tsj[j]):
                                bad = (f"not invariant under a period shift of {which} by {shiftv.tolist()}: component {j} "
                                       f"{fdv[:, j].tolist()} vs {dvs[:, j].tolist() if dvs.shape == fdv.shape else dvs.shape}")
                        if bad is None and far(dss, fdist, float(np.sqrt(np.sum(tsj ** 2))) * 2):
                            bad = f"distance not invariant under a period shift of {which} by {shiftv.tolist()}: {fdist.tolist()} vs {dss.tolist()}"
                except Exception as e:  # noqa: BLE001
                    bad = f"distance of shifted point raised {type(e).__name__}: {e}"
        # the package's own period images: every mirror point along a periodic axis is at distance 0
        if bad is None and not int_pts:
            n_expected = int(np.prod([3 if P_ is not None else 1 for P_ in periods])) - 1
            for row in x1[:2]:
                try:
                    mps = [np.array(mp, dtype=float) for mp in g.iter_mirror_points(row.copy(), with_self=False, only_periodic=True)]
                    dvm = [np.ravel(np.array(g.difference_vector(row.copy(), mp, coords="cartesian"), dtype=float)) for mp in mps]
                    dms = [float(g.distance(row.copy(), mp, coords="cartesian")) for mp in mps]
                except Exception as e:  # noqa: BLE001
                    mps, dvm, dms = [], [], []
                    bad = f"iter_mirror_points raised {type(e).__name__}: {e}"
                    key = {"call_site": f"{type(g).__name__}.iter_mirror_points", "symptom": f"raised-{type(e).__name__}"}
                    break
                ctx.hist("mirror-points", len(mps))
                tm = 1e-11 * np.array([max(bj, 2 * P_) if P_ is not None else bj for bj, P_ in zip(bigj, periods)])
                wrong = len(mps) != n_expected or any(v.shape != (d,) or not bool(np.all(np.abs(v) <= tm)) for v in dvm) \
                    or any(not (dm <= float(np.sqrt(np.sum(tm ** 2)))) for dm in dms)
                if wrong:
                    bad = (f"mirror points of {row.tolist()} along the periodic axes: {[m_.tolist() for m_ in mps]} at distances {dms} "
                           f"(expected {n_expected} points at distance 0)")
                    # the key names the SYMPTOM that is observed, not the input type
                    moved = [np.nonzero(np.abs(mp - row) > tm)[0].tolist() if mp.shape == row.shape else None for mp in mps]
                    if spec["cls"] == "cylindrical" and len(mps) == n_expected and all(mv == [0] for mv in moved):
                        sympt = "mirror-point-shifts-x-instead-of-z"
                    else:
                        sympt = "mirror-point-not-a-period-image"
                    key = {"call_site": f"{type(g).__name__}.iter_mirror_points", "symptom": sympt}
                    break
        if bad:
            if int_specific:
                key = dict(FINDING_INT)
            ctx.monitor_fail("distance", case, {"difference_vector": dv.tolist(), "distance": dist.tolist(), "problem": bad},
                             "symmetric, <= half a period per periodic Cartesian component, raw difference modulo the period of "
                             "the matching grid axis, invariant under period shifts",
                             f"{spec['cls']}: distance/difference_vector" + (" (integer-typed points)" if int_specific else ""),
                             key=key)
        if fdv.shape != raw.shape:
            continue

        def cont(resp, case=case, fdv=fdv, fdist=fdist, ex=ex, bigj=bigj, td=td, int_pts=int_pts, dv_float=dv_float):
            mres = expect_ok(ctx, resp, "distance", case)
            if mres is None:
                return
            ctx.impl_traces += 1
            md = unq_pts(mres["diff"])
            for i, (mrow, irow) in enumerate(zip(md, fdv)):
                for j, (a, y) in enumerate(zip(mrow, irow)):
                    if same(a, y, bigj[j], ex):
                        continue
                    P_ = periods[j]
                    if not ex and P_ is not None and abs(abs(float(a)) - P_ / 2) <= 1e-9 * bigj[j] \
                            and abs(abs(float(a) - float(y)) - P_) <= 1e-9 * bigj[j]:
                        ctx.hist("rounding-at-seam", "distance-half-period")
                        continue
                    # the int-dtype finding is attached only if the same points as floats agree with the model
                    kw_ = {}
                    if int_pts and dv_float is not None and same(a, flat_pts(dv_float, d)[i, j], bigj[j], ex):
                        kw_ = {"key": dict(FINDING_INT)}
                    dd = {"leg": "distance", "case": case, "model": {"point": i, "component": j, "value": float(a)},
                          "impl": {"point": i, "component": j, "value": float(y)}, "note": "difference_vector", **kw_}
                    ctx.disagreements.append(dd)
                    return
            d2 = [unq(x) for x in mres["dist2"]]
            if len(d2) != len(fdist) or len(md) != len(fdv):
                ctx.disagree("distance", case, {"len": len(d2)}, {"len": len(fdist)}, "length")
                return
            for a, y in zip(d2, fdist):
                if not (abs(math.sqrt(float(a)) - float(y)) <= td):
                    # a half-period tie resolved the other way does not change the distance
                    ctx.disagree("distance", case, {"sqrt(dist2)": math.sqrt(float(a))}, {"distance": float(y)}, "distance")
                    return

        op = {"grid": "diff_grid", "cell": "diff_cell", "cartesian": "diff_cart"}[coords]
        P.add("c12.points", {"grid": mgrid(spec), "op": op, "p1": qpts(f1), "p2": qpts(f2)}, cont)


def _cp(a):
    return a.copy() if isinstance(a, np.ndarray) else [list(r) if isinstance(r, list) else r for r in a]


def leg_random(ctx, P, spec, rng, force=None):
    """`force`: a recorded case - exactly its seed, boundary distance, avoid_center, coordinate system"""
    g = build(spec)
    F = Frame(spec)
    k, d, sym = F.k, F.d, F.sym
    b = spec_bounds(spec)
    asc = F.asc
    minL = min(float(hi - lo) for lo, hi in b)
    if force is not None:
        jobs = [(force["coords"], force["boundary_distance"], bool(force["avoid_center"]), int(force["seed"]),
                 list(force.get("defaults", [])))]
    else:
        jobs = []
        for coords in ["grid", "cell", "cartesian"]:
            bd = rng.choice([0, 0, 0.1 * minL, 0.25 * minL, 0.45 * minL])
            avoid = rng.random() < 0.5
            seed = rng.randrange(2 ** 32)
            # arguments equal to the API defaults (coords="cartesian", boundary_distance=0,
            # avoid_center=False) are left out half of the time
            defaults = []
            if coords == "cartesian" and rng.random() < 0.5:
                defaults.append("coords")
            if bd == 0 and rng.random() < 0.5:
                defaults.append("boundary_distance")
            if sym and not avoid and rng.random() < 0.5:
                defaults.append("avoid_center")
            jobs.append((coords, bd, avoid, seed, defaults))
        if rng.random() < 0.3:
            # a boundary distance that leaves no room along the shortest axis: the request must be refused, or the
            # returned point must still be contained at the requested distance (which is impossible)
            jobs.append((rng.choice(["grid", "cell", "cartesian"]), rng.choice([0.6, 1.5, 3.0]) * minL, rng.random() < 0.5,
                         rng.randrange(2 ** 32), []))
    for coords, bd, avoid, seed, defaults in jobs:
        infeasible = bd > 0.5 * minL
        kw = {"boundary_distance": bd, "coords": coords, "rng": np.random.default_rng(seed)}
        if sym:
            kw["avoid_center"] = avoid
        for name in defaults:
            kw.pop(name, None)
        case = {"leg": "random", "grid": spec, "coords": coords, "boundary_distance": bd, "avoid_center": avoid, "seed": seed,
                "defaults": defaults}
        _begin(case)
        ctx.count(case, nontrivial=True, leg="random")
        ctx.hist("random", f"{spec['cls']}/{coords}/bd={'0' if bd == 0 else 'pos'}{'/defaults' if defaults else ''}")
        ctx.hist("default-args", f"random/left out: {','.join(defaults) if defaults else 'nothing'}")
        ckw = {} if "coords" in defaults else {"coords": coords}
        try:
            pt = np.array(g.get_random_point(**kw), dtype=float)
            inside = bool(g.contains_point(pt, **ckw))
            asgrid = np.atleast_1d(np.array(g.transform(pt, coords, "grid"), dtype=float))
        except Exception as e:  # noqa: BLE001
            if infeasible and isinstance(e, (RuntimeError, ValueError)):
                ctx.monitor_evals += 1
                ctx.hist("random", f"{spec['cls']}/infeasible distance refused ({type(e).__name__})")
                continue
            raised(ctx, "random", case, spec, e, f"grid.get_random_point({ {a: v for a, v in kw.items() if a != 'rng'} })")
            continue
        ctx.monitor_evals += 1
        bad = None
        if not inside:
            bad = f"generated point {pt.tolist()} ({coords}) is not contained"
        if not (np.all(np.isfinite(pt)) and np.all(np.isfinite(asgrid))):
            bad = f"non-finite random point {pt.tolist()}"
        if asgrid.shape != (k,) or pt.shape != ((d,) if coords == "cartesian" else (k,)):
            bad = f"random point of shape {pt.shape} ({coords})"
        else:
            for ax, (lo, hi) in enumerate(b):
                lo_, hi_ = float(lo), float(hi)
                lo_b = lo_ + bd if (not sym or ax == 1 or avoid) else lo_
                if not (lo_b - 1e-9 * asc[ax] <= asgrid[ax] <= hi_ - bd + 1e-9 * asc[ax]):
                    bad = f"grid coordinate {ax} = {float(asgrid[ax])!r} violates the boundary distance {bd!r} in [{lo_!r}, {hi_!r}]"
        if bad:
            ctx.monitor_fail("random", case, {"point": pt.tolist(), "problem": bad}, "contained, at the requested distance",
                             f"{spec['cls']}: get_random_point", key={"grid_class": spec["cls"], "leg": "random"})
            if asgrid.shape != (k,):
                continue
        if infeasible:
            continue  # judged by the monitor only (the model draws from a non-empty box)
        twin = np.random.default_rng(seed)
        if not sym:
            us = [float(x) for x in twin.random(d)]
            op = "random_cart"
        else:
            us = [float(twin.random())] + ([float(twin.random())] if spec["cls"] == "cylindrical" else [])
            op = "random_radial"

        def cont(resp, case=case, asgrid=asgrid, pt=pt, coords=coords):
            mres = expect_ok(ctx, resp, "random", case)
            if mres is None:
                return
            ctx.impl_traces += 1
            mv = [unq(x) for x in mres[0]]
            if not sym:
                if len(mv) != len(asgrid) or not all(same(a, y, asc[ax], False, 1e-11) for ax, (a, y) in enumerate(zip(mv, asgrid))):
                    ctx.disagree("random", case, [float(x) for x in mv], asgrid.tolist(), "get_random_point draw")
            else:
                pw = 2 if spec["cls"] != "spherical" else 3
                got = [asgrid[0] ** pw] + ([asgrid[1]] if spec["cls"] == "cylindrical" else [])
                sc = [float(b[0][1]) ** pw] + ([asc[1]] if spec["cls"] == "cylindrical" else [])
                for a, y, s in zip(mv, got, sc):
                    if not (abs(float(a) - y) <= 1e-11 * s):
                        ctx.disagree("random", case, [float(x) for x in mv], got, "get_random_point draw (r^d, z)")
                        return

        P.add("c12.points", {"grid": mgrid(spec), "op": op, "b": q(bd), "avoid": avoid, "us": [[q(u) for u in us]]}, cont)


# ------------------------------------------------------------------------------------------
# leg: malformed input -> error class
def malformed_table():
    import pde
    from pde.grids.base import DimensionError
    g2 = pde.CartesianGrid([(0, 1), (0, 2)], [2, 3], periodic=[True, False])
    cyl = pde.CylindricalSymGrid(2, (0, 1), [2, 2])
    pol = pde.PolarSymGrid(2, 3)
    f2 = pde.ScalarField(g2, 1.0)
    return [
        ("polar inner>=outer", lambda: pde.PolarSymGrid((2, 1), 3), ValueError),
        ("spherical inner==outer", lambda: pde.SphericalSymGrid((1, 1), 3), ValueError),
        ("negative inner radius", lambda: pde.SphericalSymGrid((-1, 1), 3), ValueError),
        ("cylinder negative inner radius", lambda: pde.CylindricalSymGrid((-1, 1), (0, 1), 2), ValueError),
        ("zero cells", lambda: pde.CartesianGrid([(0, 1)], 0), ValueError),
        ("fractional cells", lambda: pde.UnitGrid([2.5]), ValueError),
        ("ambiguous bounds", lambda: pde.CartesianGrid([0, 1], 2), ValueError),
        ("periodic length", lambda: pde.CartesianGrid([(0, 1), (0, 1)], 2, periodic=[True]), DimensionError),
        ("shape/bounds mismatch", lambda: pde.CartesianGrid([(0, 1), (0, 1)], [2, 2, 2]), DimensionError),
        ("cylinder 3 shapes", lambda: pde.CylindricalSymGrid(1, (0, 1), [2, 2, 2]), DimensionError),
        ("normalize wrong dim", lambda: g2.normalize_point([1.0, 2.0, 3.0]), DimensionError),
        ("normalize scalar on 2d", lambda: g2.normalize_point(1.0), DimensionError),
        ("transform cart wrong dim", lambda: cyl.transform([1.0, 2.0], "cartesian", "grid"), DimensionError),
        ("transform grid wrong dim", lambda: cyl.transform([1.0, 2.0, 3.0], "grid", "cell"), DimensionError),
        ("transform cell wrong dim", lambda: pol.transform([1.0, 2.0], "cell", "grid"), DimensionError),
        ("transform unknown source", lambda: pol.transform([1.0], "polar", "grid"), ValueError),
        ("transform unknown target", lambda: pol.transform([1.0], "grid", "polar"), ValueError),
        ("random too close", lambda: g2.get_random_point(boundary_distance=0.5), RuntimeError),
        ("random radial too close", lambda: pol.get_random_point(boundary_distance=1.0, avoid_center=True), RuntimeError),
        ("random unknown coords", lambda: pol.get_random_point(coords="polar"), ValueError),
        ("project unknown axis", lambda: f2.project("z"), ValueError),
        ("project unknown method", lambda: f2.project("x", method="median"), ValueError),
    ]


def _expect_error(ctx, case, fn, exc):
    ctx.monitor_evals += 1
    try:
        r = fn()
        got = f"returned {r!r}"[:200]
    except Exception as e:  # noqa: BLE001
        got = type(e)
    if not (isinstance(got, type) and issubclass(got, exc)):
        ctx.disagree("malformed", case, exc.__name__, str(got), "expected error class")


def leg_malformed(ctx, rng, only=None):
    for name, fn, exc in malformed_table():
        if only is not None and name != only:
            continue
        case = {"leg": "malformed", "what": name}
        _begin(case)
        ctx.count(case, nontrivial=False, leg="malformed")
        ctx.hist("malformed", exc.__name__)
        _expect_error(ctx, case, fn, exc)
    _ = rng


def build_raw(spec):
    """constructor call with the shape / periodic lists handed over as they are (no unpacking)"""
    import pde
    c = spec["cls"]
    if c == "unit":
        return pde.UnitGrid(list(spec["shape"]), periodic=list(spec["periodic"]))
    if c == "cartesian":
        return pde.CartesianGrid([tuple(b) for b in spec["bounds"]], list(spec["shape"]), periodic=list(spec["periodic"]))
    rad = spec["radius"]
    rad = tuple(rad) if isinstance(rad, (list, tuple)) else rad
    if c == "polar":
        return pde.PolarSymGrid(rad, list(spec["shape"]))
    if c == "spherical":
        return pde.SphericalSymGrid(rad, list(spec["shape"]))
    return pde.CylindricalSymGrid(rad, tuple(spec["bounds_z"]), list(spec["shape"]), periodic_z=spec["periodic"][-1])


CTOR_MUTATIONS = ["valid", "zero cells", "empty shape", "periodic length", "bounds length", "negative inner radius",
                  "inner == outer", "inner > outer", "extra shape entry", "single shape entry"]
# `CylindricalSymGrid(r, (z1, z0), ..)` with reversed `bounds_z` was accepted by /repo (negative spacing and volumes); repaired
# by `fix: CylindricalSymGrid accepted reversed bounds_z` - the model refuses it too (`construct_cylindrical_bounds_z`,
# `cylinder_reversed_bounds_z_rejected`) and the stream produces it on every run.
CTOR_MUTATIONS = CTOR_MUTATIONS + ["reversed bounds_z"]


def leg_construct(ctx, P, rng, force=None):
    """constructor arguments (valid, edge and invalid) against the model of the constructors `Grid.construct`:
    the created axes (bounds after flipping / radius pair, shape, periodic flags, dim, dx) or the error class"""
    if force is not None:
        spec, what = force["grid"], force["what"]
    else:
        cls = rng.choice(["unit", "cartesian", "cartesian", "polar", "spherical", "cylindrical"])
        spec = gen_grid(rng, cls, "dyadic" if rng.random() < 0.5 else "decimal", small=True)
        what = rng.choice(CTOR_MUTATIONS)
        spec = json.loads(json.dumps(spec))
        k = len(spec["shape"])
        radial = cls in ("polar", "spherical", "cylindrical")
        if what == "zero cells":
            spec["shape"][rng.randrange(k)] = 0
        elif what == "empty shape":
            spec["shape"] = []
            if not radial:
                spec["periodic"] = []
                if cls == "cartesian":
                    what = "valid"      # (bounds without a shape is another argument error class: not modelled)
                    spec = gen_grid(rng, cls, "dyadic", small=True)
        elif what == "periodic length" and not radial:
            spec["periodic"] = spec["periodic"] + [False]
        elif what == "bounds length" and cls == "cartesian" and k >= 2:
            spec["bounds"] = spec["bounds"][:-1]
        elif what == "negative inner radius" and radial:
            r = spec["radius"]
            ro = r[1] if isinstance(r, list) else r
            spec["radius"] = [-abs(ro) / 4, ro]
        elif what == "inner == outer" and radial:
            r = spec["radius"]
            ro = r[1] if isinstance(r, list) else r
            spec["radius"] = [ro, ro]
        elif what == "inner > outer" and radial:
            r = spec["radius"]
            ro = r[1] if isinstance(r, list) else r
            spec["radius"] = [2 * ro, ro]
        elif what == "extra shape entry" and radial:
            spec["shape"] = spec["shape"] + [2]
        elif what == "single shape entry" and cls == "cylindrical":
            spec["shape"] = spec["shape"][:1]
        elif what == "reversed bounds_z" and cls == "cylindrical":
            spec["bounds_z"] = spec["bounds_z"][::-1]
        else:
            what = "valid"
    case = {"leg": "ctor", "what": what, "grid": spec}
    _begin(case)
    ctx.count(case, nontrivial=(what == "valid" or what == "single shape entry"), leg="ctor")
    ctx.monitor_evals += 1
    try:
        g = build_raw(spec)
        impl = {"cls": spec["cls"], "bounds": [[float(x) for x in bb] for bb in g.axes_bounds], "shape": [int(n) for n in g.shape],
                "periodic": [bool(p) for p in g.periodic], "dim": int(g.dim), "dx": [float(x) for x in g.discretization]}
        # monitor: an accepted grid has dx = (hi - lo)/N > 0 and ordered bounds on every axis
        for (lo, hi), n, d in zip(impl["bounds"], impl["shape"], impl["dx"]):
            if not (lo < hi and n >= 1 and d > 0 and abs(d - (hi - lo) / n) <= TOL * abs(d)):
                ctx.monitor_fail("ctor", case, impl, "lo < hi, N >= 1, dx = (hi-lo)/N > 0 on every axis",
                                 "constructor accepted arguments that give a degenerate axis",
                                 key={"grid_class": spec["cls"], "leg": "ctor"})
                break
    except Exception as e:  # noqa: BLE001
        impl = "error:" + type(e).__name__
    ctx.hist("ctor", f"{spec['cls']}/{what} -> {impl if isinstance(impl, str) else 'grid'}")

    def cont(resp):
        st, m = resp
        ctx.impl_traces += 1
        if st != "ok":
            ctx.disagree("ctor", case, f"model driver: {m}", _js(impl), "driver error")
            return
        if isinstance(m, str) or isinstance(impl, str):
            want = {"error:value": "error:ValueError", "error:dimension": "error:DimensionError"}.get(m, "grid") if isinstance(m, str) else "grid"
            got = impl if isinstance(impl, str) else "grid"
            if want != got:
                ctx.disagree("ctor", case, m if isinstance(m, str) else "grid", got, "outcome of the constructor call")
            return
        mg = m["grid"]
        exact = spec.get("mode") == "dyadic" and all(is_pow2(n) for n in impl["shape"])
        ok = (mg["cls"] == impl["cls"] and [int(n) for n in mg["n"]] == impl["shape"] and m["dim"] == impl["dim"]
              and [bool(p) for p in mg["periodic"]] == impl["periodic"] and len(mg["lo"]) == len(impl["bounds"]))
        if ok:
            for lo, hi, d, (ilo, ihi), idx in zip(mg["lo"], mg["hi"], m["dx"], impl["bounds"], impl["dx"]):
                sc = max(abs(ilo), abs(ihi))
                # reversed Cartesian bounds are flipped through `pos + (hi - lo)`: exact for dyadic numbers, rounded (an ulp)
                # for decimal ones - the exact model is compared to round-off there
                exact_b = spec.get("mode") == "dyadic"
                if not (same(unq(lo), ilo, sc, exact_b) and same(unq(hi), ihi, sc, exact_b) and same(unq(d), idx, abs(idx), exact)):
                    ok = False
        if not ok:
            ctx.disagree("ctor", case, {"grid": mg, "dim": m["dim"], "dx": [float(unq(x)) for x in m["dx"]]}, impl,
                         "constructed axes differ")

    P.add("c12.construct", {"grid": mgrid(spec)}, cont)


def leg_malformed_grid(ctx, spec, rng, force=None):
    """malformed requests against a random valid grid: expected outcome is an error class"""
    from pde.grids.base import DimensionError
    g = build(spec)
    k, d = len(spec["shape"]), dim_of(spec)
    if force is not None:
        m, alt, name0 = int(force["batch"]), int(force.get("alt", 0)), force["what"]
    else:
        m, alt, name0 = rng.choice([1, 3]), rng.randrange(2), None
    wrong = lambda n: np.zeros((m, n)) if m > 1 else np.zeros(n)
    minL = min(float(hi - lo) for lo, hi in spec_bounds(spec))
    table = [
        ("transform cartesian wrong dim", lambda: g.transform(wrong(d + 1), "cartesian", ["grid", "cell"][alt]), DimensionError),
        ("transform grid wrong dim", lambda: g.transform(wrong(k + 1), "grid", ["cartesian", "cell"][alt]), DimensionError),
        ("transform cell wrong dim", lambda: g.transform(wrong(k + 1), "cell", ["cartesian", "grid"][alt]), DimensionError),
        ("normalize wrong dim", lambda: g.normalize_point(wrong(k + 1), reflect=bool(alt)), DimensionError),
        ("contains wrong dim", lambda: g.contains_point(wrong(d + 1)), DimensionError),
        ("distance wrong dim", lambda: g.distance(wrong(k + 1), wrong(k + 1)), DimensionError),
        ("random point too close", lambda: g.get_random_point(boundary_distance=0.51 * minL, avoid_center=True)
         if spec["cls"] not in ("unit", "cartesian") else g.get_random_point(boundary_distance=0.51 * minL), RuntimeError),
        # (integrate does not validate the data shape on grids whose cell volumes are all scalars: data of
        #  shape N+1 is summed silently - observation, outside the property, see notes/C12.md)
        ("integrate axis out of range", lambda: g.integrate(np.zeros(spec["shape"]), axes=[k]), ValueError),
    ]
    if name0 is None:
        name, fn, exc = rng.choice(table)
    else:
        hit = [t for t in table if t[0] == name0]
        if not hit:
            raise KeyError(f"unknown malformed case {name0!r}")
        name, fn, exc = hit[0]
    case = {"leg": "malformed", "what": name, "grid": spec, "batch": m, "alt": alt}
    _begin(case)
    ctx.count(case, nontrivial=False, leg="malformed")
    ctx.hist("malformed", f"{name} -> {exc.__name__}")
    _expect_error(ctx, case, fn, exc)


# ------------------------------------------------------------------------------------------
# leg: coordinate maps with angles
def leg_coordmaps(ctx, P, rng, n, force=None):
    """`force`: a recorded case - exactly its coordinate system and point"""
    from pde.grids.coordinates import CylindricalCoordinates, PolarCoordinates, SphericalCoordinates
    systems = {"polar": PolarCoordinates(), "spherical": SphericalCoordinates(), "cylindrical": CylindricalCoordinates()}
    if force is not None:
        jobs = [(force["system"], [float(x) for x in force["point"]])]
    else:
        jobs = []
        for _ in range(n):
            name = rng.choice(list(systems))
            r = rng.choice([0.0, dyadic(rng, 1, 64), rng.uniform(0, 1e3), 1e-8 * rng.random(), 1e-30 * (1 + rng.random()),
                            1e30 * (1 + rng.random())])
            phi = rng.choice([0.0, math.pi / 2, math.pi, rng.uniform(0, 2 * math.pi), rng.uniform(0, 2 * math.pi)])
            theta = rng.choice([0.0, math.pi / 2, math.pi, rng.uniform(0, math.pi)])
            z = rng.uniform(-5, 5) * rng.choice([1.0, 1.0, 1e-20, 1e20])
            jobs.append((name, {"polar": [r, phi], "spherical": [r, theta, phi], "cylindrical": [r, phi, z]}[name]))
    for name, pt in jobs:
        c = systems[name]
        r = pt[0]
        case = {"leg": "coordmaps", "system": name, "point": pt}
        _begin(case)
        ctx.count(case, nontrivial=(r != 0), leg="coordmaps")
        ctx.hist("coordmaps", name)
        try:
            cart = np.array(c.pos_to_cart(np.array(pt)), dtype=float)
            back = np.array(c.pos_from_cart(cart), dtype=float)
            jac = np.array(c.mapping_jacobian(np.array(pt)), dtype=float)
            volf = float(c.volume_factor(np.array(pt)))
            again = np.array(c.pos_to_cart(back), dtype=float)
        except Exception as e:  # noqa: BLE001
            raised(ctx, "coordmaps", case, {"cls": name}, e, f"{type(c).__name__}.pos_to_cart / pos_from_cart / mapping_jacobian")
            continue
        ctx.monitor_evals += 1
        bad = None
        # the scale of every quantity is its OWN scale: the radius for the radial part (polar and
        # spherical coordinates have no z), |z| for the axial component of cylindrical coordinates
        sr = max(r, 1e-300)
        comp = np.array([sr, sr, max(abs(pt[2]), 1e-300)]) if name == "cylindrical" else np.full(len(cart), sr)
        dim = len(pt)
        if cart.shape != (dim,) or back.shape != (dim,) or jac.shape != (dim, dim) or again.shape != (dim,):
            bad = f"shapes {cart.shape} {back.shape} {jac.shape}"
        elif not (np.all(np.isfinite(cart)) and np.all(np.isfinite(back)) and np.all(np.isfinite(jac)) and math.isfinite(volf)):
            bad = f"non-finite image of a finite point: {cart.tolist()} {back.tolist()} {jac.tolist()} {volf!r}"
        else:
            if not (abs(float(np.linalg.norm(cart[:2] if name != "spherical" else cart)) - r) <= TOL * sr):
                bad = f"|pos_to_cart| = {np.linalg.norm(cart)!r} != r = {r!r}"
            if name == "cylindrical" and cart[2] != pt[2]:
                bad = f"pos_to_cart changes z: {cart[2]!r} != {pt[2]!r}"
            if not (abs(back[0] - r) <= TOL * sr):
                bad = f"pos_from_cart(pos_to_cart(p)) has r = {back[0]!r} != {r!r}"
            if far(again, cart, 1e-11 * comp):
                bad = f"pos_to_cart(pos_from_cart(x)) = {again.tolist()} != x = {cart.tolist()}"
            # |det J| is the volume factor: r (polar, cylindrical), r^2 sin(theta) (spherical)
            vsc = sr * sr if name == "spherical" else sr
            det = float(np.linalg.det(jac))
            if not (abs(abs(det) - abs(volf)) <= 1e-11 * vsc):
                bad = f"|det(jacobian)| = {abs(det)!r} != volume_factor = {volf!r}"
        if bad:
            ctx.monitor_fail("coordmaps", case, {"cart": cart.tolist(), "back": back.tolist(), "problem": bad},
                             "mutually inverse coordinate maps", f"{name}: pos_to_cart/pos_from_cart",
                             key={"system": name, "leg": "coordmaps"})
            continue
        phi = pt[-1] if name != "cylindrical" else pt[1]
        theta = pt[1] if name == "spherical" else 0.0
        z = pt[2] if name == "cylindrical" else 0.0
        args = {"system": name, "r": q(r), "cp": q(math.cos(phi)), "sp": q(math.sin(phi)),
                "ct": q(math.cos(theta)), "st": q(math.sin(theta)), "z": q(z)}

        def cont(resp, case=case, cart=cart, comp=comp):
            mres = expect_ok(ctx, resp, "coordmaps", case)
            if mres is None:
                return
            ctx.impl_traces += 1
            mv = [unq(x) for x in mres]
            if len(mv) != len(cart) or not all(same(a, y, float(s), False, TOL) for a, y, s in zip(mv, cart, comp)):
                ctx.disagree("coordmaps", case, [float(x) for x in mv], cart.tolist(), "pos_to_cart")

        P.add("c12.tocart", args, cont)


# ------------------------------------------------------------------------------------------
REGRESSION_GRIDS = [
    # (grid, coords, p1, p2, integer-typed points)
    # F3 (fixed 4d67e68): cylindrical grid periodic in z, two points across the z seam
    ({"cls": "cylindrical", "radius": [1.0, 3.0], "bounds_z": [0.0, 10.0], "shape": [4, 5],
      "periodic": [False, True], "mode": "dyadic"}, "grid", [[2.0, 0.5]], [[2.0, 9.5]], False),
    ({"cls": "cylindrical", "radius": 2.0, "bounds_z": [-1.0, 3.0], "shape": [2, 4],
      "periodic": [False, True], "mode": "dyadic"}, "grid", [[1.0, -0.75], [0.5, 2.75]], [[1.5, 2.75], [0.5, -0.5]], False),
    ({"cls": "cylindrical", "radius": 2.0, "bounds_z": [-1.0, 3.0], "shape": [2, 4],
      "periodic": [False, True], "mode": "dyadic"}, "cartesian", [[0.6, 0.8, -0.75]], [[-0.8, 0.6, 2.75]], False),
    # different periods on a 2-d grid, points across both seams
    ({"cls": "cartesian", "bounds": [[0.0, 2.0], [0.0, 16.0]], "shape": [2, 4], "periodic": [True, True],
      "mode": "dyadic"}, "grid", [[0.25, 1.0], [1.75, 15.0]], [[1.75, 15.0], [0.25, 9.0]], False),
    ({"cls": "cartesian", "bounds": [[-1.0, 3.0], [0.0, 1.0], [2.0, 10.0]], "shape": [2, 1, 4],
      "periodic": [False, True, True], "mode": "dyadic"}, "grid", [[-0.5, 0.125, 2.5]], [[2.5, 0.875, 9.5]], False),
    # integer-typed points on a periodic axis with a non-integer period (fixed 16b723b)
    ({"cls": "cartesian", "bounds": [[0.0, 2.5]], "shape": [5], "periodic": [True], "mode": "dyadic"},
     "grid", [0], [2], True),
    ({"cls": "cartesian", "bounds": [[0.0, 2.5], [0.0, 3.0]], "shape": [5, 3], "periodic": [True, False],
      "mode": "dyadic"}, "cartesian", [[0, 1], [2, 0]], [[2, 2], [0, 3]], True),
    # the half-period tie in both directions
    ({"cls": "unit", "shape": [4, 2], "periodic": [True, True], "mode": "dyadic"}, "grid",
     [[0.5, 0.5], [2.5, 1.5]], [[2.5, 1.5], [0.5, 0.5]], False),
    # two axes whose scales differ by 10^11: the small periodic axis is judged at ITS scale
    ({"cls": "cartesian", "bounds": [[0.0, 1e-6], [0.0, 1e5]], "shape": [4, 4], "periodic": [True, True],
      "mode": "decimal"}, "grid", [[1e-7, 1e4], [2e-7, 9e4]], [[9e-7, 9e4], [7.5e-7, 2e4]], False),
]


def run(ctx):
    rng = ctx.rng
    P = Pending(ctx)
    n_grids = ctx.budget(1500, 40000)
    # fixed regression cases (always run, all legs)
    for spec, rc, rp1, rp2, rint in REGRESSION_GRIDS:
        ctx.hist("stream", "regression")
        if not _guard(ctx, "construct", spec, lambda: build(spec)):
            continue
        forced = {"coords": rc, "p1": rp1, "p2": rp2, "int_points": rint, "int_container": "list"}
        _guard(ctx, "geometry", spec, lambda: leg_geometry(ctx, P, spec))
        _guard(ctx, "distance", spec, lambda: leg_distance(ctx, P, spec, rng, force=forced))
        _guard(ctx, "distance", spec, lambda: leg_distance(ctx, P, spec, rng))
        _guard(ctx, "normalize", spec, lambda: leg_normalize(ctx, P, spec, rng))
        _guard(ctx, "transform", spec, lambda: leg_transform(ctx, P, spec, rng))
    # every class with 1 cell per axis
    for cls in ["unit", "cartesian", "polar", "spherical", "cylindrical"]:
        for mode in ["dyadic", "decimal"]:
            spec = gen_grid(rng, cls, mode, small=True)
            spec["shape"] = [1] * len(spec["shape"])
            all_legs(ctx, P, spec, rng)
    for i in range(n_grids):
        cls = CLASSES[i % len(CLASSES)]
        mode = "dyadic" if rng.random() < 0.5 else "decimal"
        spec = gen_grid(rng, cls, mode, small=(i % 3 != 0))
        ctx.hist("grid-class", f"{cls}/{len(spec['shape'])}axes/{mode}")
        ctx.hist("cells", "x".join(str(n) for n in spec["shape"]))
        b = spec_bounds(spec)
        ext = [float(max(abs(lo), abs(hi))) for lo, hi in b]
        ctx.hist("bounds-scale", f"1e{int(math.floor(math.log10(max(ext))))}")
        if len(ext) > 1:
            ctx.hist("axis-scale-ratio", f"1e{int(round(math.log10(max(ext) / max(min(ext), 1e-300))))}")
        all_legs(ctx, P, spec, rng, full=(i % 3 != 0))
        if (i + 1) % 1000 == 0:
            P.run()          # bounded memory: compare and drop the pending cases
    _guard(ctx, "coordmaps", None, lambda: leg_coordmaps(ctx, P, rng, ctx.budget(600, 10000)))
    _guard(ctx, "malformed", None, lambda: leg_malformed(ctx, rng))
    for _ in range(ctx.budget(400, 4000)):
        _guard(ctx, "ctor", None, lambda: leg_construct(ctx, P, rng))
    P.run()


def paths_repo():
    from harness.common import paths
    return paths.REPO


def _from_real_code(e):
    """True if the exception was raised while the real code was executing: below the deepest
    harness frame of the traceback there is a frame of the package under verification (the
    exception itself may surface in numpy / the standard library called by it)"""
    import traceback
    from harness.common import paths
    repo = os.path.realpath(paths.REPO) + os.sep
    here = os.path.realpath(os.path.dirname(os.path.abspath(__file__))) + os.sep
    tb = traceback.extract_tb(e.__traceback__)
    files = [os.path.realpath(fr_.filename) for fr_ in tb]
    last_harness = max((i for i, f in enumerate(files) if f.startswith(here)), default=-1)
    return any(f.startswith(repo) and not f.startswith(here) for f in files[last_harness + 1:]), tb


def _guard(ctx, leg, spec, fn):
    """run one leg; an exception raised while the real code executes on a valid input is a failure
    of the property on that input (reported with the concrete inputs of the case that was being
    executed), one raised by the harness itself is a broken check"""
    _CUR["case"] = None
    try:
        fn()
        return True
    except Exception as e:  # noqa: BLE001
        real, tb = _from_real_code(e)
        if not real:
            raise
        cur = _CUR["case"]
        case = cur if isinstance(cur, dict) and cur.get("leg") == leg else {"leg": leg, "grid": spec, "sub": "crash"}
        ctx.count(case, nontrivial=False, leg="crash")
        repo = os.path.realpath(paths_repo()) + os.sep
        where = next((f"{fr_.filename}:{fr_.lineno}" for fr_ in reversed(tb) if os.path.realpath(fr_.filename).startswith(repo)), "?")
        raised(ctx, leg, case, spec if isinstance(spec, dict) else None, e, f"leg {leg} at {where}")
        return False


def all_legs(ctx, P, spec, rng, full=True):
    if not _guard(ctx, "construct", spec, lambda: build(spec)):
        return
    _guard(ctx, "geometry", spec, lambda: leg_geometry(ctx, P, spec))
    if int(np.prod(spec["shape"])) <= 600:
        _guard(ctx, "integrate", spec, lambda: leg_integrate(ctx, P, spec, rng))
        _guard(ctx, "project", spec, lambda: leg_project(ctx, P, spec, rng))
    _guard(ctx, "transform", spec, lambda: leg_transform(ctx, P, spec, rng))
    _guard(ctx, "contains", spec, lambda: leg_contains(ctx, P, spec, rng))
    _guard(ctx, "normalize", spec, lambda: leg_normalize(ctx, P, spec, rng))
    _guard(ctx, "distance", spec, lambda: leg_distance(ctx, P, spec, rng))
    _guard(ctx, "random", spec, lambda: leg_random(ctx, P, spec, rng))
    _guard(ctx, "malformed", spec, lambda: leg_malformed_grid(ctx, spec, rng))
    _ = full


# ------------------------------------------------------------------------------------------
def search(ctx, broken):
    """failing-input search after a broken correspondence: first the monitors on exactly the
    recorded inputs of the disagreeing cases, then the monitors of every leg on their grids and
    on a fresh larger sample (the monitors are evaluated by the legs themselves; their failures
    are collected from a scratch context)"""
    from harness.common.context import Ctx
    sub = Ctx(ctx.pid, ctx.tier, ctx.seed, ctx.workdir)
    sub.rng = ctx.sub_rng("search")
    P = NoModel()
    specs = []
    for d in broken[:200]:
        c = d.get("case") if isinstance(d, dict) else None
        if not isinstance(c, dict):
            continue
        try:
            run_case(sub, P, c)
        except Exception:  # noqa: BLE001
            pass
        if sub.monitor_failures:
            return sub.monitor_failures[:1]
        if isinstance(c.get("grid"), dict) and c["grid"] not in specs:
            specs.append(c["grid"])
    for spec in specs[:40]:
        for _ in range(5):
            try:
                all_legs(sub, P, spec, sub.rng)
            except Exception:  # noqa: BLE001
                pass
        if sub.monitor_failures:
            return sub.monitor_failures[:1]
    for i in range(3000):
        cls = CLASSES[i % len(CLASSES)]
        spec = gen_grid(sub.rng, cls, "dyadic" if i % 2 else "decimal", small=True)
        try:
            all_legs(sub, P, spec, sub.rng)
        except Exception:  # noqa: BLE001
            pass
        if sub.monitor_failures:
            return sub.monitor_failures[:1]
    return []


def run_case(sub, P, c):
    """execute exactly the recorded case `c` (same leg, same inputs, same argument forms) on the
    real code: monitors into `sub`, model requests into `P`.  Returns False if the case carries no
    replayable inputs."""
    leg = c.get("leg")
    spec = c.get("grid")
    if leg == "coordmaps":
        return _guard(sub, leg, None, lambda: leg_coordmaps(sub, P, None, 0, force=c)) or True
    if leg == "malformed" and spec is None:
        _guard(sub, leg, None, lambda: leg_malformed(sub, None, only=c.get("what")))
        return True
    if not isinstance(spec, dict):
        return False
    if leg == "ctor":
        _guard(sub, leg, None, lambda: leg_construct(sub, P, None, force=c))
        return True
    if not _guard(sub, "construct", spec, lambda: build(spec)):
        return True          # the grid cannot be built any more: that is the failure
    if leg == "construct":
        sub.monitor_evals += 1
        return True
    if c.get("sub") == "crash":
        return False         # an exception outside any case: no inputs were recorded
    fn = {
        "geometry": lambda: leg_geometry(sub, P, spec),
        "integrate": lambda: leg_integrate(sub, P, spec, None, force=c),
        "project": lambda: leg_project(sub, P, spec, None, force=c),
        "transform": lambda: leg_transform(sub, P, spec, None, force=c),
        "contains": lambda: leg_contains(sub, P, spec, None, force=c),
        "normalize": lambda: leg_normalize(sub, P, spec, None, force=c),
        "distance": lambda: leg_distance(sub, P, spec, None, force=c),
        "random": lambda: leg_random(sub, P, spec, None, force=c),
        "malformed": lambda: leg_malformed_grid(sub, spec, None, force=c),
    }.get(leg)
    if fn is None:
        return False
    _guard(sub, leg, spec, fn)
    return True


def replay(ctx, rep):
    """Re-run the RECORDED case of a replay file on the real code: the same leg with the same grid,
    points, axes, data, seeds, container types and argument forms, through the same code path as
    the run that produced the file, and judge it with the same monitor.  False iff it still fails.
    A file written for a broken correspondence (`broken`: list of cases) re-runs every recorded
    case against the model as well."""
    from harness.common.context import Ctx
    sub = Ctx(ctx.pid, ctx.tier, ctx.seed, ctx.workdir)
    sub.rng = None           # nothing is drawn during a replay
    if "case" in rep and isinstance(rep["case"], dict):
        cases, P = [rep["case"]], NoModel()
    elif isinstance(rep.get("broken"), list):
        cases = [d.get("case") for d in rep["broken"] if isinstance(d, dict) and isinstance(d.get("case"), dict)]
        try:
            P = Pending(sub)
        except Exception as e:  # noqa: BLE001
            print("model driver not available:", e)
            P = NoModel()
        if not cases:
            print("cannot replay: the file records no case (a generated proof obligation is re-checked by ./check itself)")
            return False
    else:
        print("cannot replay: the file records no case")
        return False
    ok = True
    for c in cases:
        print("replaying leg", c.get("leg"), "on", json.dumps(c, default=str)[:300])
        if not run_case(sub, P, c):
            print("cannot replay: the recorded case carries no inputs for leg", c.get("leg"))
            ok = False
    try:
        P.run()
    except Exception as e:  # noqa: BLE001
        print("model comparison not possible:", str(e)[:300])
        ok = False
    if sub.monitor_evals == 0:
        print("cannot replay: no monitor was evaluated on the recorded case")
        ok = False
    what = rep.get("what")
    for mf in sub.monitor_failures[:5]:
        print("monitor FAILS:", mf["what"], "(the recorded symptom)" if what and mf["what"] == what else "", json.dumps(mf["observed"], default=str)[:600])
    for dd in sub.disagreements[:5]:
        print("model != code:", dd.get("leg"), dd.get("note"), json.dumps({"model": dd.get("model"), "impl": dd.get("impl")}, default=str)[:400])
    if ok and not sub.monitor_failures and not sub.disagreements:
        print(f"monitor: holds ({sub.monitor_evals} evaluations on the recorded inputs)")
    return ok and not sub.monitor_failures and not sub.disagreements
