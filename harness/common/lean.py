"""Lean side of a check: build, proof audit, and the batch client of the model driver."""
import json
import os
import re
import subprocess
import time

from . import paths

ALLOWED_AXIOMS = {"propext", "Classical.choice", "Quot.sound"}
FORBIDDEN = re.compile(
    r"\bsorry\b|sorryAx|\badmit\b|^\s*(?:private\s+|protected\s+)?axiom\s|native_decide|\+native|ofReduceBool|trustCompiler|bv_decide"
    r"|implemented_by|@\[\s*extern|@\[\s*csimp|\bunsafe\s|maxHeartbeats\s+0\b|debug\.skipKernelTC|\brun_cmd\b|\brun_elab\b|\brun_meta\b",
    re.M,
)


class BrokenCheck(Exception):
    """the verification machinery itself failed (exit 2) - never a violation"""


def _run(cmd, **kw):
    return subprocess.run(cmd, cwd=paths.LEAN, text=True, capture_output=True, **kw)


def lake_build(targets, timeout=3000):
    """(ok, output).  Rebuilds only what changed (no-op is about 0.3 s)."""
    t0 = time.time()
    p = _run(["lake", "build", *targets], timeout=timeout)
    return p.returncode == 0, p.stdout + p.stderr, time.time() - t0


def strip_comments(src: str) -> str:
    # nested block comments /- ... -/ and line comments --
    out, i, depth, n = [], 0, 0, len(src)
    while i < n:
        if src.startswith("/-", i):
            depth += 1
            i += 2
        elif depth and src.startswith("-/", i):
            depth -= 1
            i += 2
        elif depth:
            if src[i] == "\n":
                out.append("\n")
            i += 1
        elif src.startswith("--", i):
            while i < n and src[i] != "\n":
                i += 1
        else:
            out.append(src[i])
            i += 1
    return "".join(out)


def forbidden_tokens():
    """list of (file, line, text) of forbidden constructs outside comments in all Lean sources"""
    hits = []
    for root, _dirs, files in os.walk(paths.LEAN):
        if ".lake" in root:
            continue
        for f in files:
            if not f.endswith(".lean"):
                continue
            p = os.path.join(root, f)
            src = strip_comments(open(p).read())
            for m in FORBIDDEN.finditer(src):
                line = src.count("\n", 0, m.start()) + 1
                hits.append((os.path.relpath(p, paths.LEAN), line, m.group(0).strip()))
    return hits


def theorems_of(module_file: str):
    """fully qualified names of the theorems stated in a Props file (one `namespace` nesting
    tracked by a simple stack; `private`/`protected` theorems included)"""
    src = strip_comments(open(module_file).read())
    ns, names = [], []
    for line in src.split("\n"):
        m = re.match(r"\s*namespace\s+([\w.]+)", line)
        if m:
            ns.append(m.group(1))
            continue
        m = re.match(r"\s*end\s+([\w.]+)\s*$", line)
        if m and ns and ns[-1] == m.group(1):
            ns.pop()
            continue
        m = re.match(r"\s*(?:@\[[^\]]*\]\s*)?(?:private\s+|protected\s+)?(?:theorem|lemma)\s+([\w.'!?₀-₉]+)", line)
        if m:
            names.append(".".join(ns + [m.group(1)]))
    return names


AUTO_GENERATED = re.compile(r"^(eq_\d+|eq_def|congr_simp|inj|injEq|sizeOf_spec|noConfusion\w*|ctorIdx\w*|.*match_\d+.*|.*_sunfold|.*_unsafe_rec)$")
PINS_DIR = os.path.join(paths.LEAN, "pins")


def env_theorems(modules):
    """[{module, name, axioms, stmt}] for every theorem constant of the compiled modules, read from the
    Lean environment itself (lean/AuditEnv.lean), not from the source text"""
    p = _run(["lake", "env", "lean", "--run", "AuditEnv.lean", *modules], timeout=1800)
    if p.returncode != 0:
        raise BrokenCheck("environment audit failed:\n" + (p.stdout + p.stderr)[-2000:])
    return [json.loads(l) for l in p.stdout.splitlines() if l.startswith("{")]


def load_pins(module):
    f = os.path.join(PINS_DIR, module + ".json")
    return json.load(open(f)) if os.path.exists(f) else None


def audit(pid: str, workdir: str, required=(), extra_files=()):
    """Axioms and statement pins of every theorem of Props/<pid>.lean (+ extra Props files).

    The list of theorems and their axioms come from the compiled environment; the regex scan of the source
    is only a cross-check (a theorem the scan sees must exist in the environment).  Statement pins
    (lean/pins/<module>.json, written by tools/pin_statements.py) fix the structural hash of every theorem's
    statement, so a theorem cannot be weakened or dropped silently.
    Returns dict(obligations, discharged, theorems=[{name, axioms, ok}], missing_required, pin_problems)."""
    mods = [pid] + list(extra_files)
    full = [f"PdeVerif.Props.{m}" for m in mods]
    env = env_theorems(full)
    res, auto_bad, pin_problems = [], [], []
    by_mod = {}
    for t in env:
        last = t["name"].split(".")[-1]
        ok = set(t["axioms"]) <= ALLOWED_AXIOMS
        if AUTO_GENERATED.match(last):
            if not ok:
                auto_bad.append({"name": t["name"], "axioms": t["axioms"], "ok": False})
            continue
        res.append({"name": t["name"], "axioms": t["axioms"], "ok": ok})
        by_mod.setdefault(t["module"], {})[t["name"]] = t["stmt"]
    names = {r["name"] for r in res}
    for m in mods:  # cross-check with the source scan
        for n in theorems_of(os.path.join(paths.LEAN, "PdeVerif", "Props", f"{m}.lean")):
            if n not in names and not any(x.endswith("." + n.split(".")[-1]) for x in names):
                res.append({"name": n, "axioms": None, "ok": False})
    for m in full:
        pins = load_pins(m)
        if pins is None:
            pin_problems.append(f"{m}: no statement pins (run tools/pin_statements.py)")
            continue
        cur = by_mod.get(m, {})
        for n, h in pins.items():
            if n not in cur:
                pin_problems.append(f"{n}: pinned theorem no longer exists")
            elif cur[n] != h:
                pin_problems.append(f"{n}: statement differs from the pinned one")
        for n in cur:
            if n not in pins:
                pin_problems.append(f"{n}: theorem without a statement pin")
    short = {r["name"].split(".")[-1] for r in res}
    missing = [r for r in required if r not in short]
    return {
        "obligations": len(res) + len(missing),
        "discharged": sum(1 for r in res if r["ok"]),
        "theorems": res + auto_bad,
        "missing_required": missing,
        "pin_problems": pin_problems,
        "raw_ok": True,
        "raw": "",
    }


def leanchecker(modules, timeout=3000):
    p = _run(["lake", "env", "leanchecker", *modules], timeout=timeout)
    return p.returncode == 0, (p.stdout + p.stderr)[-2000:]


class LeanBatch:
    """Collect requests, run the model driver once, return the answers in order."""

    def __init__(self, workdir: str):
        self.workdir = workdir
        self.reqs = []
        self.n_runs = 0

    def add(self, fn: str, args: dict) -> int:
        self.reqs.append(json.dumps({"f": fn, "a": args}, separators=(",", ":")))
        return len(self.reqs) - 1

    def run(self, timeout=3000):
        """answers: list of ('ok', value) | ('err', message)"""
        if not self.reqs:
            return []
        self.n_runs += 1
        fin = os.path.join(self.workdir, f"lean_in_{id(self)}_{self.n_runs}.jsonl")
        with open(fin, "w") as fh:
            fh.write("\n".join(self.reqs) + "\n")
        with open(fin) as fh:
            p = subprocess.run(
                ["lake", "env", "lean", "--run", "Driver.lean"],
                cwd=paths.LEAN, stdin=fh, text=True, capture_output=True, timeout=timeout,
            )
        lines = [l for l in p.stdout.split("\n") if l.strip()]
        if p.returncode != 0 or len(lines) != len(self.reqs):
            raise BrokenCheck(
                f"model driver failed: rc={p.returncode} answers={len(lines)}/{len(self.reqs)}\n"
                + p.stderr[-2000:]
            )
        out = []
        for l in lines:
            j = json.loads(l)
            out.append(("ok", j["ok"]) if "ok" in j else ("err", j.get("err")))
        self.reqs = []
        os.unlink(fin)
        return out
