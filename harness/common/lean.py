"""Lean side of a check: build, proof audit, and the batch client of the model driver."""
import json
import os
import re
import subprocess
import time

from . import paths

ALLOWED_AXIOMS = {"propext", "Classical.choice", "Quot.sound"}
FORBIDDEN = re.compile(
    r"\bsorry\b|\badmit\b|^\s*axiom\s|native_decide|bv_decide|implemented_by|\bunsafe\s|maxHeartbeats\s+0\b",
    re.M,
)


class BrokenCheck(Exception):
    """the verification machinery itself failed (exit 2) - never a violation"""


def _run(cmd, **kw):
    return subprocess.run(cmd, cwd=paths.LEAN, text=True, capture_output=True, **kw)


def lake_build(targets, timeout=3000):
    """(ok, output).  Rebuilds only what changed (no-op is about 0.3 s)."""
    t0 = time.time()
    p = _run(["lake", "build", *targets], timeout=timeout)
    return p.returncode == 0, p.stdout + p.stderr, time.time() - t0


def strip_comments(src: str) -> str:
    # nested block comments /- ... -/ and line comments --
    out, i, depth, n = [], 0, 0, len(src)
    while i < n:
        if src.startswith("/-", i):
            depth += 1
            i += 2
        elif depth and src.startswith("-/", i):
            depth -= 1
            i += 2
        elif depth:
            if src[i] == "\n":
                out.append("\n")
            i += 1
        elif src.startswith("--", i):
            while i < n and src[i] != "\n":
                i += 1
        else:
            out.append(src[i])
            i += 1
    return "".join(out)


def forbidden_tokens():
    """list of (file, line, text) of forbidden constructs outside comments in all Lean sources"""
    hits = []
    for root, _dirs, files in os.walk(paths.LEAN):
        if ".lake" in root:
            continue
        for f in files:
            if not f.endswith(".lean"):
                continue
            p = os.path.join(root, f)
            src = strip_comments(open(p).read())
            for m in FORBIDDEN.finditer(src):
                line = src.count("\n", 0, m.start()) + 1
                hits.append((os.path.relpath(p, paths.LEAN), line, m.group(0).strip()))
    return hits


def theorems_of(module_file: str):
    """fully qualified names of the theorems stated in a Props file (one `namespace` nesting
    tracked by a simple stack; `private`/`protected` theorems included)"""
    src = strip_comments(open(module_file).read())
    ns, names = [], []
    for line in src.split("\n"):
        m = re.match(r"\s*namespace\s+([\w.]+)", line)
        if m:
            ns.append(m.group(1))
            continue
        m = re.match(r"\s*end\s+([\w.]+)\s*$", line)
        if m and ns and ns[-1] == m.group(1):
            ns.pop()
            continue
        m = re.match(r"\s*(?:@\[[^\]]*\]\s*)?(?:private\s+|protected\s+)?(?:theorem|lemma)\s+([\w.'!?₀-₉]+)", line)
        if m:
            names.append(".".join(ns + [m.group(1)]))
    return names


def audit(pid: str, workdir: str, required=(), extra_files=()):
    """Print the axioms of every theorem of Props/<pid>.lean.

    Returns dict(obligations, discharged, theorems=[{name, axioms, ok}], missing_required)."""
    mods = [pid] + list(extra_files)
    names = []
    for m in mods:
        names += theorems_of(os.path.join(paths.LEAN, "PdeVerif", "Props", f"{m}.lean"))
    src = [f"import PdeVerif.Props.{m}" for m in mods] + [f"#print axioms {n}" for n in names]
    f = os.path.join(workdir, f"Audit_{pid}.lean")
    with open(f, "w") as fh:
        fh.write("\n".join(src) + "\n")
    p = _run(["lake", "env", "lean", f], timeout=1800)
    out = p.stdout + p.stderr
    res = []
    # answers look like:  'X' depends on axioms: [a, b]   or   'X' does not depend on any axioms
    flat = re.sub(r"\s+", " ", out)
    for n in names:
        m = re.search(r"'" + re.escape(n) + r"' (does not depend on any axioms|depends on axioms: \[([^\]]*)\])", flat)
        if not m:
            res.append({"name": n, "axioms": None, "ok": False})
            continue
        ax = [] if m.group(2) is None else [a.strip() for a in m.group(2).split(",") if a.strip()]
        res.append({"name": n, "axioms": ax, "ok": set(ax) <= ALLOWED_AXIOMS})
    short = {n.split(".")[-1] for n in names}
    missing = [r for r in required if r not in short]
    return {
        "obligations": len(names) + len(missing),
        "discharged": sum(1 for r in res if r["ok"]),
        "theorems": res,
        "missing_required": missing,
        "raw_ok": p.returncode == 0,
        "raw": out if p.returncode != 0 else "",
    }


def leanchecker(modules, timeout=3000):
    p = _run(["lake", "env", "leanchecker", *modules], timeout=timeout)
    return p.returncode == 0, (p.stdout + p.stderr)[-2000:]


class LeanBatch:
    """Collect requests, run the model driver once, return the answers in order."""

    def __init__(self, workdir: str):
        self.workdir = workdir
        self.reqs = []
        self.n_runs = 0

    def add(self, fn: str, args: dict) -> int:
        self.reqs.append(json.dumps({"f": fn, "a": args}, separators=(",", ":")))
        return len(self.reqs) - 1

    def run(self, timeout=3000):
        """answers: list of ('ok', value) | ('err', message)"""
        if not self.reqs:
            return []
        self.n_runs += 1
        fin = os.path.join(self.workdir, f"lean_in_{id(self)}_{self.n_runs}.jsonl")
        with open(fin, "w") as fh:
            fh.write("\n".join(self.reqs) + "\n")
        with open(fin) as fh:
            p = subprocess.run(
                ["lake", "env", "lean", "--run", "Driver.lean"],
                cwd=paths.LEAN, stdin=fh, text=True, capture_output=True, timeout=timeout,
            )
        lines = [l for l in p.stdout.split("\n") if l.strip()]
        if p.returncode != 0 or len(lines) != len(self.reqs):
            raise BrokenCheck(
                f"model driver failed: rc={p.returncode} answers={len(lines)}/{len(self.reqs)}\n"
                + p.stderr[-2000:]
            )
        out = []
        for l in lines:
            j = json.loads(l)
            out.append(("ok", j["ok"]) if "ok" in j else ("err", j.get("err")))
        self.reqs = []
        os.unlink(fin)
        return out
