"""Checkout-relative locations (the check is run with cwd=/verif or a copy of it)."""
import os

VERIF = os.path.dirname(os.path.dirname(os.path.dirname(os.path.abspath(__file__))))
LEAN = os.path.join(VERIF, "lean")
REPO = os.environ.get("VERIF_REPO", "/repo")
# evidence describes runs against /repo only; a run against another tree (seeded-change trials) writes elsewhere
EVIDENCE = os.path.join(VERIF, "evidence" if os.path.realpath(REPO) == "/repo" else ".work/evidence-other-tree")
REPLAYS = os.path.join(VERIF, "replays")
CORPUS = os.path.join(VERIF, "corpus")
WORK_ROOT = os.path.join(VERIF, ".work")
KNOWN_FINDINGS = os.path.join(VERIF, "known_findings.json")
PYTHON = "/venv/bin/python"
